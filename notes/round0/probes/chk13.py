import re, sys
from aioesphomeapi import api_pb2, api_options_pb2, core, model, model_conversions
from google.protobuf import descriptor
# ids from descriptors
ids={}
for name, d in api_pb2.DESCRIPTOR.message_types_by_name.items():
    opts=d.GetOptions()
    i=opts.Extensions[api_options_pb2.id]
    s=opts.Extensions[api_options_pb2.source]
    if i: ids[i]=(name,s)
print(len(ids), min(ids), max(ids))
bad=[(k,v.__name__,ids.get(k)) for k,v in core.MESSAGE_TYPE_TO_PROTO.items() if ids.get(k,(None,))[0]!=v.__name__]
print("table mismatches", bad, "missing", set(ids)-set(core.MESSAGE_TYPE_TO_PROTO))
print("order ok", list(core.MESSAGE_TYPE_TO_PROTO)==list(range(1,len(ids)+1)))
# proto text
txt=open('/repo/aioesphomeapi/api.proto').read()
msgs=re.findall(r'^message (\w+) \{(.*?)^\}', txt, re.S|re.M)
tids={}
for n,b in msgs:
    m=re.search(r'option \(id\) = (\d+);',b)
    s=re.search(r'option \(source\) = (\w+);',b)
    if m: tids[int(m.group(1))]=(n, s.group(1) if s else 'SOURCE_BOTH')
srcmap={0:'SOURCE_BOTH',1:'SOURCE_SERVER',2:'SOURCE_CLIENT'}
print("text vs desc", [(k,tids.get(k),ids.get(k)) for k in set(tids)|set(ids) if tids.get(k)!=(ids[k][0],srcmap[ids[k][1]])])
# enums
import enum
for name, ed in api_pb2.DESCRIPTOR.enum_types_by_name.items():
    pass
print(sorted(api_pb2.DESCRIPTOR.enum_types_by_name))

import asyncio, socket, sys
from unittest.mock import MagicMock, create_autospec, patch
sys.path.insert(0,'/repo')
from tests.common import generate_plaintext_packet
from aioesphomeapi.connection import APIConnection, ConnectionParams
from aioesphomeapi.zeroconf import ZeroconfManager
from aioesphomeapi.api_pb2 import *
def params(**kw):
    d=dict(addresses=["1.2.3.4"],port=6052,password=None,client_info="t",keepalive=15.0,zeroconf_manager=ZeroconfManager(),noise_psk=None,expected_name=None); d.update(kw)
    return ConnectionParams(**d)
def mock_sock():
    s=create_autospec(socket.socket, spec_set=True, instance=True); s.type=socket.SOCK_STREAM; s.fileno.return_value=1; s.getpeername.return_value=("1.2.3.4",6052); return s
async def main():
    loop=asyncio.get_running_loop()
    stops=[]
    conn=APIConnection(params(), stops.append, False, None)
    transport=MagicMock()
    async def cc(create_func, **kw):
        p=create_func(); p.connection_made(transport); return transport,p
    with patch("aioesphomeapi.connection.aiohappyeyeballs.start_connection", return_value=mock_sock()), patch.object(loop,"create_connection",cc):
        await conn.start_connection()
        t=asyncio.create_task(conn.finish_connection(login=False))
        await asyncio.sleep(0); await asyncio.sleep(0)
        fh=conn._frame_helper
        h=HelloResponse(api_version_major=1,api_version_minor=10,name="x")
        # same loop turn: hello response arrives, then the socket drops (EOF)
        fh.data_received(generate_plaintext_packet(h))
        fh.connection_lost(None)
        print("after EOF state", conn.connection_state)
        try:
            await t; print("finish_connection returned normally")
        except Exception as e: print("finish raised", type(e).__name__, e)
        print("final", conn.connection_state, "is_connected", conn.is_connected, "ping timer armed", conn._ping_timer is not None and not conn._ping_timer.cancelled(), "frame_helper", conn._frame_helper, "stops", stops)
        try:
            conn.send_message(PingRequest())
        except Exception as e: print("send on zombie ->", type(e).__name__, e)
asyncio.run(main())

import asyncio, socket, sys, ast, re
from unittest.mock import MagicMock, create_autospec, patch
sys.path.insert(0,'/repo')
from tests.common import generate_plaintext_packet
from aioesphomeapi.connection import APIConnection, ConnectionParams
from aioesphomeapi.zeroconf import ZeroconfManager
from aioesphomeapi.api_pb2 import *
from aioesphomeapi import api_pb2, api_options_pb2
def params(**kw):
    d=dict(addresses=["1.2.3.4"],port=6052,password=None,client_info="t",keepalive=15.0,zeroconf_manager=ZeroconfManager(),noise_psk=None,expected_name=None); d.update(kw)
    return ConnectionParams(**d)
def mock_sock():
    s=create_autospec(socket.socket, spec_set=True, instance=True); s.type=socket.SOCK_STREAM; s.fileno.return_value=1; s.getpeername.return_value=("1.2.3.4",6052); return s
async def c07():
    loop=asyncio.get_running_loop()
    stops=[]
    conn=APIConnection(params(), stops.append, False, None)
    transport=MagicMock()
    async def cc(create_func, **kw):
        p=create_func(); p.connection_made(transport); return transport,p
    with patch("aioesphomeapi.connection.aiohappyeyeballs.start_connection", return_value=mock_sock()), patch.object(loop,"create_connection",cc):
        await conn.start_connection()
        t=asyncio.create_task(conn.finish_connection(login=False))
        await asyncio.sleep(0); await asyncio.sleep(0)
        fh=conn._frame_helper
        d=asyncio.create_task(conn.disconnect())   # user asks for a graceful disconnect while finishing
        await asyncio.sleep(0)
        fh.data_received(generate_plaintext_packet(HelloResponse(api_version_major=1,api_version_minor=10,name="x")))
        await t
        print("connected:", conn.is_connected)
        # the socket drops before disconnect() resumes from asyncio.wait
        fh.connection_lost(None)
        await d
        print("C07 stops:", stops, "(disconnect() had been called before the close)")
asyncio.run(c07())

# C13 direction clause, quick static approximation
src=open('/repo/aioesphomeapi/client.py').read()+open('/repo/aioesphomeapi/connection.py').read()
srcs={n:d.GetOptions().Extensions[api_options_pb2.source] for n,d in api_pb2.DESCRIPTOR.message_types_by_name.items()}
sent=set(re.findall(r'\b([A-Z]\w+(?:Request|Response|Audio|Finished|Configuration))\(', src))
for n in sorted(sent):
    if n in srcs and srcs[n]==1: print("constructed but SERVER-only:", n)

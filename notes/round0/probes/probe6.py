import asyncio, socket, sys
from unittest.mock import MagicMock, create_autospec, patch
sys.path.insert(0,'/repo')
from tests.common import generate_plaintext_packet
from aioesphomeapi import APIClient
from aioesphomeapi.api_pb2 import *
def mock_sock():
    s=create_autospec(socket.socket, spec_set=True, instance=True); s.type=socket.SOCK_STREAM; s.fileno.return_value=1; s.getpeername.return_value=("1.2.3.4",6052); return s
async def main():
    loop=asyncio.get_running_loop()
    cli=APIClient("1.2.3.4",6052,None)
    transports=[]
    async def cc(create_func, **kw):
        tr=MagicMock(); transports.append(tr); p=create_func(); p.connection_made(tr); return tr,p
    with patch("aioesphomeapi.connection.aiohappyeyeballs.start_connection", side_effect=lambda *a,**k: mock_sock()), patch.object(loop,"create_connection",cc):
        await cli.start_connection()
        t=asyncio.create_task(cli.finish_connection(login=False)); await asyncio.sleep(0); await asyncio.sleep(0)
        cli._connection._frame_helper.data_received(generate_plaintext_packet(HelloResponse(api_version_major=1,api_version_minor=10,name="x")))
        await t
        unsub=cli.subscribe_bluetooth_le_advertisements(lambda a: None)
        await cli.disconnect(force=True)
        print("session A closed, client connection:", cli._connection)
        # session B: started, handshake complete, hello/login not yet answered
        await cli.start_connection()
        t=asyncio.create_task(cli.finish_connection(login=True)); await asyncio.sleep(0); await asyncio.sleep(0)
        b=cli._connection; trB=transports[-1]
        print("session B state:", b.connection_state, "is_connected", b.is_connected)
        n0=trB.write.call_count
        try:
            unsub(); print("stale unsub wrote", trB.write.call_count-n0, "frame(s) on the unauthenticated session:", trB.write.call_args[0][0].hex())
        except Exception as e: print("stale unsub raised", type(e).__name__, e)
        t.cancel()
asyncio.run(main())

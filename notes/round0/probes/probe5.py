import asyncio, socket, sys, logging
from unittest.mock import MagicMock, create_autospec, patch
sys.path.insert(0,'/repo')
from tests.common import get_mock_async_zeroconf
from aioesphomeapi import APIClient
from aioesphomeapi.reconnect_logic import ReconnectLogic, ReconnectLogicState
async def main():
    loop=asyncio.get_running_loop()
    cli=APIClient("mydevice.local",6052,None, zeroconf_instance=get_mock_async_zeroconf())
    errs=[]
    async def on_connect(): print("on_connect")
    async def on_disconnect(e): print("on_disconnect",e)
    async def on_err(e): errs.append(type(e).__name__)
    rl=ReconnectLogic(client=cli,on_connect=on_connect,on_disconnect=on_disconnect,name="mydevice",on_connect_error=on_err)
    attempts=[]
    hang=[]
    async def fake_start(*a,**k):
        attempts.append(loop.time()); f=loop.create_future(); hang.append(f); return await f
    async def fake_resolve(*a,**k):
        from aioesphomeapi.host_resolver import AddrInfo, IPv4Sockaddr
        return [AddrInfo(socket.AF_INET,socket.SOCK_STREAM,socket.IPPROTO_TCP,IPv4Sockaddr("1.2.3.4",6052))]
    with patch("aioesphomeapi.connection.aiohappyeyeballs.start_connection", fake_start), patch("aioesphomeapi.host_resolver.async_resolve_host", fake_resolve):
        await rl.start()
        await asyncio.sleep(0.01)
        print("attempts", len(attempts), "state", rl._connection_state, "tries", rl._tries)
        # while CONNECTING, a second trigger (as _on_disconnect/_schedule_connect(0) or a timer would do)
        rl._schedule_connect(0.0)
        await asyncio.sleep(0.01)
        print("after retrigger: attempts", len(attempts), "state", rl._connection_state, "tries", rl._tries, "errs", errs, "timer", rl._connect_timer is not None, "zc_listening", rl._zc_listening)
        await rl.stop()
        print("after stop: timer", rl._connect_timer, "task", rl._connect_task)
asyncio.run(main())

import asyncio, socket, sys
from unittest.mock import MagicMock, create_autospec, patch
from functools import partial
sys.path.insert(0,'/repo')
from tests.common import generate_plaintext_packet, get_mock_zeroconf
from aioesphomeapi import APIClient
from aioesphomeapi.connection import APIConnection, ConnectionParams, ConnectionState
from aioesphomeapi.zeroconf import ZeroconfManager
from aioesphomeapi.host_resolver import AddrInfo, IPv4Sockaddr
from aioesphomeapi.api_pb2 import *
from aioesphomeapi._frame_helper import APIPlaintextFrameHelper
import aioesphomeapi.host_resolver as hr

def params(**kw):
    d=dict(addresses=["1.2.3.4"],port=6052,password=None,client_info="t",keepalive=15.0,zeroconf_manager=ZeroconfManager(),noise_psk=None,expected_name=None); d.update(kw)
    return ConnectionParams(**d)
def mock_sock():
    s=create_autospec(socket.socket, spec_set=True, instance=True); s.type=socket.SOCK_STREAM; s.fileno.return_value=1; s.getpeername.return_value=("1.2.3.4",6052); return s

async def c05():
    loop=asyncio.get_running_loop()
    stops=[]
    conn=APIConnection(params(), stops.append, False, None)
    fut=loop.create_future()
    async def fake_start_connection(*a,**k):
        return await fut
    with patch("aioesphomeapi.connection.aiohappyeyeballs.start_connection", fake_start_connection):
        task=asyncio.create_task(conn.start_connection())
        await asyncio.sleep(0); await asyncio.sleep(0); await asyncio.sleep(0)
        s=mock_sock()
        # same loop turn: socket connect completes, then user force-disconnects
        fut.set_result(s)
        conn.force_disconnect()
        print("C05 after force_disconnect:", conn.connection_state)
        try:
            await task; print("C05 start_connection returned normally")
        except Exception as e: print("C05 start raised", type(e).__name__, e)
        print("C05 final state:", conn.connection_state, "socket closed?", s.close.called, "conn._socket", conn._socket is not None)
asyncio.run(c05())

async def c19():
    cli=APIClient("1.2.3.4",6052,None)
    with patch("aioesphomeapi.connection.aiohappyeyeballs.start_connection", return_value=mock_sock()):
        await cli.start_connection()
        await cli.disconnect()
        print("C19 after disconnect between phases: _connection is None?", cli._connection is None, cli._connection and cli._connection.connection_state)
        try:
            await cli.start_connection(); print("C19 second start ok")
        except Exception as e: print("C19 second start raised:", type(e).__name__, e)
asyncio.run(c19())

async def connected_conn(on_stop=None):
    loop=asyncio.get_running_loop()
    conn=APIConnection(params(), on_stop, False, None)
    transport=MagicMock()
    def create(transport, create_func, **kw):
        p=create_func(); p.connection_made(transport); return transport,p
    async def cc(create_func, **kw):
        return create(transport, create_func)
    with patch("aioesphomeapi.connection.aiohappyeyeballs.start_connection", return_value=mock_sock()), patch.object(loop,"create_connection",cc):
        await conn.start_connection()
        t=asyncio.create_task(conn.finish_connection(login=False))
        await asyncio.sleep(0); await asyncio.sleep(0)
        h=HelloResponse(api_version_major=1,api_version_minor=10,name="x")
        conn._frame_helper.data_received(generate_plaintext_packet(h))
        await t
    return conn, transport

async def c08():
    stops=[]
    conn,tr=await connected_conn(stops.append)
    got=[]
    conn.add_message_callback(got.append,(SensorStateResponse,))
    fh=conn._frame_helper
    chunk=generate_plaintext_packet(DisconnectRequest())+generate_plaintext_packet(SensorStateResponse(key=1,state=2.0))
    fh.data_received(chunk)
    print("C08 state", conn.connection_state, "stops", stops, "delivered after close:", len(got))
asyncio.run(c08())

async def c12():
    conn,tr=await connected_conn(None)
    got=[]
    conn.add_message_callback(got.append,(VoiceAssistantSetConfiguration,))
    conn._send_pending_ping=True
    conn.process_packet(0, b"")
    print("C12 type 0 delivered:", got, "pending ping now", conn._send_pending_ping)
    try:
        conn.process_packet(0, b"\xff\xff")
    except Exception as e: print("C12 type0 bad payload raised", type(e).__name__)
    print("C12 state after", conn.connection_state)
asyncio.run(c12())

import asyncio, sys, base64
from unittest.mock import MagicMock
sys.path.insert(0,'/repo')
from aioesphomeapi._frame_helper.noise import APINoiseFrameHelper, EncryptCipher
from aioesphomeapi._frame_helper.plain_text import APIPlaintextFrameHelper, _varuint_to_bytes
from aioesphomeapi.core import *
PSK=base64.b64encode(bytes(range(32))).decode()
class Conn:
    def __init__(s): s.pk=[]; s.err=[]
    def process_packet(s,t,d): s.pk.append((t,d))
    def report_fatal_error(s,e): s.err.append(e)
async def main():
    c=Conn(); fh=APINoiseFrameHelper(connection=c,noise_psk=PSK,expected_name=None,client_info="x",log_name="l")
    tr=MagicMock(); fh.connection_made(tr)
    # hello then EMPTY handshake frame
    hello=b"\x01"+b"name\x00"
    def fr(b): return bytes((1,len(b)>>8,len(b)&255))+b
    try:
        fh.data_received(fr(hello)+fr(b""))
        print("empty handshake: no exception", c.err)
    except Exception as e: print("empty handshake frame ->", type(e).__name__, e)
    c=Conn(); fh=APINoiseFrameHelper(connection=c,noise_psk=PSK,expected_name="n",client_info="x",log_name="l"); fh.connection_made(MagicMock())
    try:
        fh.data_received(fr(b"\x01\xff\xfe\x00"))
        print("bad utf8 hello: no exception", c.err)
    except Exception as e: print("bad utf8 hello ->", type(e).__name__)
    # noise write >64k: fake cipher
    c=Conn(); fh=APINoiseFrameHelper(connection=c,noise_psk=PSK,expected_name=None,client_info="x",log_name="l"); tr=MagicMock(); fh.connection_made(tr)
    class CS: 
        n=0
        class cipher:
            class cipher:
                @staticmethod
                def encrypt(n,d,a): return d+b"T"*16
    fh._encrypt_cipher=EncryptCipher(CS)
    tr.write.reset_mock()
    fh.write_packets([(1,b"x"*65516)],False)
    out=tr.write.call_args[0][0]
    print("noise 65516-byte payload header:", out[:3].hex(), "total", len(out))
    # plaintext preamble 0x80 0x00
    c=Conn(); p=APIPlaintextFrameHelper(connection=c,client_info="x",log_name="l"); p.connection_made(MagicMock())
    p.data_received(b"\x80\x00\x00\x07"); print("preamble 80 00 accepted:", c.pk, c.err)
asyncio.run(main())

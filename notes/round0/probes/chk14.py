import re, sys, enum, dataclasses
from aioesphomeapi import api_pb2, model, model_conversions
# enum pairing by heuristics: strip prefix
pairs={'AlarmControlPanelState':'AlarmControlPanelState','AlarmControlPanelStateCommand':'AlarmControlPanelCommand','BluetoothDeviceRequestType':'BluetoothDeviceRequestType','ClimateAction':'ClimateAction','ClimateFanMode':'ClimateFanMode','ClimateMode':'ClimateMode','ClimatePreset':'ClimatePreset','ClimateSwingMode':'ClimateSwingMode','CoverOperation':'CoverOperation','EntityCategory':'EntityCategory','FanDirection':'FanDirection','FanSpeed':'FanSpeed','LegacyCoverCommand':'LegacyCoverCommand','LegacyCoverState':'LegacyCoverState','LockCommand':'LockCommand','LockState':'LockState','LogLevel':'LogLevel','MediaPlayerCommand':'MediaPlayerCommand','MediaPlayerFormatPurpose':'MediaPlayerFormatPurpose','MediaPlayerState':'MediaPlayerState','NumberMode':'NumberMode','SensorLastResetType':'LastResetType','SensorStateClass':'SensorStateClass','ServiceArgType':'UserServiceArgType','TextMode':'TextMode','UpdateCommand':'UpdateCommand','ValveOperation':'ValveOperation','VoiceAssistantEvent':'VoiceAssistantEventType','VoiceAssistantTimerEvent':'VoiceAssistantTimerEventType'}
for w,m in pairs.items():
    ed=api_pb2.DESCRIPTOR.enum_types_by_name[w]
    wire={v.number:v.name for v in ed.values}
    M=getattr(model,m)
    mod={int(x):x.name for x in M}
    alias=[n for n,x in M.__members__.items() if x.name!=n]
    if set(wire)!=set(mod) or alias:
        print("ENUM DIFF",w,m, "wire-only",{k:wire[k] for k in set(wire)-set(mod)}, "model-only",{k:mod[k] for k in set(mod)-set(wire)}, "alias",alias)
    # names
    for k in set(wire)&set(mod):
        wn=wire[k]; mn=mod[k]
        if not wn.endswith(mn):
            print("  NAME?",w,k,wn,mn)
# model classes vs messages
tbl={}
tbl.update(model_conversions.SUBSCRIBE_STATES_RESPONSE_TYPES)
tbl.update({k:v for k,v in model_conversions.LIST_ENTITIES_SERVICES_RESPONSE_TYPES.items() if v})
extra={api_pb2.DeviceInfoResponse:model.DeviceInfo, api_pb2.ListEntitiesServicesResponse:model.UserService, api_pb2.HomeassistantServiceResponse:model.HomeassistantServiceCall, api_pb2.BluetoothDeviceConnectionResponse:model.BluetoothDeviceConnection, api_pb2.BluetoothGATTErrorResponse:model.BluetoothGATTError, api_pb2.VoiceAssistantRequest: model.VoiceAssistantCommand, api_pb2.VoiceAssistantAudio: model.VoiceAssistantAudioData, api_pb2.CameraImageResponse: model.CameraState}
tbl.update(extra)
for pb,M in tbl.items():
    pf=set(f.name for f in pb.DESCRIPTOR.fields)
    mf=set(f.name for f in dataclasses.fields(M))
    if pf!=mf: print("FIELDS DIFF",pb.__name__,M.__name__,"pb-only",pf-mf,"model-only",mf-pf)

from z3 import *
import time
B = SeqSort(IntSort())
X,E,Y,view = Consts('X E Y view', B)
i = Int('i'); j0 = Int('j0')
qs = Length(X)+Length(E)-1
# hint lemma: nth over concat
s=Solver(); s.set('timeout',30000)
s.add(view == Concat(X,E,Y), Length(X) <= j0, j0 < Length(X)+Length(E))
s.add(Not(view[j0] == E[j0-Length(X)])); t=time.time(); print('nth-concat', s.check(), round(time.time()-t,2))
# T1b with manual instantiation, no quantifier
s=Solver(); s.set('timeout',30000)
s.add(view == Concat(X,E,Y), Length(E) >= 1)
inst = lambda k: Implies(And(0<=k, k<Length(E)-1), E[k] >= 128)
s.add(inst(j0-Length(X)))
s.add(Length(X) <= j0, j0 < qs, view[j0] < 128); t=time.time(); print('T1b-inst', s.check(), round(time.time()-t,2))
# T2 with manual instantiation
s=Solver(); s.set('timeout',30000)
c = Int('c')
s.add(Length(E) >= 1, 0 <= c, c < Length(E), view == Concat(X, SubSeq(E,0,c)))
s.add(inst(j0-Length(X)))
s.add(Length(X) <= j0, j0 < Length(view), view[j0] < 128); t=time.time(); print('T2-inst', s.check(), round(time.time()-t,2))

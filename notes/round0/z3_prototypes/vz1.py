# feasibility: _read_varuint loop invariant step with Seq(Int) + uninterpreted shl/bor
from z3 import *
import time
B = SeqSort(IntSort())
buf = Const('buf', B)
n = Int('n')  # buffer_len
p0, pos, result, bitpos = Ints('p0 pos result bitpos')
shl = Function('shl', IntSort(), IntSort(), IntSort())
bor = Function('bor', IntSort(), IntSort(), IntSort())
# spec: acc(buf,p0,pos) = fold ; defined recursively on pos
acc = Function('acc', B, IntSort(), IntSort(), IntSort())
def byte(i): return buf[i]
s = Solver()
s.set('timeout', 20000)
# wellformed buffer: bytes 0..255, n == Length(buf)
i = Int('i')
s.add(n == Length(buf), ForAll([i], Implies(And(0<=i, i<n), And(0<=buf[i], buf[i]<256))))
# invariant at loop head
inv = And(0<=p0, p0<=pos, pos<=n, bitpos == 7*(pos-p0), result == acc(buf,p0,pos))
s.add(inv)
# definitional unfolding of acc at pos+1 (instantiated axiom)
s.add(acc(buf,p0,p0) == 0)
s.add(acc(buf,p0,pos+1) == bor(acc(buf,p0,pos), shl(buf[pos] % 128, 7*(pos-p0))))
# loop body, guard n > pos
s.add(n > pos)
val = buf[pos]
pos2 = pos+1
result2 = bor(result, shl(val % 128, bitpos))
bitpos2 = bitpos+7
inv2 = And(0<=p0, p0<=pos2, pos2<=n, bitpos2 == 7*(pos2-p0), result2 == acc(buf,p0,pos2))
s.push(); s.add(Not(inv2)); t=time.time(); print('inv preserved:', s.check(), time.time()-t); s.pop()

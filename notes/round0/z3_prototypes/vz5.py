from z3 import *
import time
B = SeqSort(IntSort())
X,E,Y,view = Consts('X E Y view', B)
i = Int('i'); j0 = Int('j0')
def base(s):
    s.add(view == Concat(X,E,Y))
    s.add(Length(E) >= 1, E[Length(E)-1] < 128, ForAll([i], Implies(And(0<=i, i<Length(E)-1), E[i] >= 128)))
# T1a: terminator byte
s=Solver(); s.set('timeout',30000); base(s)
qs = Length(X)+Length(E)-1
s.add(Not(view[qs] < 128)); t=time.time(); print('T1a', s.check(), round(time.time()-t,2))
# T1b: no earlier terminator
s=Solver(); s.set('timeout',30000); base(s)
s.add(Length(X) <= j0, j0 < qs, view[j0] < 128); t=time.time(); print('T1b', s.check(), round(time.time()-t,2))
# T1c: the extracted varint bytes are E
s=Solver(); s.set('timeout',30000); base(s)
s.add(Not(SubSeq(view, Length(X), qs+1-Length(X)) == E)); t=time.time(); print('T1c', s.check(), round(time.time()-t,2))
# T2: strict prefix cut inside E: view = X ++ E[:c], c < |E| -> all bytes from |X| are >= 128
s=Solver(); s.set('timeout',30000)
c = Int('c')
s.add(Length(E) >= 1, E[Length(E)-1] < 128, ForAll([i], Implies(And(0<=i, i<Length(E)-1), E[i] >= 128)))
s.add(0 <= c, c < Length(E), view == Concat(X, SubSeq(E,0,c)))
s.add(Length(X) <= j0, j0 < Length(view), view[j0] < 128); t=time.time(); print('T2', s.check(), round(time.time()-t,2))

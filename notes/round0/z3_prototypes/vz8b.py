from z3 import *
import time
B = SeqSort(IntSort())
vscan = Function('vscan', B, IntSort())
vacc  = Function('vacc', B, IntSort(), IntSort())   # varint value of bytes s[0..k) (k bytes), structural on k via bor/shl
bor = Function('bor', IntSort(), IntSort(), IntSort()); shl = Function('shl', IntSort(), IntSort(), IntSort())
def tail(s): return SubSeq(s, 1, Length(s)-1)
def suffix(s,p): return SubSeq(s, p, Length(s)-p)
def unfold_vscan(s):
    return vscan(s) == If(Length(s) == 0, -1, If(s[0] < 128, 0, If(vscan(tail(s)) == -1, -1, 1 + vscan(tail(s)))))
view = Const('view', B); n,p0,pos,result,bitpos = Ints('n p0 pos result bitpos')
W = suffix(view,p0)           # the window being decoded
s=Solver(); s.set('timeout',30000)
s.add(n == Length(view), 0<=p0, p0<=pos, pos<=n)
k = pos-p0
# invariant: scan(W) expressed through scan of the unread part; accumulator equals vacc(W,k)
inv = lambda pos_,res_,bp_: And(p0<=pos_, pos_<=n, bp_ == 7*(pos_-p0), res_ == vacc(W, pos_-p0),
        vscan(W) == If(vscan(suffix(view,pos_)) == -1, -1, (pos_-p0) + vscan(suffix(view,pos_))))
s.add(inv(pos,result,bitpos))
s.add(n > pos)                                  # loop guard
cur = suffix(view,pos)
s.add(unfold_vscan(cur))                        # one unfolding at the unread part
s.add(tail(cur) == suffix(view,pos+1))          # structural hint (to be proved separately)
val = view[pos]
s.add(cur[0] == view[pos])
s.add(vacc(W, k+1) == bor(vacc(W,k), shl(W[k] % 128, 7*k)))   # definitional instance
s.add(W[k] == view[pos])                        # hint
res2 = bor(result, shl(val % 128, bitpos))
s.add(vscan(suffix(view,pos+1)) >= -1)  # range lemma instance
# case continue (val>=128): invariant preserved
s.push(); s.add(val >= 128); s.add(Not(inv(pos+1,res2,bitpos+7))); t=time.time(); print('continue', s.check(), round(time.time()-t,2)); s.pop()
# case return (val<128): post: vscan(W) == k and result == vacc(W,k+1)
s.push(); s.add(val < 128); s.add(Not(And(vscan(W) == k, res2 == vacc(W,k+1)))); t=time.time(); print('return', s.check(), round(time.time()-t,2)); s.pop()
# hints themselves
h=Solver(); h.set('timeout',30000); h.add(n==Length(view),0<=p0,p0<=pos,pos<n)
h.push(); h.add(Not(tail(suffix(view,pos)) == suffix(view,pos+1))); t=time.time(); print('hint tail', h.check(), round(time.time()-t,2)); h.pop()
h.push(); h.add(Not(suffix(view,p0)[pos-p0] == view[pos])); t=time.time(); print('hint nth', h.check(), round(time.time()-t,2)); h.pop()
h.push(); h.add(Not(suffix(view,pos)[0] == view[pos])); t=time.time(); print('hint head', h.check(), round(time.time()-t,2)); h.pop()

from z3 import *
import time
s_ = String('s')
# code: "." not in address and ":" not in address
code1 = And(Not(Contains(s_, StringVal("."))), Not(Contains(s_, StringVal(":"))))
# address.removesuffix(".").endswith(".local")
rs = If(SuffixOf(StringVal("."), s_), SubString(s_, 0, Length(s_)-1), s_)
code2 = SuffixOf(StringVal(".local"), rs)
spec2 = Or(SuffixOf(StringVal(".local"), s_), SuffixOf(StringVal(".local."), s_))
sol=Solver(); sol.set('timeout',20000); sol.add(code2 != spec2); t=time.time(); r=sol.check(); print('address_is_local vs spec', r, round(time.time()-t,2)); 
if r==sat: print(sol.model())
# lemma: IP literal with '.' is not name part
sol=Solver(); sol.add(Contains(s_, StringVal(".")), code1); print('lemma', sol.check())

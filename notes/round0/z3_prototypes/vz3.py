from z3 import *
import time
B = SeqSort(IntSort())
view, F, rest, chunk, old = Consts('view F rest chunk old', B)
hi, lo = Ints('hi lo')
s = Solver(); s.set('timeout', 30000)
n = Length(F)
s.add(0<=hi, hi<256, 0<=lo, lo<256, n == hi*256+lo)
hdr = Concat(Unit(IntVal(1)), Unit(hi), Unit(lo))
s.add(view == Concat(hdr, F, rest))
blen = Length(view)
# _read(3): pos=0 -> new_pos=3 ; requires blen >= 3
pos = 3
header = SubSeq(view, 0, 3)
pre = header[0]; h1 = header[1]; h2 = header[2]
size = h1*256 + h2   # (h1<<8)|h2 modelled
newpos = pos + size
frame = SubSeq(view, pos, newpos-pos)
view2 = SubSeq(view, newpos, blen-newpos)
goal = And(blen >= 3, pre == 1, size == n, blen >= newpos, frame == F, view2 == rest)
s.push(); s.add(Not(goal)); t=time.time(); print('noise frame vc', s.check(), round(time.time()-t,3)); s.pop()
# incomplete: view is strict prefix of hdr++F  => either blen<3 or blen < 3+size
s2 = Solver(); s2.set('timeout', 30000)
full = Concat(hdr, F)
s2.add(0<=hi, hi<256, 0<=lo, lo<256, n == hi*256+lo)
s2.add(PrefixOf(view, full), Length(view) < Length(full))
header = SubSeq(view, 0, 3)
size = header[1]*256 + header[2]
goal2 = Or(Length(view) < 3, Length(view) < 3 + size)
s2.add(Not(goal2)); t=time.time(); print('incomplete vc', s2.check(), round(time.time()-t,3))

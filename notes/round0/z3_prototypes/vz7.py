from z3 import *
import time
B = SeqSort(IntSort())
vscan = Function('vscan', B, IntSort())   # index of first byte <128, or -1
isenc = Function('isenc', B, BoolSort())
def tail(s): return SubSeq(s, 1, Length(s)-1)
def unfold_vscan(s):   # definitional instance
    return vscan(s) == If(Length(s) == 0, -1, If(s[0] < 128, 0, If(vscan(tail(s)) == -1, -1, 1 + vscan(tail(s)))))
def unfold_isenc(E):
    return isenc(E) == And(Length(E) >= 1, If(Length(E) == 1, E[0] < 128, And(E[0] >= 128, isenc(tail(E)))))
E,Y,Ep = Consts('E Y Ep', B)
# V1 step: assume isenc(E), |E|>1, IH for tail(E)
s=Solver(); s.set('timeout',30000)
s.add(isenc(E), unfold_isenc(E))
EY = Concat(E,Y)
s.add(unfold_vscan(EY))
# IH at E' = tail(E)
s.add(Implies(isenc(tail(E)), vscan(Concat(tail(E),Y)) == Length(tail(E))-1))
s.add(Not(vscan(EY) == Length(E)-1))
t=time.time(); print('V1 (base+step merged)', s.check(), round(time.time()-t,2))
# V2: strict prefix of enc has no terminator: isenc(E), 0<=c<|E| => vscan(E[:c]) == -1 ; induction on |E|
c=Int('c')
s=Solver(); s.set('timeout',30000)
s.add(isenc(E), unfold_isenc(E), 0<=c, c<Length(E))
Pc = SubSeq(E,0,c)
s.add(unfold_vscan(Pc))
# IH at tail(E), c-1
s.add(Implies(And(isenc(tail(E)), 0<=c-1, c-1<Length(tail(E))), vscan(SubSeq(tail(E),0,c-1)) == -1))
s.add(Not(vscan(Pc) == -1))
t=time.time(); print('V2', s.check(), round(time.time()-t,2))

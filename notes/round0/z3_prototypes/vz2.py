from z3 import *
import time
# step of: A + P*V == T  where V = m + 128*W ; A' = A + m*P ; P' = 128*P ; show A' + P'*W == T
A,P,V,W,m,T = Ints('A P V W m T')
s=Solver(); s.set('timeout',20000)
s.add(A + P*V == T, V == m + 128*W, 0<=m, m<128, P>0, W>=0, A>=0)
A2 = A + m*P; P2 = 128*P
s.add(Not(A2 + P2*W == T))
t=time.time(); print(s.check(), time.time()-t)
# bound: A < P  and m<128 => A2 < P2
s=Solver(); s.set('timeout',20000)
s.add(0<=A, A<P, 0<=m, m<128, P>0)
s.add(Not(A + m*P < 128*P))
t=time.time(); print(s.check(), time.time()-t)

"""F14: cancelling bluetooth_gatt_start_notify() while it waits for the device leaves its notify-data handler registered."""
import asyncio, sys, os
sys.path.insert(0, os.getcwd())
from unittest.mock import MagicMock
from aioesphomeapi import APIClient
from aioesphomeapi.api_pb2 import BluetoothGATTNotifyDataResponse
from aioesphomeapi.connection import APIConnection, ConnectionParams, ConnectionState
from aioesphomeapi.zeroconf import ZeroconfManager


async def main():
    cli = APIClient("1.2.3.4", 6053, None)
    params = ConnectionParams(addresses=["1.2.3.4"], port=6053, password=None, client_info="t", keepalive=15.0, zeroconf_manager=ZeroconfManager(), noise_psk=None, expected_name=None)
    conn = APIConnection(params, lambda e: None, False, None)
    conn._frame_helper = MagicMock()
    conn._set_connection_state(ConnectionState.SOCKET_OPENED) if hasattr(conn, "_set_connection_state") else None
    conn.connection_state = ConnectionState.CONNECTED
    conn.is_connected = True
    conn._handshake_complete = True
    cli._connection = conn
    got = []
    task = asyncio.ensure_future(cli.bluetooth_gatt_start_notify(1234, 7, lambda h, d: got.append((h, bytes(d)))))
    await asyncio.sleep(0)
    await asyncio.sleep(0)
    task.cancel()
    try:
        await task
    except asyncio.CancelledError:
        pass
    left = conn._message_handlers.get(BluetoothGATTNotifyDataResponse, set())
    print("handlers for BluetoothGATTNotifyDataResponse after the cancelled start_notify:", len(left))
    return 1 if left else 0

sys.exit(asyncio.run(main()))

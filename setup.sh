#!/bin/sh
# Builds the offline overlay interpreter /verif/.venv: Python 3.12 (from /venv) with
# z3-solver, cvc5, jsonschema from the wheelhouse, plus a .pth that makes the
# repository's own dependencies (protobuf, noiseprotocol, zeroconf, ...) importable.
set -e
cd "$(dirname "$0")"
if [ ! -x .venv/bin/python ] || ! .venv/bin/python -c "import z3, cvc5, jsonschema, google.protobuf, zeroconf" 2>/dev/null; then
  rm -rf .venv
  /venv/bin/python -m venv .venv
  PIP_NO_INDEX=1 .venv/bin/python -m pip install -q --no-index --find-links /opt/veriftools/wheels z3-solver cvc5 jsonschema >/dev/null
  SP=$(.venv/bin/python -c "import sysconfig; print(sysconfig.get_paths()['purelib'])")
  echo "import site; site.addsitedir('/venv/lib/python3.12/site-packages')" > "$SP/_repo_overlay.pth"
fi
.venv/bin/python -c "import z3, cvc5, jsonschema, google.protobuf, zeroconf; print('overlay venv ok: z3', z3.get_version_string())"
if [ -f pyvc/selftest.py ]; then .venv/bin/python -m pyvc.selftest --smoke; fi

"""Shared plumbing of the ground checks: source access and obligation building.

``Sources`` reads program / protocol text from the *current working tree* of
the repository on every construction (nothing is cached across calls), with an
optional in-memory override ``{"aioesphomeapi/core.py": "<text>"}`` used by the
negative self-tests.  Python text is handed out as ``ast`` trees; nothing from
/repo is ever imported in this process.
"""
from __future__ import annotations

import ast
import os
import time
from typing import Any

from pyvc.obl import Obligation

PKG = "aioesphomeapi"
API_PROTO = f"{PKG}/api.proto"
API_OPTIONS_PROTO = f"{PKG}/api_options.proto"
GENERATED = ("api_pb2.py", "api_options_pb2.py")     # never analysed as program text
_PARSE_CACHE: dict[tuple[str, str], ast.Module] = {}    # (path, full text) -> tree


class Sources:
    """Text of repository files, overridable per repo-relative path."""

    def __init__(self, repo: str | None = None, sources: dict[str, str] | None = None) -> None:
        self.repo = str(repo or os.environ.get("PYVC_REPO", "/repo"))
        self.override = dict(sources or {})
        self._trees: dict[str, ast.Module] = {}

    def exists(self, rel: str) -> bool:
        return rel in self.override or os.path.isfile(os.path.join(self.repo, rel))

    def text(self, rel: str) -> str:
        if rel in self.override:
            return self.override[rel]
        with open(os.path.join(self.repo, rel), encoding="utf-8") as fh:
            return fh.read()

    def tree(self, rel: str) -> ast.Module:
        """AST of the file's *current* text.

        The text is read afresh by every ``Sources`` object; only the parse is
        shared between objects, keyed by the full text, so an edited file can
        never be answered from the cache.  Trees are treated as read-only.
        """
        if rel not in self._trees:
            text = self.text(rel)
            key = (rel, text)
            tree = _PARSE_CACHE.get(key)
            if tree is None:
                tree = ast.parse(text, filename=rel)
                if len(_PARSE_CACHE) >= 256:
                    _PARSE_CACHE.clear()
                _PARSE_CACHE[key] = tree
            self._trees[rel] = tree
        return self._trees[rel]

    def package_modules(self) -> list[str]:
        """Sorted repo-relative paths of all hand-written modules of the package."""
        found: set[str] = set()
        root = os.path.join(self.repo, PKG)
        for dirpath, dirnames, filenames in os.walk(root):
            dirnames[:] = sorted(d for d in dirnames if d != "__pycache__")
            for fn in filenames:
                if fn.endswith(".py") and fn not in GENERATED:
                    found.add(os.path.relpath(os.path.join(dirpath, fn), self.repo))
        for rel in self.override:
            if rel.startswith(PKG + "/") and rel.endswith(".py") and os.path.basename(rel) not in GENERATED:
                found.add(rel)
        return sorted(found)


def modname(rel: str) -> str:
    """``aioesphomeapi/_frame_helper/noise.py`` -> ``_frame_helper.noise``."""
    inner = rel[len(PKG) + 1:] if rel.startswith(PKG + "/") else rel
    inner = inner[:-3] if inner.endswith(".py") else inner
    parts = [p for p in inner.split("/") if p]
    if parts and parts[-1] == "__init__":
        parts = parts[:-1]
    return ".".join(parts) or "__init__"


class Builder:
    """Collects obligations of one property; stamps evaluation time on each."""

    def __init__(self, prop: str) -> None:
        self.prop = prop
        self.out: list[Obligation] = []
        self._t = time.perf_counter()
        self._ids: set[str] = set()

    def add(self, id: str, goal: str, function: str, ok: bool | None, *,
            model: Any = None, witness: str = "", detail: str = "") -> Obligation:
        """``ok`` True -> discharged, False -> refuted, None -> unsupported."""
        now = time.perf_counter()
        status = "discharged" if ok is True else "refuted" if ok is False else "unsupported"
        full = f"{self.prop}/{id}"
        # ids must be unique; a clash would hide an obligation from a findings
        # table keyed by id, so make it loud instead of silently overwriting
        if full in self._ids:
            k = 2
            while f"{full}~{k}" in self._ids:
                k += 1
            full = f"{full}~{k}"
        self._ids.add(full)
        o = Obligation(
            id=full, property=self.prop, kind="property", status=status,
            backend="ground-eval", ms=round((now - self._t) * 1000.0, 3), goal=goal,
            function=function, model=model if status != "discharged" else None,
            witness=witness if status != "discharged" else "", detail=detail,
        )
        self._t = now
        self.out.append(o)
        return o


def snippet(node: ast.AST, limit: int = 120) -> str:
    """Short one-line rendering of an AST node for models / details."""
    try:
        s = " ".join(ast.unparse(node).split())
    except Exception:  # pragma: no cover - unparse is total on parsed trees
        s = type(node).__name__
    return s if len(s) <= limit else s[: limit - 3] + "..."

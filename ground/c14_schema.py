"""Ground obligations for the schema part of property C14.

    "Every enum the client exposes for a wire enum has exactly the wire enum's
    numeric values with matching names and no aliases, and every model class
    built from a wire message has exactly that message's field names."

Oracle: ``api.proto``.  The model side is read from the ``ast`` of
``model.py`` (class bodies as written, so two names with one value are seen as
two members), the pairing tables from the ``ast`` of ``model_conversions.py``.

Nothing here knows about *intended* deviations (models that omit deprecated
wire fields, computed fields, public names that differ from the wire name):
each mismatch is reported as ``refuted`` with a precise witness and is triaged
outside (known-findings file).

Obligation ids
    C14/model.<Enum>/paired
    C14/api.proto/enum=<E>/paired
    C14/model.<Enum>/wire-value=<v>/exactly-one-member
    C14/model.<Enum>/member=<N>/value-is-wire-value | no-alias | name-matches-wire
    C14/model.<K>/accounted-for
    C14/model.<K>/from=<M>/pairing-visible@<module>.<function>
    C14/model.<K>/from=<M>/pair-resolved
    C14/model.<K>/from=<M>/model-field=<f>/in-message
    C14/model.<K>/from=<M>/message-field=<f>/in-model
    C14/<module>.<function>/from_pb-use=<K>/paired
"""
from __future__ import annotations

import ast
from dataclasses import dataclass, field
from typing import Any

from pyvc.obl import Obligation

from .common import API_PROTO, PKG, Builder, Sources, modname, snippet
from .protoparse import ProtoEnum, ProtoFile, parse_proto

PROP = "C14"
MODEL = f"{PKG}/model.py"
CONVERSIONS = f"{PKG}/model_conversions.py"
ENUM_BASE = "APIIntEnum"
MODEL_BASE = "APIModelBase"

# ----------------------------------------------------------------------------
# enum pairing
# ----------------------------------------------------------------------------
# model enum -> wire enum, for the names that differ (same names pair mechanically)
ENUM_PAIRING: dict[str, str] = {
    "LastResetType": "SensorLastResetType",
    "UserServiceArgType": "ServiceArgType",
    "AlarmControlPanelCommand": "AlarmControlPanelStateCommand",
    "VoiceAssistantEventType": "VoiceAssistantEvent",
    "VoiceAssistantTimerEventType": "VoiceAssistantTimerEvent",
}
# model APIIntEnum subclasses that stand for no wire enum (name -> reason)
MODEL_ENUMS_WITHOUT_WIRE: dict[str, str] = {}
# wire enums the client has no APIIntEnum for (name -> reason)
WIRE_ENUMS_WITHOUT_MODEL: dict[str, str] = {
    "VoiceAssistantSubscribeFlag":
        "no field of any message has this type (SubscribeVoiceAssistantRequest.flags is uint32); "
        "the client models the bit mask as the IntFlag VoiceAssistantSubscriptionFlag, "
        "which is not an APIIntEnum",
}

# ----------------------------------------------------------------------------
# message pairing (in addition to the tables of model_conversions.py and to the
# nested pairs derived from converters, see _derived_pairs)
# ----------------------------------------------------------------------------
# (wire message, model class, module, function in which `<model>.from_pb(<that message>)` is visible)
FROM_PB_PAIRS: list[tuple[str, str, str, str]] = [
    ("DeviceInfoResponse", "DeviceInfo", "client", "APIClient.device_info"),
    ("ListEntitiesServicesResponse", "UserService", "client", "APIClient.list_entities_services"),
    ("BluetoothGATTErrorResponse", "BluetoothGATTError", "client",
     "APIClient._send_bluetooth_message_await_response"),
    ("BluetoothGATTErrorResponse", "BluetoothGATTError", "client", "APIClient.bluetooth_gatt_get_services"),
    ("BluetoothGATTGetServicesResponse", "BluetoothGATTServices", "client",
     "APIClient.bluetooth_gatt_get_services"),
    ("BluetoothDevicePairingResponse", "BluetoothDevicePairing", "client", "APIClient.bluetooth_device_pair"),
    ("BluetoothDeviceUnpairingResponse", "BluetoothDeviceUnpairing", "client",
     "APIClient.bluetooth_device_unpair"),
    ("BluetoothDeviceClearCacheResponse", "BluetoothDeviceClearCache", "client",
     "APIClient.bluetooth_device_clear_cache"),
    ("VoiceAssistantRequest", "VoiceAssistantCommand", "client",
     "APIClient.subscribe_voice_assistant._on_voice_assistant_request"),
    ("VoiceAssistantAudio", "VoiceAssistantAudioData", "client",
     "APIClient.subscribe_voice_assistant._on_voice_assistant_audio"),
    ("VoiceAssistantAnnounceFinished", "VoiceAssistantAnnounceFinished", "client",
     "APIClient.subscribe_voice_assistant._on_voice_assistant_announcement_finished"),
    ("VoiceAssistantAnnounceFinished", "VoiceAssistantAnnounceFinished", "client",
     "APIClient.send_voice_assistant_announcement_await_response"),
    ("VoiceAssistantConfigurationResponse", "VoiceAssistantConfigurationResponse", "client",
     "APIClient.get_voice_assistant_configuration"),
    ("HomeassistantServiceResponse", "HomeassistantServiceCall", "client_callbacks",
     "on_home_assistant_service_response"),
    ("BluetoothLEAdvertisementResponse", "BluetoothLEAdvertisement", "client_callbacks",
     "on_bluetooth_le_advertising_response"),
]
# Public model classes that mirror a message but are not built with from_pb
# anywhere inside the package (library users and the repo's tests do build
# them from the message).  Checked like any other pair.
NOMINAL_PAIRS: list[tuple[str, str, str]] = [
    ("BluetoothDeviceConnectionResponse", "BluetoothDeviceConnection",
     "exported model of the message; on_bluetooth_device_connection_response reads the message directly"),
    ("BluetoothGATTReadResponse", "BluetoothGATTRead",
     "exported model of the message; _bluetooth_gatt_read reads resp.data directly"),
    ("BluetoothConnectionsFreeResponse", "BluetoothConnectionsFree",
     "exported model of the message; on_bluetooth_connections_free_response reads the message directly"),
    ("VoiceAssistantConfigurationRequest", "VoiceAssistantConfigurationRequest",
     "exported model of the (empty) request message"),
    ("VoiceAssistantSetConfiguration", "VoiceAssistantSetConfiguration",
     "exported model of the request message"),
]
# APIModelBase subclasses that are not built from one wire message (name -> reason)
MODELS_NOT_FROM_WIRE: dict[str, str] = {
    "APIVersion": "built by keyword from two HelloResponse fields in connection._process_hello_resp",
    "EntityInfo": "abstract base of the ListEntities*Response models",
    "EntityState": "abstract base of the *StateResponse models",
    "CameraState": "assembled from a stream of CameraImageResponse chunks in client_callbacks.on_state_msg",
}


# ============================================================================
# reading model.py
# ============================================================================
@dataclass
class ModelClass:
    name: str
    node: ast.ClassDef
    bases: list[str]
    is_dataclass: bool
    own_fields: list[tuple[str, ast.AnnAssign]] = field(default_factory=list)


def _const_int(e: ast.AST) -> int | None:
    """Value of a constant integer expression as written in an enum body (``3``, ``-1``, ``1 << 2``)."""
    if isinstance(e, ast.Constant) and type(e.value) is int:
        return e.value
    if isinstance(e, ast.UnaryOp) and isinstance(e.op, (ast.USub, ast.UAdd, ast.Invert)):
        v = _const_int(e.operand)
        if v is None:
            return None
        return -v if isinstance(e.op, ast.USub) else (~v if isinstance(e.op, ast.Invert) else v)
    if isinstance(e, ast.BinOp):
        l, r = _const_int(e.left), _const_int(e.right)
        if l is None or r is None:
            return None
        ops = {ast.LShift: lambda a, b: a << b if 0 <= b < 64 else None, ast.BitOr: lambda a, b: a | b,
               ast.Add: lambda a, b: a + b, ast.Sub: lambda a, b: a - b, ast.Mult: lambda a, b: a * b,
               ast.BitAnd: lambda a, b: a & b}
        fn = ops.get(type(e.op))
        return fn(l, r) if fn else None
    return None


def _base_names(node: ast.ClassDef) -> list[str]:
    return [snippet(b).split(".")[-1] for b in node.bases]


def _derives(name: str, root: str, classes: dict[str, ast.ClassDef], seen: frozenset = frozenset()) -> bool:
    if name == root:
        return True
    node = classes.get(name)
    if node is None or name in seen:
        return False
    return any(_derives(bn, root, classes, seen | {name}) for bn in _base_names(node))


def _is_dataclass_decorated(node: ast.ClassDef) -> bool:
    return any("dataclass" in snippet(d) for d in node.decorator_list)


def _read_model(tree: ast.Module) -> tuple[dict[str, ast.ClassDef], dict[str, ModelClass]]:
    classes = {n.name: n for n in tree.body if isinstance(n, ast.ClassDef)}
    # classes defined under ``if`` at module level are rare but legal
    for st in tree.body:
        if isinstance(st, (ast.If, ast.Try)):
            for n in ast.walk(st):
                if isinstance(n, ast.ClassDef):
                    classes.setdefault(n.name, n)
    models: dict[str, ModelClass] = {}
    for name, node in classes.items():
        mc = ModelClass(name, node, _base_names(node), _is_dataclass_decorated(node))
        for st in node.body:
            if isinstance(st, ast.AnnAssign) and isinstance(st.target, ast.Name):
                ann = snippet(st.annotation, 200).strip("'\"")
                if ann.split("[")[0].split(".")[-1] in ("ClassVar", "InitVar", "KW_ONLY"):
                    continue
                mc.own_fields.append((st.target.id, st))
        models[name] = mc
    return classes, models


def _enum_members(node: ast.ClassDef) -> tuple[list[tuple[str, int]], list[str]]:
    """Members as written (name, value) in order, and the names whose value is not a constant int."""
    members: list[tuple[str, int]] = []
    opaque: list[str] = []
    for st in node.body:
        targets: list[ast.AST] = []
        value = None
        if isinstance(st, ast.Assign):
            targets, value = st.targets, st.value
        elif isinstance(st, ast.AnnAssign) and st.value is not None:
            targets, value = [st.target], st.value
        for t in targets:
            if isinstance(t, ast.Name) and not (t.id.startswith("_") and t.id.endswith("_")) \
                    and not t.id.startswith("__"):
                v = _const_int(value)
                if v is None:
                    opaque.append(t.id)
                else:
                    members.append((t.id, v))
    return members, opaque


def _dataclass_fields(name: str, models: dict[str, ModelClass],
                      seen: frozenset = frozenset()) -> tuple[list[str], list[str]]:
    """Dataclass field names of ``name`` in dataclass order, and unresolved base names."""
    mc = models.get(name)
    if mc is None:
        return [], [name]
    names: list[str] = []
    unresolved: list[str] = []
    for bn in reversed(mc.bases):          # dataclass collects in reverse MRO; single inheritance here
        if bn in ("object", "Generic", "Protocol"):
            continue
        if bn in seen:
            continue
        fs, un = _dataclass_fields(bn, models, seen | {name})
        unresolved += un
        for f in fs:
            if f not in names:
                names.append(f)
    if mc.is_dataclass:
        for f, _ in mc.own_fields:
            if f not in names:
                names.append(f)
    return names, unresolved


# ============================================================================
# (a) enums
# ============================================================================
def _common_prefix(names: list[str]) -> str:
    """Longest common prefix of the names that ends with ``_``."""
    if not names:
        return ""
    p = names[0]
    for n in names[1:]:
        while not n.startswith(p):
            p = p[:-1]
    cut = p.rfind("_")
    # a single-valued enum has its whole name as the common prefix; keep the last word
    if len(names) == 1 or p in names:
        cut = p[:-1].rfind("_") if p.endswith("_") else p.rfind("_")
    return p[: cut + 1] if cut >= 0 else ""


def _name_matches(wire: str, model: str, prefix: str) -> bool:
    return wire == model or wire.endswith("_" + model) or \
        (bool(prefix) and wire.startswith(prefix) and wire[len(prefix):] == model)


def _enum_obligations(b: Builder, proto: ProtoFile, classes: dict[str, ast.ClassDef]) -> None:
    model_enums = sorted(n for n in classes if n != ENUM_BASE and _derives(n, ENUM_BASE, classes))
    wire = {e.name: e for e in proto.top_enums}
    pair_of: dict[str, str] = {}
    for k in model_enums:
        if k in ENUM_PAIRING:
            pair_of[k] = ENUM_PAIRING[k]
        elif k in wire:
            pair_of[k] = k
    paired_wire = set(pair_of.values())

    for k in model_enums:
        fn = f"{PKG}.model.{k}"
        if k in pair_of and pair_of[k] in wire:
            b.add(f"model.{k}/paired", f"model enum {k} is paired with wire enum {pair_of[k]}", fn, True)
        elif k in pair_of:
            b.add(f"model.{k}/paired", f"model enum {k} is paired with wire enum {pair_of[k]}", fn, None,
                  witness=f"{k}:pair-missing={pair_of[k]}",
                  detail=f"ENUM_PAIRING names wire enum {pair_of[k]}, which api.proto does not declare")
        elif k in MODEL_ENUMS_WITHOUT_WIRE:
            b.add(f"model.{k}/paired", f"model enum {k} has no wire counterpart (listed)", fn, True,
                  detail=MODEL_ENUMS_WITHOUT_WIRE[k])
        else:
            b.add(f"model.{k}/paired", f"model enum {k} is paired with a wire enum or listed as model-only",
                  fn, None, witness=f"{k}:unpaired",
                  detail="APIIntEnum subclass with no same-named wire enum, no ENUM_PAIRING entry and "
                         "no MODEL_ENUMS_WITHOUT_WIRE entry")
    for e in sorted(wire):
        fn = f"api.proto:{e}"
        if e in paired_wire:
            b.add(f"api.proto/enum={e}/paired", f"wire enum {e} has a model enum", fn, True)
        elif e in WIRE_ENUMS_WITHOUT_MODEL:
            b.add(f"api.proto/enum={e}/paired", f"wire enum {e} has no model enum (listed)", fn, True,
                  detail=WIRE_ENUMS_WITHOUT_MODEL[e])
        else:
            b.add(f"api.proto/enum={e}/paired", f"wire enum {e} is paired with a model enum or listed as wire-only",
                  fn, None, witness=f"{e}:unpaired",
                  detail="wire enum with no same-named APIIntEnum, no ENUM_PAIRING entry and no "
                         "WIRE_ENUMS_WITHOUT_MODEL entry")
    # stale entries of the hand-written lists must not linger unnoticed
    for k, w in sorted(ENUM_PAIRING.items()):
        if k not in model_enums:
            b.add(f"pairing/{k}/entry-current", f"ENUM_PAIRING entry {k}->{w} refers to an existing APIIntEnum",
                  f"{PKG}.model.{k}", None, witness=f"{k}:stale-pairing", detail="model enum not found")
    for k in sorted(MODEL_ENUMS_WITHOUT_WIRE):
        if k not in model_enums:
            b.add(f"pairing/{k}/entry-current", f"MODEL_ENUMS_WITHOUT_WIRE entry {k} refers to an existing APIIntEnum",
                  f"{PKG}.model.{k}", None, witness=f"{k}:stale-exception", detail="model enum not found")
    for e in sorted(WIRE_ENUMS_WITHOUT_MODEL):
        if e not in wire:
            b.add(f"pairing/{e}/entry-current", f"WIRE_ENUMS_WITHOUT_MODEL entry {e} refers to an existing wire enum",
                  f"api.proto:{e}", None, witness=f"{e}:stale-exception", detail="wire enum not found")

    for k in model_enums:
        if k in pair_of and pair_of[k] in wire:
            _enum_pair(b, k, classes[k], wire[pair_of[k]])


def _enum_pair(b: Builder, k: str, node: ast.ClassDef, e: ProtoEnum) -> None:
    fn = f"{PKG}.model.{k}"
    members, opaque = _enum_members(node)
    for name in opaque:
        b.add(f"model.{k}/member={name}/value-is-wire-value",
              f"{k}.{name} has a constant integer value", fn, None, witness=f"{k}.{name}:non-constant",
              detail="member value is not an integer constant expression; not compared")
    wire_numbers = e.numbers()
    prefix = _common_prefix([n for n, _ in e.values])
    by_value: dict[int, list[str]] = {}
    for n, v in members:
        by_value.setdefault(v, []).append(n)
    name_count: dict[str, int] = {}
    for n, _ in members:
        name_count[n] = name_count.get(n, 0) + 1

    # (i) per wire value: exactly one member
    for v in wire_numbers:
        have = by_value.get(v, [])
        wnames = e.names_for(v)
        if not have:
            model: Any = {"missing_value": v, "wire_name": "/".join(wnames), "wire_enum": e.name}
            wit = f"{k}:missing={v}"
        else:
            model = {"value": v, "members": have, "wire_name": "/".join(wnames), "wire_enum": e.name}
            wit = f"{k}:alias={'/'.join(have)}={v}"
        b.add(f"model.{k}/wire-value={v}/exactly-one-member",
              f"{k} has exactly one member with value {v} ({e.name}.{'/'.join(wnames)})", fn,
              len(have) == 1, model=model, witness=wit)
    # (ii)-(iv) per member
    for n, v in members:
        where = f"model.{k}/member={n}"
        if name_count[n] > 1:
            where += f"@{v}"            # a name written twice: keep the ids apart
        b.add(f"{where}/value-is-wire-value", f"{k}.{n} = {v} is a number of wire enum {e.name}", fn,
              v in wire_numbers, model={"member": n, "value": v, "wire_enum": e.name,
                                        "wire_values": [list(x) for x in e.values]},
              witness=f"{k}.{n}={v}:not-in-{e.name}")
        same = by_value[v]
        b.add(f"{where}/no-alias", f"no other member of {k} has the value {v} of {n}", fn,
              len(same) == 1 and name_count[n] == 1,
              model={"value": v, "members": same}, witness=f"{k}:alias={'/'.join(same)}={v}")
        if v in wire_numbers:
            wnames = e.names_for(v)
            ok = any(_name_matches(w, n, prefix) for w in wnames)
            b.add(f"{where}/name-matches-wire",
                  f"{k}.{n} is named like {e.name} value {v} ({'/'.join(wnames)})", fn, ok,
                  model={"member": n, "value": v, "wire_name": "/".join(wnames), "stripped_prefix": prefix},
                  witness=f"{k}.{n}!={'/'.join(wnames)}")


# ============================================================================
# (b) model classes
# ============================================================================
def _import_aliases(tree: ast.Module, from_modules: tuple[str, ...]) -> dict[str, str]:
    """local name -> original name for ``from <one of from_modules> import a as b``."""
    out: dict[str, str] = {}
    for node in ast.walk(tree):
        if isinstance(node, ast.ImportFrom):
            src = "." * node.level + (node.module or "")
            if src in from_modules:
                for a in node.names:
                    out[a.asname or a.name] = a.name
    return out


_PB2 = (".api_pb2", f"{PKG}.api_pb2")
_MODEL = (".model", f"{PKG}.model")


def _conversion_tables(b: Builder, srcs: Sources) -> list[tuple[str, str, str]]:
    """(wire message, model class, table name) from every dict literal of model_conversions.py
    whose keys are api_pb2 names."""
    try:
        tree = srcs.tree(CONVERSIONS)
    except (OSError, SyntaxError) as e:
        b.add("model_conversions/readable", f"{CONVERSIONS} can be parsed", f"{PKG}.model_conversions", None,
              witness="model_conversions:unreadable", detail=f"{type(e).__name__}: {e}")
        return []
    pb, mdl = _import_aliases(tree, _PB2), _import_aliases(tree, _MODEL)
    pairs: list[tuple[str, str, str]] = []
    tables = 0
    for st in tree.body:
        name, value = None, None
        if isinstance(st, ast.Assign) and len(st.targets) == 1 and isinstance(st.targets[0], ast.Name):
            name, value = st.targets[0].id, st.value
        elif isinstance(st, ast.AnnAssign) and isinstance(st.target, ast.Name):
            name, value = st.target.id, st.value
        if name is None or not isinstance(value, ast.Dict):
            continue
        keys = [k for k in value.keys]
        if not keys or not all(isinstance(k, ast.Name) and k.id in pb for k in keys if k is not None):
            continue
        tables += 1
        fn = f"{PKG}.model_conversions.{name}"
        seen: dict[str, int] = {}
        for k, v in zip(value.keys, value.values):
            if k is None:
                b.add(f"model_conversions.{name}/spread", f"{name} is a plain literal", fn, None,
                      witness=f"{name}:spread", detail="`**mapping` inside the table is not evaluated")
                continue
            wire_name = pb[k.id]
            seen[wire_name] = seen.get(wire_name, 0) + 1
            if isinstance(v, ast.Constant) and v.value is None:
                continue                         # e.g. ListEntitiesServicesResponse: None (handled by the client)
            if isinstance(v, ast.Name) and v.id in mdl:
                pairs.append((wire_name, mdl[v.id], name))
            else:
                b.add(f"model_conversions.{name}/key={wire_name}/value-is-model-class",
                      f"{name}[{wire_name}] is a class imported from .model", fn, None,
                      model={"value": snippet(v, 80)}, witness=f"{name}[{wire_name}]={snippet(v, 40)}",
                      detail="table value is not a name imported from .model; pair not checked")
        for wname, c in sorted(seen.items()):
            if c > 1:
                b.add(f"model_conversions.{name}/key={wname}/written-once",
                      f"{wname} is a key of {name} once", fn, False, model={"times": c},
                      witness=f"{name}[{wname}]:duplicate")
    b.add("model_conversions/tables-found", "model_conversions.py contains message->model dict literals",
          f"{PKG}.model_conversions", True if tables else None, witness="model_conversions:no-tables",
          detail="" if tables else "no dict literal keyed by api_pb2 classes found")
    return pairs


def _converter_class(st: ast.AnnAssign) -> str | None:
    """``X`` for a field declared with ``converter=X.convert_list`` / ``X.from_pb``."""
    v = st.value
    if not isinstance(v, ast.Call):
        return None
    for kw in v.keywords:
        if kw.arg == "converter" and isinstance(kw.value, ast.Attribute) \
                and kw.value.attr in ("convert_list", "from_pb") and isinstance(kw.value.value, ast.Name):
            return kw.value.value.id
    return None


def _functions(tree: ast.Module) -> dict[str, ast.AST]:
    """qualname (without ``<locals>``) -> function node, for every function in the module."""
    out: dict[str, ast.AST] = {}

    def visit(body: list[ast.stmt], prefix: str) -> None:
        for st in body:
            if isinstance(st, (ast.FunctionDef, ast.AsyncFunctionDef)):
                out[prefix + st.name] = st
                visit(st.body, prefix + st.name + ".")
            elif isinstance(st, ast.ClassDef):
                visit(st.body, prefix + st.name + ".")
            else:
                for fld in ("body", "orelse", "finalbody"):
                    sub = getattr(st, fld, None)
                    if isinstance(sub, list):
                        visit([x for x in sub if isinstance(x, ast.stmt)], prefix)
                for h in getattr(st, "handlers", []) or []:
                    visit(h.body, prefix)
    visit(tree.body, "")
    return out


def _own_nodes(fn: ast.AST):
    """Nodes of a function body, not descending into nested function definitions."""
    stack = list(ast.iter_child_nodes(fn))
    while stack:
        n = stack.pop()
        yield n
        if not isinstance(n, (ast.FunctionDef, ast.AsyncFunctionDef)):
            stack.extend(ast.iter_child_nodes(n))


def _from_pb_uses(srcs: Sources, rel: str, model_classes: set[str]) -> list[tuple[str, str, str | None, str]]:
    """Every ``<recv>.from_pb`` reference: (module, function qualname, model class or None, receiver text).

    The receiver is resolved through ``from .model import X as Y`` aliases, the
    module's own classes (model.py) and ``cls`` inside a classmethod.
    """
    tree = srcs.tree(rel)
    mod = modname(rel)
    aliases = _import_aliases(tree, _MODEL)
    own = {n.name for n in ast.walk(tree) if isinstance(n, ast.ClassDef)} if rel == MODEL else set()
    uses: list[tuple[str, str, str | None, str]] = []
    funcs = _functions(tree)
    scopes: list[tuple[str, ast.AST]] = sorted(funcs.items())
    for qual, fn in scopes:
        for n in _own_nodes(fn):
            if isinstance(n, ast.Attribute) and n.attr == "from_pb" and isinstance(n.ctx, ast.Load):
                recv = snippet(n.value, 60)
                cls: str | None = None
                if isinstance(n.value, ast.Name):
                    r = n.value.id
                    first = fn.args.args[0].arg if fn.args.args else None
                    if r in aliases and aliases[r] in model_classes:
                        cls = aliases[r]
                    elif r in own and r in model_classes:
                        cls = r
                    elif r == first and r == "cls" and "." in qual and qual.rsplit(".", 1)[0] in model_classes:
                        cls = qual.rsplit(".", 1)[0]
                uses.append((mod, qual, cls, recv))
    # class-level uses (``converter=X.from_pb`` in a field declaration)
    if rel == MODEL:
        for node in tree.body:
            if isinstance(node, ast.ClassDef):
                for st in node.body:
                    if isinstance(st, (ast.FunctionDef, ast.AsyncFunctionDef)):
                        continue
                    for n in ast.walk(st):
                        if isinstance(n, ast.Attribute) and n.attr == "from_pb" and isinstance(n.value, ast.Name):
                            r = n.value.id
                            uses.append((mod, f"{node.name}.<fields>", r if r in model_classes else None, r))
    return uses


def _message_obligations(b: Builder, proto: ProtoFile, srcs: Sources,
                         classes: dict[str, ast.ClassDef], models: dict[str, ModelClass]) -> None:
    model_classes = {n for n in classes if n != MODEL_BASE and _derives(n, MODEL_BASE, classes)}
    # BluetoothLEAdvertisement is a plain dataclass with its own from_pb
    has_own_from_pb = {n for n, node in classes.items()
                       if any(isinstance(st, (ast.FunctionDef, ast.AsyncFunctionDef)) and st.name == "from_pb"
                              for st in node.body)}
    buildable = model_classes | (has_own_from_pb - {MODEL_BASE})

    # -- collect pairs with their evidence -----------------------------------
    pairs: dict[tuple[str, str], list[str]] = {}
    for m, k, table in _conversion_tables(b, srcs):
        pairs.setdefault((m, k), []).append(f"model_conversions.{table}")

    uses: list[tuple[str, str, str | None, str]] = []
    for rel in (f"{PKG}/client.py", f"{PKG}/client_callbacks.py", MODEL):
        try:
            uses += _from_pb_uses(srcs, rel, buildable)
        except (OSError, SyntaxError) as e:
            b.add(f"{modname(rel)}/readable", f"{rel} can be parsed", rel, None,
                  witness=f"{rel}:unreadable", detail=f"{type(e).__name__}: {e}")
    static_uses = {(mod, qual, cls) for mod, qual, cls, _ in uses if cls is not None}

    for m, k, mod, qual in FROM_PB_PAIRS:
        visible = (mod, qual, k) in static_uses
        b.add(f"model.{k}/from={m}/pairing-visible@{mod}.{qual}",
              f"{mod}.{qual} still contains `{k}.from_pb(...)` (evidence for the pair {m} -> {k})",
              f"{PKG}.{mod}.{qual}", True if visible else None,
              witness=f"{k}<-{m}:evidence-gone@{mod}.{qual}",
              detail="" if visible else "the listed function no longer uses this model's from_pb; "
                                        "re-read the code and update FROM_PB_PAIRS")
        pairs.setdefault((m, k), []).append(f"{mod}.{qual}")
    for m, k, why in NOMINAL_PAIRS:
        pairs.setdefault((m, k), []).append(f"nominal: {why}")

    # nested pairs: a field of a paired model with converter X.convert_list / X.from_pb
    # pairs X with the wire type of the same-named message field
    work = sorted(pairs)
    while work:
        m, k = work.pop(0)
        msg, mc = proto.message(m), models.get(k)
        if msg is None or mc is None:
            continue
        chain = [k]
        while chain[-1] in models and models[chain[-1]].bases:
            nxt = [bn for bn in models[chain[-1]].bases if bn in models]
            if not nxt or nxt[0] in chain:
                break
            chain.append(nxt[0])
        for cname in chain:
            for fname, st in models[cname].own_fields:
                x = _converter_class(st)
                wf = msg.field_by_name(fname)
                if x is None or x not in buildable or wf is None:
                    continue
                t = wf.type.lstrip(".")
                if proto.message(t) is None:
                    continue             # enum-typed or scalar field: X is an enum converter
                if (t, x) not in pairs:
                    work.append((t, x))
                ev = f"model.{cname}.{fname} converter"
                if ev not in pairs.setdefault((t, x), []):
                    pairs[(t, x)].append(ev)

    # -- every from_pb use is covered by a pair -------------------------------
    paired_models = {k for _, k in pairs}
    table_names = {ev.split(".", 1)[1] for evs in pairs.values() for ev in evs if ev.startswith("model_conversions.")}
    listed_sites = {(mod, qual, k) for _, k, mod, qual in FROM_PB_PAIRS}
    seen_use_ids: set[str] = set()
    for mod, qual, cls, recv in sorted(uses, key=lambda u: (u[0], u[1], u[2] or "", u[3])):
        uid = f"{mod}.{qual}/from_pb-use={cls or recv}/paired"
        if uid in seen_use_ids:
            continue
        seen_use_ids.add(uid)
        fn = f"{PKG}.{mod}.{qual}"
        if cls is not None:
            if mod == "model":
                ok = cls in paired_models         # nested conversion inside model.py: pair derived or listed
                why = "model class converts nested messages with from_pb but is paired with no wire message"
            else:
                ok = (mod, qual, cls) in listed_sites
                why = "from_pb call site is not in FROM_PB_PAIRS; read the code and add the pair"
            b.add(uid, f"`{recv}.from_pb` in {mod}.{qual} is covered by a (message, model) pair", fn,
                  True if ok else None, witness=f"{mod}.{qual}:{cls}.from_pb:unpaired", detail="" if ok else why)
        else:
            # dynamic receiver (``cls := TABLE[type(msg)]``): fine iff the function reads a pairing table
            try:
                fnode = _functions(srcs.tree(f"{PKG}/{mod}.py")).get(qual)
            except (OSError, SyntaxError):
                fnode = None
            names = {n.id for n in ast.walk(fnode) if isinstance(n, ast.Name)} if fnode is not None else set()
            ok = bool(names & table_names)
            b.add(uid, f"`{recv}.from_pb` in {mod}.{qual} takes its class from a model_conversions table", fn,
                  True if ok else None, witness=f"{mod}.{qual}:{recv}.from_pb:dynamic",
                  detail="" if ok else "receiver of from_pb is not a statically known model class and the "
                                       "function reads no pairing table")

    # -- every model class is accounted for -----------------------------------
    for k in sorted(model_classes | set(MODELS_NOT_FROM_WIRE)):
        fn = f"{PKG}.model.{k}"
        if k not in classes:
            b.add(f"model.{k}/accounted-for", f"MODELS_NOT_FROM_WIRE entry {k} refers to an existing class", fn, None,
                  witness=f"{k}:stale-exception", detail="class not found in model.py")
        elif k in paired_models:
            b.add(f"model.{k}/accounted-for", f"model class {k} is paired with a wire message", fn, True)
        elif k in MODELS_NOT_FROM_WIRE:
            b.add(f"model.{k}/accounted-for", f"model class {k} is not built from one wire message (listed)", fn,
                  True, detail=MODELS_NOT_FROM_WIRE[k])
        else:
            b.add(f"model.{k}/accounted-for",
                  f"model class {k} is paired with a wire message or listed in MODELS_NOT_FROM_WIRE", fn, None,
                  witness=f"{k}:unpaired", detail="APIModelBase subclass with no pairing evidence and no exception entry")

    # -- field names -----------------------------------------------------------
    for (m, k) in sorted(pairs, key=lambda p: (p[1], p[0])):
        fn = f"{PKG}.model.{k}"
        evidence = "; ".join(pairs[(m, k)])
        msg = proto.message(m)
        if msg is None:
            b.add(f"model.{k}/from={m}/message-declared", f"message {m} (paired with {k}) is declared in api.proto",
                  fn, False, model={"message": m, "model": k, "evidence": evidence}, witness=f"{m}:not-in-proto")
            continue
        if k not in models:
            b.add(f"model.{k}/from={m}/model-declared", f"class {k} (paired with {m}) is defined in model.py",
                  fn, None, model={"message": m, "model": k, "evidence": evidence},
                  witness=f"{k}:not-in-model", detail="class not found in model.py")
            continue
        mfields, unresolved = _dataclass_fields(k, models)
        if unresolved:
            b.add(f"model.{k}/from={m}/bases-resolved", f"all dataclass bases of {k} are defined in model.py",
                  fn, None, model={"unresolved_bases": unresolved}, witness=f"{k}:bases={'/'.join(unresolved)}",
                  detail="inherited fields of these bases are unknown")
        wfields = msg.field_names()
        # one obligation per pair even when both sides have no fields at all
        b.add(f"model.{k}/from={m}/pair-resolved",
              f"message {m} and model class {k} are both found; {len(mfields)} model / {len(wfields)} message fields compared",
              fn, True, detail=f"pairing evidence: {evidence}")
        for f in mfields:
            b.add(f"model.{k}/from={m}/model-field={f}/in-message",
                  f"model field {k}.{f} exists in message {m}", fn, f in wfields,
                  model={"model": k, "field": f, "message": m, "message_fields": wfields, "pairing": evidence},
                  witness=f"{k}.{f}!~{m}")
        for f in wfields:
            wf = msg.field_by_name(f)
            b.add(f"model.{k}/from={m}/message-field={f}/in-model",
                  f"message field {m}.{f} exists in model {k}", fn, f in mfields,
                  model={"message": m, "field": f, "number": wf.number if wf else None,
                         "deprecated": bool(wf and wf.deprecated), "model": k, "model_fields": mfields,
                         "pairing": evidence},
                  witness=f"{m}.{f}!~{k}")


# ============================================================================
def obligations(repo: str | None = None, sources: dict[str, str] | None = None) -> list[Obligation]:
    """All ground obligations of the schema part of C14 for the working tree of ``repo``."""
    srcs = Sources(repo, sources)
    b = Builder(PROP)
    try:
        proto = parse_proto(srcs.text(API_PROTO))
    except (OSError, ValueError) as e:
        b.add("api.proto/parsed", "api.proto can be parsed", "api.proto", None,
              detail=f"{type(e).__name__}: {e}", witness="api.proto:unparsed")
        return b.out
    try:
        classes, models = _read_model(srcs.tree(MODEL))
    except (OSError, SyntaxError) as e:
        b.add("model/parsed", "model.py can be parsed", f"{PKG}.model", None,
              detail=f"{type(e).__name__}: {e}", witness="model.py:unparsed")
        return b.out
    b.add("sources/parsed", "api.proto and model.py can be parsed", f"{PKG}.model", True)
    _enum_obligations(b, proto, classes)
    _message_obligations(b, proto, srcs, classes, models)
    return b.out

"""A small text parser for .proto files (proto2 and proto3), no protoc needed.

Only what the ground checks need is modelled, but the grammar coverage is wide
enough not to trip on constructs that may appear later:

* ``//`` and ``/* */`` comments (string literals are respected),
* ``syntax`` / ``import`` / ``package`` / file level ``option``,
* ``message`` with ``option (ext) = value;``, fields with labels
  (``repeated`` / ``optional`` / ``required``), bracket options
  (``[deprecated = true, packed=false]``), ``map<K, V>`` fields, ``oneof``,
  ``reserved`` / ``extensions`` ranges, nested messages / enums / ``extend``,
  proto2 ``group``,
* ``enum`` with ``option allow_alias = true;``, negative and hex numbers, value
  options,
* ``service`` with ``rpc`` entries (recorded, bodies' options kept),
* ``extend`` blocks (the declared extension fields are recorded).

Nested messages and enums are recorded with qualified names (``Outer.Inner``)
in the same flat lists as the top-level ones; ``ProtoFile.top_messages`` /
``top_enums`` give the top-level subset.

Public entry point: :func:`parse_proto`.
"""
from __future__ import annotations

import os
import re
from dataclasses import dataclass, field
from typing import Any

__all__ = [
    "ProtoField", "ProtoMessage", "ProtoEnum", "ProtoRpc", "ProtoService",
    "ProtoFile", "ProtoSyntaxError", "parse_proto", "SCALAR_TYPES",
]

SCALAR_TYPES = frozenset({
    "double", "float", "int32", "int64", "uint32", "uint64", "sint32",
    "sint64", "fixed32", "fixed64", "sfixed32", "sfixed64", "bool", "string",
    "bytes",
})

DEFAULT_SOURCE = "SOURCE_BOTH"   # api_options.proto: [default=SOURCE_BOTH]


class ProtoSyntaxError(ValueError):
    """Raised with a line number when the text is not understood."""


# ----------------------------------------------------------------------------
# records
# ----------------------------------------------------------------------------
@dataclass
class ProtoField:
    name: str
    number: int
    type: str                      # as written: "uint32", "EntityCategory", "map<string,int32>"
    label: str = ""                # "repeated" | "optional" | "required" | "" (none written)
    options: dict[str, Any] = field(default_factory=dict)   # {"deprecated": True, ...}
    oneof: str | None = None       # name of the enclosing oneof, if any

    @property
    def repeated(self) -> bool:
        return self.label == "repeated" or self.type.startswith("map<")

    @property
    def deprecated(self) -> bool:
        return self.options.get("deprecated") is True


@dataclass
class ProtoMessage:
    name: str                      # qualified for nested ones: "Outer.Inner"
    options: dict[str, Any] = field(default_factory=dict)   # {"id": 1, "source": "SOURCE_CLIENT", ...}
    fields: list[ProtoField] = field(default_factory=list)
    reserved: list[Any] = field(default_factory=list)       # numbers, (lo, hi) ranges, names
    oneofs: list[str] = field(default_factory=list)
    nested: bool = False
    # option names that were written more than once in the body (last one wins
    # in ``options``; the checks want to know)
    duplicate_options: list[str] = field(default_factory=list)

    @property
    def id(self) -> int | None:
        v = self.options.get("id")
        return v if isinstance(v, int) and not isinstance(v, bool) else None

    @property
    def source(self) -> str:
        return str(self.options.get("source", DEFAULT_SOURCE))

    @property
    def ifdef(self) -> str | None:
        return self.options.get("ifdef")

    def field_names(self) -> list[str]:
        return [f.name for f in self.fields]

    def field_by_name(self, name: str) -> ProtoField | None:
        for f in self.fields:
            if f.name == name:
                return f
        return None


@dataclass
class ProtoEnum:
    name: str
    values: list[tuple[str, int]] = field(default_factory=list)   # in source order
    options: dict[str, Any] = field(default_factory=dict)
    value_options: dict[str, dict[str, Any]] = field(default_factory=dict)
    reserved: list[Any] = field(default_factory=list)
    nested: bool = False

    @property
    def allow_alias(self) -> bool:
        return self.options.get("allow_alias") is True

    def names_for(self, number: int) -> list[str]:
        return [n for n, v in self.values if v == number]

    def numbers(self) -> list[int]:
        """Distinct numbers in first-appearance order."""
        seen: list[int] = []
        for _, v in self.values:
            if v not in seen:
                seen.append(v)
        return seen


@dataclass
class ProtoRpc:
    name: str
    request: str
    response: str
    options: dict[str, Any] = field(default_factory=dict)


@dataclass
class ProtoService:
    name: str
    rpcs: list[ProtoRpc] = field(default_factory=list)
    options: dict[str, Any] = field(default_factory=dict)


@dataclass
class ProtoFile:
    syntax: str = "proto2"
    package: str = ""
    imports: list[str] = field(default_factory=list)
    options: dict[str, Any] = field(default_factory=dict)
    messages: list[ProtoMessage] = field(default_factory=list)   # top-level and nested, source order
    enums: list[ProtoEnum] = field(default_factory=list)
    services: list[ProtoService] = field(default_factory=list)
    # extendee -> extension fields declared for it
    extensions: dict[str, list[ProtoField]] = field(default_factory=dict)

    @property
    def top_messages(self) -> list[ProtoMessage]:
        return [m for m in self.messages if not m.nested]

    @property
    def top_enums(self) -> list[ProtoEnum]:
        return [e for e in self.enums if not e.nested]

    def message(self, name: str) -> ProtoMessage | None:
        """First message of that (qualified) name, or None."""
        for m in self.messages:
            if m.name == name:
                return m
        return None

    def enum(self, name: str) -> ProtoEnum | None:
        for e in self.enums:
            if e.name == name:
                return e
        return None

    def messages_with_id(self) -> list[ProtoMessage]:
        return [m for m in self.top_messages if m.id is not None]


# ----------------------------------------------------------------------------
# lexer
# ----------------------------------------------------------------------------
_TOKEN_RE = re.compile(
    r"""
      (?P<ws>\s+)
    | (?P<lc>//[^\n]*)
    | (?P<bc>/\*.*?\*/)
    | (?P<str>"(?:\\.|[^"\\])*"|'(?:\\.|[^'\\])*')
    | (?P<id>\.?[A-Za-z_][A-Za-z0-9_]*(?:\.[A-Za-z_][A-Za-z0-9_]*)*)
    | (?P<num>[-+]?(?:0[xX][0-9a-fA-F]+|(?:\d+\.\d*|\.\d+|\d+)(?:[eE][-+]?\d+)?))
    | (?P<punct>[{}\[\]()<>;=,:.\-+])
    """,
    re.VERBOSE | re.DOTALL,
)


@dataclass
class _Tok:
    kind: str      # "str" | "num" | "id" | "punct" | "eof"
    text: str
    line: int


def _lex(text: str) -> list[_Tok]:
    toks: list[_Tok] = []
    pos, line, n = 0, 1, len(text)
    while pos < n:
        m = _TOKEN_RE.match(text, pos)
        if m is None:
            raise ProtoSyntaxError(f"line {line}: unexpected character {text[pos]!r}")
        kind = m.lastgroup
        chunk = m.group()
        if kind not in ("ws", "lc", "bc"):
            toks.append(_Tok(kind or "", chunk, line))
        line += chunk.count("\n")
        pos = m.end()
    toks.append(_Tok("eof", "", line))
    return toks


_ESCAPES = {"n": "\n", "t": "\t", "r": "\r", "\\": "\\", '"': '"', "'": "'", "0": "\0"}


def _unquote(s: str) -> str:
    body = s[1:-1]
    out, i = [], 0
    while i < len(body):
        c = body[i]
        if c == "\\" and i + 1 < len(body):
            out.append(_ESCAPES.get(body[i + 1], body[i + 1]))
            i += 2
        else:
            out.append(c)
            i += 1
    return "".join(out)


def _number(s: str) -> int | float:
    t = s.lower()
    sign = -1 if t.startswith("-") else 1
    t = t.lstrip("+-")
    if t.startswith("0x"):
        return sign * int(t, 16)
    if re.fullmatch(r"0[0-7]+", t):
        return sign * int(t, 8)
    if re.fullmatch(r"\d+", t):
        return sign * int(t)
    return sign * float(t)


# ----------------------------------------------------------------------------
# parser
# ----------------------------------------------------------------------------
class _Parser:
    def __init__(self, text: str) -> None:
        self.toks = _lex(text)
        self.i = 0
        self.out = ProtoFile()

    # -- token helpers -------------------------------------------------------
    @property
    def tok(self) -> _Tok:
        return self.toks[self.i]

    def peek(self, k: int = 1) -> _Tok:
        return self.toks[min(self.i + k, len(self.toks) - 1)]

    def next(self) -> _Tok:
        t = self.toks[self.i]
        if t.kind != "eof":
            self.i += 1
        return t

    def at(self, text: str) -> bool:
        return self.tok.text == text and self.tok.kind in ("punct", "id")

    def accept(self, text: str) -> bool:
        if self.at(text):
            self.i += 1
            return True
        return False

    def expect(self, text: str) -> _Tok:
        if not self.at(text):
            raise ProtoSyntaxError(
                f"line {self.tok.line}: expected {text!r}, found {self.tok.text!r}")
        return self.next()

    def ident(self) -> str:
        if self.tok.kind != "id":
            raise ProtoSyntaxError(
                f"line {self.tok.line}: expected identifier, found {self.tok.text!r}")
        return self.next().text

    def integer(self) -> int:
        t = self.tok
        if t.kind == "punct" and t.text in "+-" and self.peek().kind == "num":
            self.next()
            v = _number(self.next().text)
            v = -v if t.text == "-" else v
        elif t.kind == "num":
            v = _number(self.next().text)
        elif t.kind == "id" and t.text == "max":
            self.next()
            return 0x1FFFFFFF
        else:
            raise ProtoSyntaxError(f"line {t.line}: expected integer, found {t.text!r}")
        if not isinstance(v, int):
            raise ProtoSyntaxError(f"line {t.line}: expected integer, found {t.text!r}")
        return v

    def skip_block(self) -> None:
        """Skip a balanced ``{ ... }`` starting at the current ``{``."""
        self.expect("{")
        depth = 1
        while depth:
            t = self.next()
            if t.kind == "eof":
                raise ProtoSyntaxError(f"line {t.line}: unbalanced braces")
            if t.kind == "punct" and t.text == "{":
                depth += 1
            elif t.kind == "punct" and t.text == "}":
                depth -= 1

    # -- constants and options ----------------------------------------------
    def constant(self) -> Any:
        t = self.tok
        if t.kind == "str":
            # adjacent string literals concatenate
            parts = []
            while self.tok.kind == "str":
                parts.append(_unquote(self.next().text))
            return "".join(parts)
        if t.kind == "num" or (t.kind == "punct" and t.text in "+-"):
            if t.kind == "punct":
                self.next()
                v = _number(self.next().text)
                return -v if t.text == "-" else v
            return _number(self.next().text)
        if t.kind == "id":
            self.next()
            if t.text == "true":
                return True
            if t.text == "false":
                return False
            if t.text in ("inf", "nan"):
                return float(t.text)
            return t.text              # enum constant such as SOURCE_CLIENT
        if t.kind == "punct" and t.text == "{":
            start = self.i
            self.skip_block()
            return " ".join(x.text for x in self.toks[start:self.i])   # aggregate, kept as text
        raise ProtoSyntaxError(f"line {t.line}: bad constant {t.text!r}")

    def option_name(self) -> str:
        """``(id)``, ``deprecated``, ``(foo.bar).baz`` -> "id", "deprecated", "foo.bar.baz"."""
        parts: list[str] = []
        if self.accept("("):
            parts.append(self.ident().lstrip("."))
            self.expect(")")
        else:
            parts.append(self.ident())
        # ``(ext).sub.(other)``: ".sub" lexes as an identifier with a leading dot
        while True:
            if self.tok.kind == "id" and self.tok.text.startswith("."):
                tail = self.next().text.lstrip(".")
                if tail:
                    parts.append(tail)
            elif self.tok.kind == "punct" and self.tok.text == ".":
                self.next()
                self.expect("(")
                parts.append(self.ident().lstrip("."))
                self.expect(")")
            else:
                break
        return ".".join(parts)

    def option_statement(self, into: dict[str, Any], dups: list[str] | None = None) -> None:
        self.expect("option")
        name = self.option_name()
        self.expect("=")
        value = self.constant()
        self.expect(";")
        if name in into and dups is not None:
            dups.append(name)
        into[name] = value

    def bracket_options(self) -> dict[str, Any]:
        opts: dict[str, Any] = {}
        if not self.accept("["):
            return opts
        while True:
            name = self.option_name()
            self.expect("=")
            opts[name] = self.constant()
            if self.accept(","):
                continue
            self.expect("]")
            return opts

    # -- top level -----------------------------------------------------------
    def parse(self) -> ProtoFile:
        while self.tok.kind != "eof":
            t = self.tok
            if self.accept(";"):
                continue
            if t.kind != "id":
                raise ProtoSyntaxError(f"line {t.line}: unexpected {t.text!r}")
            if t.text == "syntax":
                self.next(); self.expect("=")
                self.out.syntax = str(self.constant()); self.expect(";")
            elif t.text == "import":
                self.next()
                if self.tok.kind == "id" and self.tok.text in ("public", "weak"):
                    self.next()
                self.out.imports.append(str(self.constant())); self.expect(";")
            elif t.text == "package":
                self.next(); self.out.package = self.ident(); self.expect(";")
            elif t.text == "option":
                self.option_statement(self.out.options)
            elif t.text == "message":
                self.message(prefix="")
            elif t.text == "enum":
                self.enum(prefix="")
            elif t.text == "service":
                self.service()
            elif t.text == "extend":
                self.extend()
            else:
                raise ProtoSyntaxError(f"line {t.line}: unexpected {t.text!r}")
        return self.out

    # -- message -------------------------------------------------------------
    def message(self, prefix: str) -> None:
        self.expect("message")
        name = prefix + self.ident()
        msg = ProtoMessage(name=name, nested=bool(prefix))
        self.out.messages.append(msg)          # parent before children: source order
        self.expect("{")
        self.message_body(msg, oneof=None)

    def message_body(self, msg: ProtoMessage, oneof: str | None) -> None:
        while not self.accept("}"):
            t = self.tok
            if t.kind == "eof":
                raise ProtoSyntaxError(f"line {t.line}: unterminated message {msg.name}")
            if self.accept(";"):
                continue
            # A keyword only acts as one when the token after it fits; a field
            # may legally be *named* or *typed* like a keyword.
            nxt = self.peek()
            if t.text == "option" and (nxt.kind == "id" or nxt.text == "("):
                if oneof is None:
                    self.option_statement(msg.options, msg.duplicate_options)
                else:
                    self.option_statement({})
            elif t.text == "message" and nxt.kind == "id" and self.peek(2).text == "{":
                self.message(prefix=msg.name + ".")
            elif t.text == "enum" and nxt.kind == "id" and self.peek(2).text == "{":
                self.enum(prefix=msg.name + ".")
            elif t.text == "extend" and nxt.kind == "id" and self.peek(2).text == "{":
                self.extend()
            elif t.text == "oneof" and nxt.kind == "id" and self.peek(2).text == "{":
                self.next()
                oname = self.ident()
                msg.oneofs.append(oname)
                self.expect("{")
                self.message_body(msg, oneof=oname)
            elif t.text in ("reserved", "extensions") and nxt.kind in ("num", "str"):
                self.next()
                msg.reserved.extend(self.ranges())
            else:
                self.field(msg, oneof)

    def ranges(self) -> list[Any]:
        """``1, 3 to 5, "name";`` -> [1, (3, 5), "name"]."""
        out: list[Any] = []
        while True:
            if self.tok.kind == "str":
                out.append(_unquote(self.next().text))
            else:
                lo = self.integer()
                if self.tok.kind == "id" and self.tok.text == "to":
                    self.next()
                    out.append((lo, self.integer()))
                else:
                    out.append(lo)
            if self.accept(","):
                continue
            self.bracket_options()           # ``extensions 4 to max [verification = ...];``
            self.expect(";")
            return out

    def type_name(self) -> str:
        if self.at("map") and self.peek().text == "<":
            self.next(); self.expect("<")
            k = self.ident(); self.expect(","); v = self.ident(); self.expect(">")
            return f"map<{k},{v}>"
        return self.ident()

    def field(self, msg: ProtoMessage, oneof: str | None) -> None:
        label = ""
        if (self.tok.text in ("repeated", "optional", "required")
                and self.peek().kind == "id" and self.peek(2).text != "="):
            label = self.next().text
        ftype = self.type_name()
        if ftype == "group":                  # proto2 group: ``optional group Name = 1 { ... }``
            gname = self.ident(); self.expect("="); num = self.integer()
            msg.fields.append(ProtoField(gname.lower(), num, "group", label, {}, oneof))
            self.skip_block()
            return
        fname = self.ident()
        self.expect("=")
        num = self.integer()
        opts = self.bracket_options()
        self.expect(";")
        msg.fields.append(ProtoField(fname, num, ftype, label, opts, oneof))

    # -- enum ----------------------------------------------------------------
    def enum(self, prefix: str) -> None:
        self.expect("enum")
        en = ProtoEnum(name=prefix + self.ident(), nested=bool(prefix))
        self.out.enums.append(en)
        self.expect("{")
        while not self.accept("}"):
            t = self.tok
            if t.kind == "eof":
                raise ProtoSyntaxError(f"line {t.line}: unterminated enum {en.name}")
            if self.accept(";"):
                continue
            if t.text == "option" and self.peek().text != "=":
                self.option_statement(en.options)
            elif t.text == "reserved" and self.peek().text != "=":
                self.next()
                en.reserved.extend(self.ranges())
            else:
                vname = self.ident()
                self.expect("=")
                num = self.integer()
                vopts = self.bracket_options()
                self.expect(";")
                en.values.append((vname, num))
                if vopts:
                    en.value_options[vname] = vopts

    # -- service / extend ----------------------------------------------------
    def service(self) -> None:
        self.expect("service")
        svc = ProtoService(name=self.ident())
        self.out.services.append(svc)
        self.expect("{")
        while not self.accept("}"):
            t = self.tok
            if t.kind == "eof":
                raise ProtoSyntaxError(f"line {t.line}: unterminated service {svc.name}")
            if self.accept(";"):
                continue
            if t.text == "option":
                self.option_statement(svc.options)
            elif t.text == "rpc":
                self.next()
                rname = self.ident()
                self.expect("("); self.accept("stream"); req = self.ident(); self.expect(")")
                self.expect("returns")
                self.expect("("); self.accept("stream"); resp = self.ident(); self.expect(")")
                rpc = ProtoRpc(rname, req, resp)
                if self.accept("{"):
                    while not self.accept("}"):
                        if self.accept(";"):
                            continue
                        if self.tok.kind == "eof":
                            raise ProtoSyntaxError(f"line {t.line}: unterminated rpc {rname}")
                        self.option_statement(rpc.options)
                else:
                    self.expect(";")
                svc.rpcs.append(rpc)
            else:
                raise ProtoSyntaxError(f"line {t.line}: unexpected {t.text!r} in service")

    def extend(self) -> None:
        self.expect("extend")
        extendee = self.ident()
        holder = ProtoMessage(name=extendee)
        self.expect("{")
        self.message_body(holder, oneof=None)
        self.out.extensions.setdefault(extendee, []).extend(holder.fields)


def parse_proto(path_or_text: str | os.PathLike) -> ProtoFile:
    """Parse a .proto file given as a path or directly as text.

    A ``str`` is taken to be text when it contains a newline or a brace, or
    when no such file exists; otherwise it is read as a path.
    """
    if isinstance(path_or_text, os.PathLike):
        with open(path_or_text, encoding="utf-8") as fh:
            text = fh.read()
    else:
        s = str(path_or_text)
        looks_like_text = "\n" in s or "{" in s or ";" in s
        if not looks_like_text and os.path.exists(s):
            with open(s, encoding="utf-8") as fh:
                text = fh.read()
        elif not looks_like_text and s.endswith(".proto"):
            raise FileNotFoundError(s)
        else:
            text = s
    return _Parser(text).parse()

"""Ground (finite, exactly evaluated) proof obligations over /repo's program text.

Every module here exposes ``obligations(repo="/repo", sources=None)`` returning
a list of :class:`pyvc.obl.Obligation`.  The oracle is the protocol text
(``api.proto`` / ``api_options.proto``); the program text is re-read from the
working tree (or from the ``sources`` override) on every call.
"""

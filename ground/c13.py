"""Ground obligations for property C13.

    "The table mapping wire type numbers to message classes is exactly the set
    of id options declared in api.proto: every message with an id is present
    under that id and nothing else is, ids are unique and contiguous from 1 so
    that positional lookup selects the right class for every id, and the
    compiled descriptors agree with the .proto text.  The client only ever
    sends message types the protocol marks as client- or both-originated and
    only subscribes to types marked server- or both-originated."

Oracle: the protocol text ``api.proto`` (+ ``api_options.proto``).  Program
text is read from the working tree (``ast``) on every call; the compiled
descriptors are dumped by a fresh subprocess, so nothing imported earlier can
go stale.

Obligation families (ids are ``C13/<where>/<clause>``; no line numbers):

a. ``api.proto/...``               ids unique, >= 1, contiguous 1..N
b. ``core.MESSAGE_TYPE_TO_PROTO/...`` and ``connection.*``
                                   the dict literal maps n -> X, nothing else,
                                   insertion order = 1..N, derived tables are
                                   still derived the same way, names are bound
                                   to api_pb2, nothing mutates the tables
c. ``api_pb2/...``                 compiled descriptors = text
d. ``direction/...``               every concrete send / subscribe respects
                                   ``option (source)``
"""
from __future__ import annotations

import ast
import json
import os
import subprocess
import sys
import time
from typing import Any

from pyvc.obl import Obligation

from .common import API_OPTIONS_PROTO, API_PROTO, PKG, Builder, Sources, modname, snippet
from .msgflow import Func, Program, sorted_atoms
from .protoparse import ProtoFile, ProtoMessage, parse_proto

PROP = "C13"
CORE = f"{PKG}/core.py"
CONNECTION = f"{PKG}/connection.py"
TABLE = "MESSAGE_TYPE_TO_PROTO"
F_TABLE = f"{PKG}.core.{TABLE}"

SEND_OK = ("SOURCE_CLIENT", "SOURCE_BOTH")
RECV_OK = ("SOURCE_SERVER", "SOURCE_BOTH")

# The two places where a protobuf message really leaves / a type really gets
# subscribed.  Everything else (send_message, add_message_callback, the
# send+wait helpers, client.py's bluetooth helpers, ...) is *derived*: a
# parameter that flows into a sink parameter inherits its role, to a fixpoint.
BASE_SINKS = {
    ("connection", "APIConnection.send_messages"): {"msgs": "send"},
    ("connection", "APIConnection._add_message_callback_without_remove"): {"msg_types": "recv"},
}
# What the derivation must find for the documented generic plumbing of
# APIConnection (checked, so a refactoring that bypasses the sinks is seen).
EXPECTED_PRIMITIVES = {
    "send_message": {"msg": {"send"}},
    "send_messages": {"msgs": {"send"}},
    "send_message_callback_response": {"send_msg": {"send"}, "msg_types": {"recv"}},
    "send_message_await_response": {"send_msg": {"send"}, "response_type": {"recv"}},
    "send_messages_await_response_complex": {"messages": {"send"}, "msg_types": {"recv"}},
    "add_message_callback": {"msg_types": {"recv"}},
    "_add_message_callback_without_remove": {"msg_types": {"recv"}},
}
_MUTATORS = {"update", "pop", "popitem", "clear", "setdefault", "__setitem__", "__delitem__",
             "__ior__"}


# ============================================================================
# (a) ids in the protocol text
# ============================================================================
def _proto_id_obligations(b: Builder, proto: ProtoFile) -> None:
    with_id = proto.messages_with_id()
    by_id: dict[int, list[str]] = {}
    for m in with_id:
        by_id.setdefault(m.id, []).append(m.name)
    # a message option ``(id)`` that is not a plain integer is not understood
    for m in proto.top_messages:
        if "id" in m.options and m.id is None:
            b.add(f"api.proto/{m.name}/id-is-integer",
                  f"option (id) of message {m.name} is an integer", f"api.proto:{m.name}", None,
                  model={"message": m.name, "id": repr(m.options['id'])},
                  witness=f"{m.name}:id={m.options['id']!r}", detail="non-integer id option")
    for m in sorted(with_id, key=lambda m: m.name):
        others = [n for n in by_id[m.id] if n != m.name]
        dup_opt = "id" in m.duplicate_options
        same_name = sum(1 for x in proto.top_messages if x.name == m.name) > 1
        ok = not others and not dup_opt and not same_name
        b.add(f"api.proto/{m.name}/id-unique",
              f"message {m.name} declares exactly one id ({m.id}) and no other message declares it",
              f"api.proto:{m.name}", ok,
              model={"message": m.name, "id": m.id, "also_declared_by": others,
                     "id_option_repeated": dup_opt, "message_declared_twice": same_name},
              witness=f"id={m.id}:" + "/".join(sorted(by_id[m.id])))
        b.add(f"api.proto/{m.name}/id-positive", f"id of message {m.name} is >= 1",
              f"api.proto:{m.name}", m.id >= 1, model={"message": m.name, "id": m.id},
              witness=f"{m.name}:id={m.id}")
    top = max([i for i in by_id] + [len(with_id)], default=0)
    for n in range(1, top + 1):
        b.add(f"api.proto/id={n}/declared",
              f"some message of api.proto declares id {n} (ids are contiguous 1..{top})",
              "api.proto", n in by_id, model={"missing_id": n, "largest_id": top},
              witness=f"id={n}:undeclared")


# ============================================================================
# (b) the tables
# ============================================================================
def _module_assignments(tree: ast.Module, name: str) -> list[ast.stmt]:
    """Module-level statements (also inside if/try at module level) binding ``name``."""
    found: list[ast.stmt] = []

    def visit(body: list[ast.stmt]) -> None:
        for st in body:
            if isinstance(st, ast.Assign) and any(
                    isinstance(t, ast.Name) and t.id == name for t in st.targets):
                found.append(st)
            elif isinstance(st, ast.AnnAssign) and isinstance(st.target, ast.Name) \
                    and st.target.id == name and st.value is not None:
                found.append(st)
            for fld in ("body", "orelse", "finalbody"):
                sub = getattr(st, fld, None)
                if isinstance(sub, list) and not isinstance(st, (ast.FunctionDef, ast.AsyncFunctionDef, ast.ClassDef)):
                    visit([x for x in sub if isinstance(x, ast.stmt)])
            for h in getattr(st, "handlers", []) or []:
                visit(h.body)
    visit(tree.body)
    return found


def _import_bindings(tree: ast.Module) -> dict[str, list[tuple[str, str]]]:
    """local name -> [(source module text, original name)] for every import binding in the module."""
    out: dict[str, list[tuple[str, str]]] = {}
    for node in ast.walk(tree):
        if isinstance(node, ast.ImportFrom):
            src = "." * node.level + (node.module or "")
            for a in node.names:
                out.setdefault(a.asname or a.name, []).append((src, a.name))
        elif isinstance(node, ast.Import):
            for a in node.names:
                out.setdefault((a.asname or a.name).split(".")[0], []).append(("import", a.name))
    return out


def _is_pb2(src: str) -> bool:
    return src in (".api_pb2", f"{PKG}.api_pb2")


_BINDING_INDEX: dict[int, tuple[ast.Module, dict[str, list[tuple[ast.AST, str]]]]] = {}


def _binding_index(tree: ast.Module) -> dict[str, list[tuple[ast.AST, str]]]:
    """name -> [(node, description)] for every non-import node of the module that binds or deletes the name.

    One walk per tree (the tree object is kept alive in the cache entry, so its id cannot be reused).
    """
    hit = _BINDING_INDEX.get(id(tree))
    if hit is not None and hit[0] is tree:
        return hit[1]
    index: dict[str, list[tuple[ast.AST, str]]] = {}
    for node in ast.walk(tree):
        if isinstance(node, ast.Name) and isinstance(node.ctx, (ast.Store, ast.Del)):
            what = "deleted" if isinstance(node.ctx, ast.Del) else "rebound"
            index.setdefault(node.id, []).append((node, f"line {node.lineno}: {node.id} is {what}"))
        elif isinstance(node, (ast.FunctionDef, ast.AsyncFunctionDef, ast.ClassDef)):
            index.setdefault(node.name, []).append((node, f"line {node.lineno}: def/class {node.name}"))
        elif isinstance(node, (ast.Global, ast.Nonlocal)):
            for n in node.names:
                index.setdefault(n, []).append((node, f"line {node.lineno}: global {n}"))
        # an ``ast.arg`` of that name shadows locally; it cannot change the module binding
    if len(_BINDING_INDEX) > 64:
        _BINDING_INDEX.clear()
    _BINDING_INDEX[id(tree)] = (tree, index)
    return index


def _other_bindings(tree: ast.Module, name: str, defining: ast.stmt | None = None) -> list[str]:
    """Every statement other than ``defining`` (and imports) that binds or deletes ``name``."""
    skip = {id(n) for n in ast.walk(defining)} if defining is not None else set()
    return [text for node, text in _binding_index(tree).get(name, []) if id(node) not in skip]


_MUTATION_MEMO: dict[tuple[int, tuple[str, ...]], tuple[ast.Module, tuple[str, ...]]] = {}


def _mutations(tree: ast.Module, names: tuple[str, ...] | str) -> list[str]:
    """Statements that mutate the object bound to one of ``names`` (``T[k] = v``, ``del T[k]``, ``T.update(..)``, ...).

    Matches both the bare name and any attribute access ending in it
    (``core.MESSAGE_TYPE_TO_PROTO[...] = ...``).
    """
    wanted = (names,) if isinstance(names, str) else tuple(names)
    memo = _MUTATION_MEMO.get((id(tree), wanted))
    if memo is not None and memo[0] is tree:      # the entry keeps the tree alive: no id reuse
        return list(memo[1])

    def is_table(e: ast.AST) -> bool:
        return (isinstance(e, ast.Name) and e.id in wanted) or \
               (isinstance(e, ast.Attribute) and e.attr in wanted)

    hits: list[str] = []
    for node in ast.walk(tree):
        if isinstance(node, ast.Subscript):
            if isinstance(node.ctx, (ast.Store, ast.Del)) and is_table(node.value):
                hits.append(f"line {node.lineno}: {snippet(node, 60)} is "
                            f"{'deleted' if isinstance(node.ctx, ast.Del) else 'assigned'}")
        elif isinstance(node, ast.Call):
            if isinstance(node.func, ast.Attribute) and node.func.attr in _MUTATORS \
                    and is_table(node.func.value):
                hits.append(f"line {node.lineno}: {snippet(node, 60)}")
        elif isinstance(node, ast.AugAssign):
            if is_table(node.target):
                hits.append(f"line {node.lineno}: {snippet(node, 60)}")
        elif isinstance(node, ast.Attribute):
            if node.attr in wanted and isinstance(node.ctx, (ast.Store, ast.Del)):
                hits.append(f"line {node.lineno}: {snippet(node, 60)} is rebound from outside")
    if len(_MUTATION_MEMO) > 256:
        _MUTATION_MEMO.clear()
    _MUTATION_MEMO[(id(tree), wanted)] = (tree, tuple(hits))
    return hits


def _strip_lines(hits: list[str]) -> str:
    """Witness text without line numbers (stable under unrelated edits)."""
    return "; ".join(sorted(h.split(": ", 1)[1] for h in hits))


_T_VALUES = f"tuple({TABLE}.values())"
_T_INVERSE = f"{{v: k for k, v in {TABLE}.items()}}"


def _same_code(node: ast.AST, text: str) -> bool:
    return ast.dump(node) == ast.dump(ast.parse(text, mode="eval").body)


def _table_obligations(b: Builder, proto: ProtoFile, srcs: Sources) -> None:
    by_id: dict[int, list[ProtoMessage]] = {}
    for m in proto.messages_with_id():
        by_id.setdefault(m.id, []).append(m)

    def undecided_all(reason: str) -> None:
        # keep the per-id obligations in existence (as undecided) so that they do not
        # silently vanish from reports keyed by id
        for n in sorted(by_id):
            want = "/".join(sorted(m.name for m in by_id[n]))
            b.add(f"core.{TABLE}/id={n}/maps-to-declared-message", f"{TABLE}[{n}] is api_pb2.{want}",
                  F_TABLE, None, witness=f"id={n}:table-unreadable", detail=reason)
            b.add(f"connection.MESSAGE_NUMBER_TO_PROTO/id={n}/positional-lookup",
                  f"tuple({TABLE}.values())[{n} - 1] is api_pb2.{want}",
                  f"{PKG}.connection.MESSAGE_NUMBER_TO_PROTO", None, witness=f"pos={n}:table-unreadable",
                  detail=reason)

    try:
        core = srcs.tree(CORE)
    except (OSError, SyntaxError) as e:
        b.add(f"core.{TABLE}/literal", f"{CORE} can be parsed", F_TABLE, None,
              detail=f"{type(e).__name__}: {e}", witness="core.py:unreadable")
        undecided_all(f"{CORE} cannot be parsed")
        return
    defs = _module_assignments(core, TABLE)
    lit = defs[0].value if len(defs) == 1 else None
    shape_ok = isinstance(lit, ast.Dict)
    b.add(f"core.{TABLE}/literal",
          f"core.py defines {TABLE} exactly once, as a dict literal", F_TABLE,
          True if shape_ok else None,
          model={"definitions": len(defs), "value": snippet(lit, 80) if lit is not None else None},
          witness=f"{TABLE}:not-a-single-dict-literal",
          detail="" if shape_ok else "the table cannot be read statically")
    if not shape_ok:
        undecided_all("table is not a single dict literal")
        return
    assert isinstance(lit, ast.Dict)

    imports = _import_bindings(core)
    # entries as written: (key, local value name, original api_pb2 name or None)
    entries: list[tuple[Any, str | None, ast.AST]] = []
    opaque = False          # some entry could not be read: a failing entry check is then undecided, not refuted
    for pos, (k, v) in enumerate(zip(lit.keys, lit.values), start=1):
        if k is None:
            opaque = True
            b.add(f"core.{TABLE}/pos={pos}/entry-readable",
                  f"entry {pos} of {TABLE} is a `key: Name` pair", F_TABLE, None,
                  model={"entry": "**" + snippet(v, 60)}, witness=f"pos={pos}:spread",
                  detail="`**mapping` spread inside the literal is not evaluated")
            continue
        key = k.value if isinstance(k, ast.Constant) and type(k.value) is int else None
        if key is None and isinstance(k, ast.UnaryOp) and isinstance(k.op, ast.USub) \
                and isinstance(k.operand, ast.Constant) and type(k.operand.value) is int:
            key = -k.operand.value
        vname = v.id if isinstance(v, ast.Name) else None
        if key is None or vname is None:
            opaque = True
            b.add(f"core.{TABLE}/pos={pos}/entry-readable",
                  f"entry {pos} of {TABLE} is an `int: Name` pair", F_TABLE, None,
                  model={"key": snippet(k, 40), "value": snippet(v, 60)},
                  witness=f"pos={pos}:{snippet(k, 20)}:{snippet(v, 30)}",
                  detail="key is not an integer literal or value is not a plain name")
        entries.append((key, vname, v))

    def verdict(ok: bool) -> bool | None:
        return True if ok else (None if opaque else False)

    unread = "" if not opaque else "the literal has entries that could not be read (see entry-readable)"

    def original(vname: str | None) -> str | None:
        """api_pb2 name a local value name stands for (None when not from api_pb2)."""
        if vname is None:
            return None
        for src, orig in imports.get(vname, []):
            if _is_pb2(src):
                return orig
        return None

    # the dict the literal evaluates to (later duplicates overwrite, position of the first stays)
    effective: dict[Any, str | None] = {}
    for key, vname, _ in entries:
        if key is not None:
            effective[key] = vname
    positional = list(effective.values())

    # -- per declared id: n -> X, by key and by position --------------------
    for n in sorted(by_id):
        want = "/".join(sorted(m.name for m in by_id[n]))
        got_local = effective.get(n)
        got = original(got_local) or got_local
        present = n in effective
        ok = present and len(by_id[n]) == 1 and got == by_id[n][0].name and original(got_local) is not None
        b.add(f"core.{TABLE}/id={n}/maps-to-declared-message",
              f"{TABLE}[{n}] is api_pb2.{want}", F_TABLE, verdict(ok),
              model={"id": n, "declared": want, "table": got_local if present else None,
                     "table_value_is_api_pb2": original(got_local)},
              witness=f"id={n}:missing" if not present else f"id={n}:{got}!={want}", detail=unread)
        idx = n - 1
        p_local = positional[idx] if 0 <= idx < len(positional) else None
        p_got = original(p_local) or p_local
        ok = p_local is not None and len(by_id[n]) == 1 and p_got == by_id[n][0].name
        b.add(f"connection.MESSAGE_NUMBER_TO_PROTO/id={n}/positional-lookup",
              f"tuple({TABLE}.values())[{n} - 1] is api_pb2.{want}",
              f"{PKG}.connection.MESSAGE_NUMBER_TO_PROTO", verdict(ok),
              model={"id": n, "declared": want, "at_position": p_local, "table_len": len(positional)},
              witness=f"pos={n}:{p_got}!={want}", detail=unread)

    # -- per written key: declared, single, value bound to api_pb2 ----------
    counts: dict[Any, int] = {}
    for key, _, _ in entries:
        if key is not None:
            counts[key] = counts.get(key, 0) + 1
    for key in sorted(counts):
        b.add(f"core.{TABLE}/key={key}/declared-in-proto",
              f"key {key} of {TABLE} is an id declared in api.proto", F_TABLE, key in by_id,
              model={"key": key, "value": effective.get(key)},
              witness=f"key={key}:undeclared({effective.get(key)})")
        vals = [vn for k2, vn, _ in entries if k2 == key]
        b.add(f"core.{TABLE}/key={key}/written-once",
              f"key {key} is written once in the {TABLE} literal", F_TABLE, counts[key] == 1,
              model={"key": key, "times": counts[key], "values": vals},
              witness=f"key={key}:duplicate(" + "/".join(str(v) for v in vals) + ")")
        vname = effective.get(key)
        binds = imports.get(vname or "", [])
        foreign = sorted({f"{s}:{o}" for s, o in binds if not _is_pb2(s)})
        rebinds = _other_bindings(core, vname) if vname else []
        ok: bool | None = any(_is_pb2(s) for s, _ in binds) and not foreign and not rebinds
        if vname is None:
            ok = None              # value is not a plain name: see entry-readable
        b.add(f"core.{TABLE}/key={key}/value-bound-to-api_pb2",
              f"the name under key {key} ({vname}) is bound only by `from .api_pb2 import`",
              F_TABLE, ok, detail="" if vname else "table value is not a plain name",
              model={"key": key, "name": vname, "import_bindings": [list(x) for x in binds],
                     "other_bindings": rebinds},
              witness=f"key={key}:{vname}:" + ("not-imported-from-api_pb2" if not any(_is_pb2(s) for s, _ in binds)
                                               else "also-bound:" + (";".join(foreign) or _strip_lines(rebinds))))

    # -- per position: insertion order is 1, 2, 3, ... -----------------------
    for pos, (key, vname, _) in enumerate(entries, start=1):
        b.add(f"core.{TABLE}/pos={pos}/key-equals-position",
              f"entry {pos} of the {TABLE} literal has key {pos} (insertion order 1..N, step 1)",
              F_TABLE, verdict(key == pos), model={"position": pos, "key": key, "value": vname},
              witness=f"pos={pos}:key={key}", detail=unread)

    # -- the tables stay what the literal says -------------------------------
    rebinds = _other_bindings(core, TABLE, defs[0])
    muts = _mutations(core, TABLE)
    b.add(f"core.{TABLE}/not-rebound-or-mutated-in-core",
          f"core.py never rebinds or mutates {TABLE} after the literal", F_TABLE,
          not rebinds and not muts, model={"rebinding": rebinds, "mutation": muts},
          witness=f"core:{_strip_lines(rebinds + muts)}")
    for rel in srcs.package_modules():
        if rel == CORE:
            continue
        try:
            tree = srcs.tree(rel)
        except SyntaxError as e:
            b.add(f"{_short(rel)}/tables-not-mutated", f"{rel} can be parsed", rel, None,
                  detail=f"SyntaxError: {e.msg}", witness=f"{rel}:syntax-error")
            continue
        hits = _mutations(tree, (TABLE, "MESSAGE_NUMBER_TO_PROTO", "PROTO_TO_MESSAGE_TYPE"))
        if hits:
            # statements at module level that *build* a derived table run once at import; their result is what the value check of
            # the definition obligations looks at.  Only mutations inside functions (at run time) change the tables afterwards.
            inside = _in_function_lines(tree)
            module_level = [h for h in hits if int(h.split(":")[0].split()[1]) not in inside
                            and ("PROTO_TO_MESSAGE_TYPE" in h or "MESSAGE_NUMBER_TO_PROTO" in h) and TABLE + "[" not in h]
            if module_level and all(_live_value_ok(srcs, _short(rel), n) is True for n in ("MESSAGE_NUMBER_TO_PROTO", "PROTO_TO_MESSAGE_TYPE")
                                    if _short(rel) == "connection"):
                hits = [h for h in hits if h not in module_level]
        if hits or rel == CONNECTION:
            b.add(f"{_short(rel)}/tables-not-mutated",
                  f"{rel} does not mutate {TABLE} / MESSAGE_NUMBER_TO_PROTO / PROTO_TO_MESSAGE_TYPE",
                  rel, not hits, model={"mutation": hits}, witness=f"{_short(rel)}:{_strip_lines(hits)}")

    # -- derived tables in connection.py (and the spare copy in core.py) -----
    for name, text, what in (
            ("MESSAGE_NUMBER_TO_PROTO", _T_VALUES, "positional tuple"),
            ("PROTO_TO_MESSAGE_TYPE", _T_INVERSE, "inverse dict")):
        _derived_table(b, srcs, CONNECTION, "connection", name, text, what, required=True)
    _derived_table(b, srcs, CORE, "core", "MESSAGE_NUMBER_TO_PROTO", _T_VALUES,
                   "positional tuple", required=False)
    try:
        conn = srcs.tree(CONNECTION)
    except (OSError, SyntaxError):
        return
    cimports = _import_bindings(conn)
    binds = cimports.get(TABLE, [])
    ok = binds and all(s in (".core", f"{PKG}.core") and o == TABLE for s, o in binds) \
        and not _other_bindings(conn, TABLE)
    b.add(f"connection.{TABLE}/imported-from-core",
          f"connection.py's {TABLE} is core.py's (from .core import), never rebound",
          f"{PKG}.connection.{TABLE}", bool(ok),
          model={"import_bindings": [list(x) for x in binds], "other_bindings": _other_bindings(conn, TABLE)},
          witness=f"connection.{TABLE}:not-core's")
    _lookup_expression(b, conn)


def _short(rel: str) -> str:
    """``aioesphomeapi/connection.py`` -> ``connection`` (module name used in ids)."""
    return modname(rel)


_LIVE_SCRIPT = r"""
import json, sys
sys.path.insert(0, sys.argv[1])
import aioesphomeapi.core as core
import aioesphomeapi.connection as conn
t = core.MESSAGE_TYPE_TO_PROTO
out = {"core": [[k, v.__name__] for k, v in t.items()],
       "connection.MESSAGE_NUMBER_TO_PROTO": [c.__name__ for c in getattr(conn, "MESSAGE_NUMBER_TO_PROTO", ())],
       "connection.PROTO_TO_MESSAGE_TYPE": [[c.__name__, i] for c, i in getattr(conn, "PROTO_TO_MESSAGE_TYPE", {}).items()],
       "core.MESSAGE_NUMBER_TO_PROTO": [c.__name__ for c in getattr(core, "MESSAGE_NUMBER_TO_PROTO", ())],
       "identity": all(getattr(conn, "MESSAGE_NUMBER_TO_PROTO", (None,) * len(t))[i] is c for i, c in enumerate(t.values()))
                   and all(getattr(conn, "PROTO_TO_MESSAGE_TYPE", {}).get(c) == k for k, c in t.items())}
print(json.dumps(out))
"""
_LIVE_MEMO: dict = {}


def _live_tables(srcs: Sources) -> dict | None:
    """The tables as they are after importing the package from the working tree (fresh subprocess).  Used only when a
    derived table is not written in the expected syntactic form: what the property needs is its *value*."""
    if srcs.override:
        return None                    # in-memory replacement text cannot be imported
    if srcs.repo not in _LIVE_MEMO:
        try:
            p = subprocess.run([sys.executable, "-c", _LIVE_SCRIPT, os.path.abspath(srcs.repo)], capture_output=True, text=True, timeout=120)
            _LIVE_MEMO[srcs.repo] = json.loads(p.stdout) if p.returncode == 0 else None
        except (OSError, subprocess.SubprocessError, ValueError):
            _LIVE_MEMO[srcs.repo] = None
    return _LIVE_MEMO[srcs.repo]


def _live_value_ok(srcs: Sources, short: str, name: str) -> bool | None:
    live = _live_tables(srcs)
    if live is None:
        return None
    core_t = live["core"]
    got = live.get(f"{short}.{name}")
    if name == "MESSAGE_NUMBER_TO_PROTO":
        return got == [c for _, c in core_t] and (short != "connection" or live["identity"])
    return sorted(got) == sorted([c, k] for k, c in core_t) and live["identity"]


def _in_function_lines(tree: ast.Module) -> set[int]:
    out: set[int] = set()
    for node in ast.walk(tree):
        if isinstance(node, (ast.FunctionDef, ast.AsyncFunctionDef, ast.Lambda)):
            for sub in ast.walk(node):
                if hasattr(sub, "lineno"):
                    out.add(sub.lineno)
    return out


def _derived_table(b: Builder, srcs: Sources, rel: str, short: str, name: str, text: str,
                   what: str, required: bool) -> None:
    fn = f"{PKG}.{short}.{name}"
    try:
        tree = srcs.tree(rel)
    except (OSError, SyntaxError) as e:
        b.add(f"{short}.{name}/definition", f"{rel} can be parsed", fn, None,
              detail=f"{type(e).__name__}: {e}", witness=f"{short}:unreadable")
        return
    defs = _module_assignments(tree, name)
    if not defs and not required:
        return
    ok = len(defs) == 1 and _same_code(defs[0].value, text)
    rebinds = _other_bindings(tree, name, defs[0]) if defs else []
    detail = ""
    if not (ok and not rebinds):
        # written differently (imported from another module, built by a loop, ...): the value after import decides
        lv = _live_value_ok(srcs, short, name)
        if lv is True:
            ok, rebinds = True, []
            detail = "not the expected syntactic form; value checked on the imported module: equals the table derived from core.MESSAGE_TYPE_TO_PROTO"
    b.add(f"{short}.{name}/definition",
          f"{short}.py's {name} (the {what}) has the value of `{text}`", fn, ok and not rebinds, detail=detail,
          model={"definitions": [snippet(d.value, 100) for d in defs], "expected": text,
                 "other_bindings": rebinds},
          witness=f"{short}.{name}:" + (" | ".join(snippet(d.value, 60) for d in defs) or "undefined")
          + (";rebound" if rebinds else ""))


def _lookup_expression(b: Builder, conn: ast.Module) -> None:
    """process_packet selects the class with ``MESSAGE_NUMBER_TO_PROTO[<msg type parameter> - 1]``."""
    fn = f"{PKG}.connection.APIConnection.process_packet"
    target = None
    for node in ast.walk(conn):
        if isinstance(node, ast.ClassDef) and node.name == "APIConnection":
            for st in node.body:
                if isinstance(st, (ast.FunctionDef, ast.AsyncFunctionDef)) and st.name == "process_packet":
                    target = st
    if target is None:
        b.add("connection.APIConnection.process_packet/lookup-is-id-minus-one",
              "APIConnection.process_packet exists", fn, None, witness="process_packet:missing",
              detail="method not found; the positional lookup cannot be located")
        return
    params = [a.arg for a in target.args.args][1:2]
    subs = [n for n in ast.walk(target) if isinstance(n, ast.Subscript)
            and isinstance(n.value, ast.Name) and n.value.id == "MESSAGE_NUMBER_TO_PROTO"]
    other_tables = [snippet(n, 60) for n in ast.walk(target) if isinstance(n, ast.Subscript)
                    and isinstance(n.value, ast.Name) and n.value.id in (TABLE, "PROTO_TO_MESSAGE_TYPE")]
    want = f"MESSAGE_NUMBER_TO_PROTO[{params[0]} - 1]" if params else None
    ok = bool(want) and len(subs) == 1 and _same_code(subs[0], want) and not other_tables
    if not ok and params and not subs and not other_tables:
        # the lookup may have been moved into a helper: accept `MESSAGE_NUMBER_TO_PROTO[<p> - 1]` in a function of this module that
        # process_packet calls with its type parameter in the position of <p>; anything else is not decided here (C12's contract on
        # process_packet states the selected class semantically)
        ok = None
        funcs = {n.name: n for n in ast.walk(conn) if isinstance(n, (ast.FunctionDef, ast.AsyncFunctionDef))}
        for call in [n for n in ast.walk(target) if isinstance(n, ast.Call)]:
            fname = call.func.id if isinstance(call.func, ast.Name) else (call.func.attr if isinstance(call.func, ast.Attribute) else None)
            helper = funcs.get(fname)
            if helper is None or helper is target:
                continue
            hp = [a.arg for a in helper.args.args if a.arg not in ("self", "cls")]
            hsubs = [n for n in ast.walk(helper) if isinstance(n, ast.Subscript) and isinstance(n.value, ast.Name) and n.value.id == "MESSAGE_NUMBER_TO_PROTO"]
            for i, a in enumerate(call.args):
                if isinstance(a, ast.Name) and a.id == params[0] and i < len(hp) and len(hsubs) == 1 and _same_code(hsubs[0], f"MESSAGE_NUMBER_TO_PROTO[{hp[i]} - 1]"):
                    ok = True
                    subs = hsubs
    b.add("connection.APIConnection.process_packet/lookup-is-id-minus-one",
          f"process_packet selects the class by `{want}` and by nothing else", fn, ok,
          model={"lookups": [snippet(s, 80) for s in subs] + other_tables, "expected": want},
          witness="process_packet:" + (" | ".join(snippet(s, 60) for s in subs) or "no-positional-lookup"))


# ============================================================================
# (c) compiled descriptors
# ============================================================================
_DUMP_SCRIPT = r"""
import importlib, json, sys, types
repo = sys.argv[1]
# A stub parent package: the two generated modules are loaded from <repo>
# without running aioesphomeapi/__init__.py (no third-party imports needed).
pkg = types.ModuleType("aioesphomeapi"); pkg.__path__ = [repo + "/aioesphomeapi"]
sys.modules["aioesphomeapi"] = pkg
opts = importlib.import_module("aioesphomeapi.api_options_pb2")
pb = importlib.import_module("aioesphomeapi.api_pb2")
from google.protobuf.descriptor import FieldDescriptor as FD
TYPES = {getattr(FD, n): n[5:].lower() for n in dir(FD) if n.startswith("TYPE_")}
def src_name(v):
    return opts.APISourceType.Name(v)
def is_repeated(f):
    # protobuf >= 6 dropped FieldDescriptor.label in favour of is_repeated
    r = getattr(f, "is_repeated", None)
    return bool(r) if r is not None else f.label == FD.LABEL_REPEATED
def fields(d):
    out = []
    for f in d.fields:
        t = TYPES[f.type]
        if f.message_type is not None: t = f.message_type.full_name
        elif f.enum_type is not None: t = f.enum_type.full_name
        out.append({"name": f.name, "number": f.number, "type": t,
                    "kind": TYPES[f.type], "repeated": is_repeated(f),
                    "deprecated": bool(f.GetOptions().deprecated)})
    return out
def messages(fd, mod):
    out = {}
    for name, d in fd.message_types_by_name.items():
        o = d.GetOptions()
        cls = getattr(mod, name, None)
        out[name] = {
            "id": o.Extensions[opts.id] if o.HasExtension(opts.id) else None,
            "source": src_name(o.Extensions[opts.source]),
            "ifdef": o.Extensions[opts.ifdef] if o.HasExtension(opts.ifdef) else None,
            "fields": fields(d),
            "class_descriptor": getattr(getattr(cls, "DESCRIPTOR", None), "full_name", None),
            "nested": sorted(n.name for n in d.nested_types) + sorted(e.name for e in d.enum_types),
        }
    return out
def enums(fd):
    return {name: [[v.name, v.number] for v in e.values] for name, e in fd.enum_types_by_name.items()}
json.dump({
    "file": pb.__file__, "options_file": opts.__file__,
    "messages": messages(pb.DESCRIPTOR, pb), "enums": enums(pb.DESCRIPTOR),
    "options_messages": messages(opts.DESCRIPTOR, opts), "options_enums": enums(opts.DESCRIPTOR),
    "extensions": {n: {"number": e.number, "extendee": e.containing_type.full_name,
                       "type": TYPES[e.type] if e.enum_type is None else e.enum_type.full_name}
                   for n, e in opts.DESCRIPTOR.extensions_by_name.items()},
}, sys.stdout)
"""


def _dump_descriptors(repo: str) -> tuple[dict | None, str]:
    try:
        p = subprocess.run([sys.executable, "-c", _DUMP_SCRIPT, os.path.abspath(repo)],
                           capture_output=True, text=True, timeout=60, cwd="/")
    except (OSError, subprocess.SubprocessError) as e:
        return None, f"{type(e).__name__}: {e}"
    if p.returncode != 0:
        return None, (p.stderr.strip().splitlines() or ["exit status %d" % p.returncode])[-1]
    try:
        return json.loads(p.stdout), ""
    except ValueError as e:
        return None, f"bad JSON from descriptor dump: {e}"


def _text_fields(m: ProtoMessage) -> list[dict]:
    out = []
    for f in m.fields:
        t = f.type.lstrip(".")
        out.append({"name": f.name, "number": f.number, "type": t,
                    "repeated": f.label == "repeated", "deprecated": f.deprecated})
    return out


def _message_diffs(m: ProtoMessage, d: dict) -> list[str]:
    diffs: list[str] = []
    if d["id"] != m.id:
        diffs.append(f"id: text {m.id} / compiled {d['id']}")
    if d["source"] != m.source:
        diffs.append(f"source: text {m.source} / compiled {d['source']}")
    if d.get("ifdef") != m.ifdef:
        diffs.append(f"ifdef: text {m.ifdef!r} / compiled {d.get('ifdef')!r}")
    if d.get("class_descriptor") != m.name:
        diffs.append(f"api_pb2.{m.name} is a class of descriptor {d.get('class_descriptor')}")
    tf = {f["name"]: f for f in _text_fields(m)}
    cf = {f["name"]: f for f in d["fields"]}
    for name in sorted(set(tf) | set(cf)):
        if name not in cf:
            diffs.append(f"field {name}: only in text")
        elif name not in tf:
            diffs.append(f"field {name}: only in compiled descriptor")
        else:
            for attr in ("number", "type", "repeated", "deprecated"):
                if tf[name][attr] != cf[name][attr]:
                    diffs.append(f"field {name}.{attr}: text {tf[name][attr]} / compiled {cf[name][attr]}")
    if [f["name"] for f in _text_fields(m)] != [f["name"] for f in d["fields"]] and not diffs:
        diffs.append("field order differs")
    return diffs


def _descriptor_obligations(b: Builder, proto: ProtoFile, opts: ProtoFile, repo: str) -> None:
    t0 = time.perf_counter()
    dump, err = _dump_descriptors(repo)
    ms = (time.perf_counter() - t0) * 1000.0
    o = b.add("api_pb2/import", "api_pb2 and api_options_pb2 of the repository can be loaded in a fresh interpreter",
              f"{PKG}.api_pb2", True if dump is not None else None, witness="api_pb2:import-failed", detail=err)
    o.ms = round(ms, 3)

    def per(kind: str, modshort: str, name: str, goal: str, diffs: list[str] | None) -> None:
        fn = f"{PKG}.{modshort}.{name}"
        if dump is None:
            b.add(f"{modshort}/{kind}={name}/descriptor-agrees", goal, fn, None,
                  witness=f"{name}:not-compared", detail=f"descriptor dump failed: {err}")
        else:
            b.add(f"{modshort}/{kind}={name}/descriptor-agrees", goal, fn, not diffs,
                  model={"differences": diffs}, witness=f"{name}:" + "; ".join(diffs or []))

    for pf, modshort, mkey, ekey in ((proto, "api_pb2", "messages", "enums"),
                                     (opts, "api_options_pb2", "options_messages", "options_enums")):
        cm = dump[mkey] if dump else {}
        ce = dump[ekey] if dump else {}
        for m in sorted(pf.top_messages, key=lambda m: m.name):
            diffs = None
            if dump is not None:
                diffs = [f"no descriptor named {m.name}"] if m.name not in cm else _message_diffs(m, cm[m.name])
                nested_text = sorted(x.name.split(".")[-1] for x in pf.messages + pf.enums
                                     if x.nested and x.name.rsplit(".", 1)[0] == m.name)
                if m.name in cm and nested_text != sorted(cm[m.name]["nested"]):
                    diffs.append(f"nested types: text {nested_text} / compiled {cm[m.name]['nested']}")
            per("message", modshort, m.name,
                f"compiled descriptor of {m.name} has the id, source and fields of the text", diffs)
        for e in sorted(pf.top_enums, key=lambda e: e.name):
            diffs = None
            if dump is not None:
                if e.name not in ce:
                    diffs = [f"no enum descriptor named {e.name}"]
                else:
                    tv, cv = [list(v) for v in e.values], ce[e.name]
                    diffs = [f"value {n}={v}: only in text" for n, v in tv if [n, v] not in cv]
                    diffs += [f"value {n}={v}: only in compiled descriptor" for n, v in cv if [n, v] not in tv]
                    if not diffs and tv != cv:
                        diffs.append("value order differs")
            per("enum", modshort, e.name,
                f"compiled enum {e.name} has the value names and numbers of the text", diffs)
        if dump is not None:
            text_m = {m.name for m in pf.top_messages}
            text_e = {e.name for e in pf.top_enums}
            for name in sorted(set(cm) - text_m):
                b.add(f"{modshort}/message={name}/declared-in-text",
                      f"compiled message {name} is declared in the .proto text", f"{PKG}.{modshort}.{name}",
                      False, model={"message": name, "id": cm[name]["id"]}, witness=f"{name}:only-compiled")
            for name in sorted(set(ce) - text_e):
                b.add(f"{modshort}/enum={name}/declared-in-text",
                      f"compiled enum {name} is declared in the .proto text", f"{PKG}.{modshort}.{name}",
                      False, model={"enum": name}, witness=f"{name}:only-compiled")
    # the extensions that carry id / source
    text_ext = {f.name: (f.number, ext, f.type) for ext, fs in opts.extensions.items() for f in fs}
    comp_ext = dump["extensions"] if dump else {}
    for name in sorted(set(text_ext) | set(comp_ext)):
        if dump is None:
            b.add(f"api_options_pb2/extension={name}/descriptor-agrees",
                  f"extension ({name}) is compiled as declared", f"{PKG}.api_options_pb2.{name}", None,
                  witness=f"{name}:not-compared", detail=f"descriptor dump failed: {err}")
            continue
        t, c = text_ext.get(name), comp_ext.get(name)
        diffs = []
        if t is None or c is None:
            diffs.append("only in " + ("compiled descriptor" if t is None else "text"))
        else:
            if t[0] != c["number"]:
                diffs.append(f"number: text {t[0]} / compiled {c['number']}")
            if t[1].lstrip(".") != c["extendee"]:
                diffs.append(f"extendee: text {t[1]} / compiled {c['extendee']}")
            if t[2].lstrip(".") != c["type"]:
                diffs.append(f"type: text {t[2]} / compiled {c['type']}")
        b.add(f"api_options_pb2/extension={name}/descriptor-agrees",
              f"extension ({name}) is compiled as declared", f"{PKG}.api_options_pb2.{name}", not diffs,
              model={"differences": diffs}, witness=f"{name}:" + "; ".join(diffs))


# ============================================================================
# (d) direction of traffic
# ============================================================================
def _direction_obligations(b: Builder, proto: ProtoFile, srcs: Sources) -> None:
    prog = Program(srcs)
    for rel, err in sorted(prog.load_errors.items()):
        b.add(f"direction/{_short(rel)}/module-parsed", f"{rel} can be parsed", rel, None,
              detail=err, witness=f"{rel}:syntax-error")

    # -- sinks ---------------------------------------------------------------
    summary: dict[Func, dict[str, set[str]]] = {}
    for (mname, qual), roles in sorted(BASE_SINKS.items()):
        f = _find_func(prog, mname, qual)
        ok = f is not None and all(p in f.all_params for p in roles)
        b.add(f"direction/sink/{mname}.{qual}",
              f"{mname}.{qual}({', '.join(roles)}) exists (root of the send/subscribe flow analysis)",
              f"{PKG}.{mname}.{qual}", True if ok else None, witness=f"{qual}:missing",
              detail="" if ok else "sink method or its parameter not found; call sites cannot be enumerated")
        if ok:
            summary[f] = {p: {r} for p, r in roles.items()}

    # -- fixpoint: which parameters of which functions flow into a sink ------
    all_calls = [(f, call, env) for rel in sorted(prog.mods) for f in
                 [prog.mods[rel].top] + prog.mods[rel].all_funcs for call, env in f.calls]

    def callee_name(call: ast.Call) -> str | None:
        if isinstance(call.func, ast.Attribute):
            return call.func.attr
        if isinstance(call.func, ast.Name):
            return call.func.id
        return None

    def candidates(call: ast.Call) -> list[Func]:
        n = callee_name(call)
        return [f for f in prog.by_name.get(n or "", []) if f in summary]

    def arg_atoms(g: Func, call: ast.Call, env: dict, callee: Func, p: str):
        binding, problem = prog.bind_args(call, callee)
        if p in binding:
            return prog.eval(binding[p], g, env), None
        if problem:
            return frozenset(), problem
        if p in callee.defaults:
            return prog.eval(callee.defaults[p], callee.module.top, {}), None
        return frozenset(), f"no argument for parameter `{p}`"

    changed = True
    while changed:
        changed = False
        for g, call, env in all_calls:
            for callee in candidates(call):
                for p, roles in list(summary[callee].items()):
                    atoms, _ = arg_atoms(g, call, env, callee, p)
                    for a in atoms:
                        if a[0] == "param":
                            slot = summary.setdefault(a[1], {}).setdefault(a[2], set())
                            if not roles <= slot:
                                slot |= roles
                                changed = True

    # -- the documented plumbing has the documented roles --------------------
    for name, want in sorted(EXPECTED_PRIMITIVES.items()):
        f = _find_func(prog, "connection", f"APIConnection.{name}")
        got = {p: set(r) for p, r in summary.get(f, {}).items()} if f is not None else None
        b.add(f"direction/plumbing/connection.APIConnection.{name}",
              f"APIConnection.{name} forwards exactly {_roles_text(want)} to the sinks",
              f"{PKG}.connection.APIConnection.{name}",
              (got == want) if f is not None else None,
              model={"expected": _roles_json(want), "derived": _roles_json(got or {})},
              witness=f"{name}:{_roles_text(got or {})}",
              detail="" if f is not None else "method not found")
    plumbing = {_find_func(prog, "connection", f"APIConnection.{n}") for n in EXPECTED_PRIMITIVES}

    # -- call sites ----------------------------------------------------------
    msgs = {m.name: m for m in proto.top_messages}
    callers: dict[Func, int] = {}
    ordinals: dict[tuple[Func, str], int] = {}
    for g, call, env in all_calls:
        cands = candidates(call)
        if not cands:
            continue
        cname = callee_name(call) or "?"
        ordinals[(g, cname)] = k = ordinals.get((g, cname), 0) + 1
        site = f"direction/{g.dotted}/{cname}#{k}"
        fn = f"{PKG}.{g.dotted}"
        for callee in cands:
            callers[callee] = callers.get(callee, 0) + 1
            tag = "" if len(cands) == 1 else f"@{callee.dotted}"
            for p in sorted(summary[callee]):
                atoms, problem = arg_atoms(g, call, env, callee, p)
                for role in sorted(summary[callee][p]):
                    where = f"{site}{tag}/{role}:{p}"
                    if problem:
                        b.add(f"{where}/unresolved", f"argument `{p}` of {snippet(call, 70)} is resolvable",
                              fn, None, witness=f"{g.dotted}:{cname}#{k}:{p}:unresolved", detail=problem)
                    unknown_i = 0
                    for a in sorted_atoms(atoms):
                        if a[0] == "cls":
                            _direction_clause(b, where, fn, role, a[1], msgs, call)
                        elif a[0] == "param":
                            continue            # pushed to the callers of a[1]
                        else:
                            unknown_i += 1
                            reason = a[1] if a[0] == "unknown" else f"function object {a[1].dotted} used as a message"
                            b.add(f"{where}/unresolved#{unknown_i}",
                                  f"every message class reaching `{p}` of {snippet(call, 70)} is statically known",
                                  fn, None, model={"call": snippet(call, 200), "parameter": p, "role": role},
                                  witness=f"{g.dotted}:{cname}#{k}:{p}:unresolved#{unknown_i}", detail=str(reason))

    # -- helpers whose parameters carry a role: somebody must supply them ----
    for f in sorted(summary, key=lambda f: f.dotted):
        if f in plumbing:
            continue
        for p in sorted(summary[f]):
            roles = "+".join(sorted(summary[f][p]))
            if not callers.get(f):
                b.add(f"direction/{f.dotted}/parameter:{p}/has-callers",
                      f"the message class(es) for parameter `{p}` ({roles}) of {f.dotted} are chosen by callers inside the package",
                      f"{PKG}.{f.dotted}", None, witness=f"{f.dotted}:{p}:no-callers",
                      detail="parameter flows to a send/subscribe sink but no call of the function was found")
            elif f.is_public() and f.parent is None:
                b.add(f"direction/{f.dotted}/parameter:{p}/closed",
                      f"the message class(es) for parameter `{p}` ({roles}) of {f.dotted} are chosen inside the package only",
                      f"{PKG}.{f.dotted}", None, witness=f"{f.dotted}:{p}:public-forwarder",
                      detail="public function forwards a caller-chosen message class to a send/subscribe sink; "
                             "external callers are not enumerable")

    # -- nothing goes around the sinks ---------------------------------------
    _bypass_obligations(b, prog, summary)


def _roles_json(r: dict) -> dict:
    return {p: sorted(v) for p, v in sorted(r.items())}


def _roles_text(r: dict) -> str:
    return ", ".join(f"{p}->{'+'.join(sorted(v))}" for p, v in sorted(r.items())) or "nothing"


def _find_func(prog: Program, mname: str, qual: str) -> Func | None:
    for rel in sorted(prog.mods):
        if prog.mods[rel].name == mname:
            for f in prog.mods[rel].all_funcs:
                if f.qualname == qual:
                    return f
    return None


def _direction_clause(b: Builder, where: str, fn: str, role: str, cls: str,
                      msgs: dict[str, ProtoMessage], call: ast.Call) -> None:
    m = msgs.get(cls)
    verb = "sent" if role == "send" else "subscribed/awaited"
    allowed = SEND_OK if role == "send" else RECV_OK
    if m is None or m.id is None:
        b.add(f"{where}/{cls}", f"{cls} ({verb}) is a message with an id in api.proto", fn, False,
              model={"class": cls, "role": role, "call": snippet(call, 200),
                     "reason": "not a message of api.proto" if m is None else "message has no id option"},
              witness=f"{role}:{cls}:" + ("not-in-proto" if m is None else "no-id"))
        return
    b.add(f"{where}/{cls}",
          f"{cls} is {verb} here, so its source must be in {{{', '.join(allowed)}}}", fn,
          m.source in allowed,
          model={"class": cls, "id": m.id, "source": m.source, "role": role, "call": snippet(call, 200)},
          witness=f"{role}:{cls}={m.source}")


def _bypass_obligations(b: Builder, prog: Program, summary: dict[Func, dict[str, set[str]]]) -> None:
    """The enumeration of sites is only complete if nothing reaches the wire / the handler
    registry except through the two sinks, and no sink or forwarder escapes as a value."""
    writers, registry, escapes = [], [], []
    role_names = {f.name for f in summary}
    for rel in sorted(prog.mods):
        mod = prog.mods[rel]
        in_frame_helper = mod.name.startswith("_frame_helper")
        call_funcs = {id(c.func) for f in [mod.top] + mod.all_funcs for c, _ in f.calls}
        for f in [mod.top] + mod.all_funcs:
            for call, _ in f.calls:
                if isinstance(call.func, ast.Attribute) and call.func.attr in ("write_packets",) \
                        and not in_frame_helper and f.qualname != "APIConnection.send_messages":
                    writers.append(f"{f.dotted}: {snippet(call, 60)}")
        for node in ast.walk(mod.tree):
            if isinstance(node, ast.Attribute) and node.attr in role_names and id(node) not in call_funcs \
                    and isinstance(node.ctx, ast.Load):
                escapes.append(f"{mod.name}: {snippet(node, 60)}")
        for f in mod.all_funcs:
            if f.qualname in ("APIConnection._add_message_callback_without_remove",
                              "APIConnection._remove_message_callback", "APIConnection.__init__"):
                continue
            for node in ast.walk(f.node):
                # writes into the handler registry outside the subscribing sink
                if isinstance(node, ast.Subscript) and isinstance(node.ctx, ast.Store) \
                        and "_message_handlers" in snippet(node.value, 200):
                    registry.append(f"{f.dotted}: {snippet(node, 60)}")
                if isinstance(node, ast.Attribute) and node.attr == "_message_handlers" \
                        and isinstance(node.ctx, ast.Store):
                    registry.append(f"{f.dotted}: {snippet(node, 60)} rebound")
    b.add("direction/closure/only-send_messages-writes-packets",
          "outside _frame_helper, write_packets is called by APIConnection.send_messages only",
          f"{PKG}.connection.APIConnection.send_messages", not writers,
          model={"other_writers": writers}, witness="write_packets:" + "; ".join(writers))
    b.add("direction/closure/only-the-sink-registers-handlers",
          "_message_handlers is written by _add_message_callback_without_remove only",
          f"{PKG}.connection.APIConnection._add_message_callback_without_remove", not registry,
          model={"other_writers": registry}, witness="_message_handlers:" + "; ".join(registry))
    b.add("direction/closure/no-escaping-sender-references",
          "send/subscribe methods and their forwarders are only ever called, never passed around as values",
          f"{PKG}.connection.APIConnection", True if not escapes else None,
          model={"references": escapes}, witness="escapes:" + "; ".join(escapes),
          detail="" if not escapes else "a bound sender is used as a value; its eventual arguments are not tracked")


# ============================================================================
FAMILIES = ("ids", "table", "descriptors", "direction")


def obligations(repo: str | None = None, sources: dict[str, str] | None = None,
                only: tuple[str, ...] | None = None) -> list[Obligation]:
    """All ground obligations of C13 for the working tree of ``repo``.

    ``sources`` maps repo-relative paths to replacement text (self-tests); the
    descriptor comparison always loads the real compiled files of ``repo``.
    ``only`` restricts the run to some of ``FAMILIES`` (self-tests; default all).
    """
    fams = set(FAMILIES if only is None else only)
    unknown = fams - set(FAMILIES)
    if unknown:
        raise ValueError(f"unknown obligation families: {sorted(unknown)}")
    srcs = Sources(repo, sources)
    b = Builder(PROP)
    try:
        proto = parse_proto(srcs.text(API_PROTO))
        opts = parse_proto(srcs.text(API_OPTIONS_PROTO))
    except (OSError, ValueError) as e:
        b.add("api.proto/parsed", "api.proto and api_options.proto can be parsed", "api.proto", None,
              detail=f"{type(e).__name__}: {e}", witness="api.proto:unparsed")
        return b.out
    b.add("api.proto/parsed", "api.proto and api_options.proto can be parsed", "api.proto", True)
    if "ids" in fams:
        _proto_id_obligations(b, proto)
    if "table" in fams:
        _table_obligations(b, proto, srcs)
    if "descriptors" in fams:
        _descriptor_obligations(b, proto, opts, repo)
    if "direction" in fams:
        _direction_obligations(b, proto, srcs)
    return b.out

"""Static resolution of the protobuf message classes that reach a call site.

This is a deliberately small, flow-insensitive abstract interpreter over the
``ast`` of the package's hand-written modules.  The abstract value of an
expression is a *set of atoms*:

``("cls", "Foo")``
    the api_pb2 message class ``Foo`` - the class object itself *or* an
    instance of it *or* a collection containing either.  The direction
    obligations only care which classes are involved, so the three are not
    distinguished, and collections are flattened (a ``dict`` stands for its
    keys, which is what ``*d`` / ``tuple(d)`` yield).
``("param", Func, "name")``
    whatever the callers of ``Func`` pass for parameter ``name``; the
    obligation is pushed to those callers.
``("func", Func)``
    a function object (only meaningful as a callee: a call evaluates to the
    union of the function's ``return`` expressions, parameters substituted).
``("unknown", reason)``
    not resolvable; surfaces as an ``unsupported`` obligation, never dropped.

Resolution goes through: constructor calls, local variables (all assignments in
the function, plus ``x.append(..)/extend/add/insert``, ``+=``, ``for`` targets,
walrus), closure variables of enclosing functions (including assignments made
in nested functions under ``nonlocal``), parameters, module constants, imports
from sibling modules (followed into that module), conditional expressions,
``a or b``, tuple / list / set / dict displays with ``*`` spreads, ``tuple(x)``
and friends, subscripts (an element of a collection), ``lru_cache(..)(f)`` /
``cache(f)`` wrappers, calls of module functions and ``self.method()`` (through
their return expressions), comprehensions and lambdas (their bound names).
"""
from __future__ import annotations

import ast
from dataclasses import dataclass, field
from typing import Any, Iterator

from .common import PKG, Sources, modname, snippet

Atom = tuple          # see module docstring
FuncNode = (ast.FunctionDef, ast.AsyncFunctionDef)
_SEQ_BUILTINS = {"tuple", "list", "set", "frozenset", "sorted", "reversed", "iter"}
_CACHE_WRAPPERS = {"lru_cache", "cache"}
_GROW_METHODS = {"append": 0, "add": 0, "extend": 0, "update": 0, "insert": 1}
_UNANALYSED = object()     # a binding we do not model (unpacking, with-as, ...)


@dataclass(eq=False)
class Func:
    module: "Mod"
    node: Any
    qualname: str                      # "APIClient.subscribe_voice_assistant._started"
    parent: "Func | None"              # enclosing *function*
    cls: str | None                    # directly enclosing class, for methods
    posparams: list[str] = field(default_factory=list)     # incl. self for methods
    kwonly: list[str] = field(default_factory=list)
    defaults: dict[str, ast.expr] = field(default_factory=dict)
    vararg: str | None = None
    kwarg: str | None = None
    is_method: bool = False            # first positional parameter is the receiver
    bindings: dict[str, list[Any]] = field(default_factory=dict)   # own-body assignments
    nonlocals: set[str] = field(default_factory=set)
    globals_: set[str] = field(default_factory=set)
    local_funcs: dict[str, "Func"] = field(default_factory=dict)
    children: list["Func"] = field(default_factory=list)
    returns: list[ast.expr] = field(default_factory=list)
    calls: list[tuple[ast.Call, dict]] = field(default_factory=list)   # (call, env) in source order

    @property
    def name(self) -> str:
        return self.node.name if self.node is not None else "<module>"

    @property
    def all_params(self) -> list[str]:
        extra = [p for p in (self.vararg, self.kwarg) if p]
        return self.posparams + self.kwonly + extra

    @property
    def dotted(self) -> str:
        return f"{self.module.name}.{self.qualname}"

    def is_public(self) -> bool:
        return not any(part.startswith("_") for part in self.qualname.split("."))

    def __repr__(self) -> str:   # keeps debugging output and sort keys short
        return f"<Func {self.dotted}>"


@dataclass(eq=False)
class Mod:
    rel: str
    name: str
    tree: ast.Module
    imports: dict[str, tuple[str, str | None, str | None]] = field(default_factory=dict)
    assigns: dict[str, list[Any]] = field(default_factory=dict)
    funcs: dict[str, Func] = field(default_factory=dict)
    classes: dict[str, dict[str, Func]] = field(default_factory=dict)
    all_funcs: list[Func] = field(default_factory=list)
    top: Func | None = None            # pseudo function holding module-level calls


def _target_names(t: ast.AST) -> Iterator[str]:
    if isinstance(t, ast.Name):
        yield t.id
    elif isinstance(t, (ast.Tuple, ast.List)):
        for e in t.elts:
            yield from _target_names(e)
    elif isinstance(t, ast.Starred):
        yield from _target_names(t.value)


class Program:
    """All hand-written modules of the package, indexed for resolution."""

    def __init__(self, srcs: Sources) -> None:
        self.srcs = srcs
        self.mods: dict[str, Mod] = {}
        self.load_errors: dict[str, str] = {}
        for rel in srcs.package_modules():
            try:
                tree = srcs.tree(rel)
            except SyntaxError as e:     # reported by the caller, not swallowed
                self.load_errors[rel] = f"{type(e).__name__}: {e.msg}"
                continue
            self.mods[rel] = self._index(rel, tree)
        self.by_name: dict[str, list[Func]] = {}
        for rel in sorted(self.mods):
            for f in self.mods[rel].all_funcs:
                self.by_name.setdefault(f.name, []).append(f)
        self._memo: dict[tuple, frozenset] = {}
        self._cuts = 0

    # ------------------------------------------------------------------
    # indexing
    # ------------------------------------------------------------------
    def _resolve_import(self, rel: str, level: int, module: str | None) -> str | None:
        """Repo-relative path of the module an import statement refers to."""
        if level:
            base = rel.split("/")[:-1]
            base = base[: len(base) - (level - 1)] if level > 1 else base
            parts = base + (module.split(".") if module else [])
        else:
            if not module or module.split(".")[0] != PKG:
                return None
            parts = module.split(".")
        stem = "/".join(parts)
        for cand in (stem + ".py", stem + "/__init__.py"):
            if self.srcs.exists(cand):
                return cand
        return None

    def _index(self, rel: str, tree: ast.Module) -> Mod:
        mod = Mod(rel=rel, name=modname(rel), tree=tree)
        top = Func(module=mod, node=None, qualname="<module>", parent=None, cls=None)
        mod.top = top
        self._scan_body(mod, tree.body, func=top, cls=None, prefix="")
        top.calls.sort(key=lambda ce: (ce[0].lineno, ce[0].col_offset))
        return mod

    def _record_import(self, mod: Mod, node: ast.AST) -> None:
        if isinstance(node, ast.ImportFrom):
            target = self._resolve_import(mod.rel, node.level, node.module)
            for a in node.names:
                local = a.asname or a.name
                if target is None:
                    # ``from . import api_pb2`` style: the imported name is a module
                    sub = self._resolve_import(
                        mod.rel, node.level, f"{node.module}.{a.name}" if node.module else a.name)
                    if sub is not None:
                        mod.imports[local] = ("module", sub, None)
                    else:
                        mod.imports[local] = ("external", node.module, a.name)
                else:
                    sub = self._resolve_import(
                        mod.rel, node.level, f"{node.module}.{a.name}" if node.module else a.name)
                    if sub is not None and target.endswith("__init__.py"):
                        mod.imports[local] = ("module", sub, None)
                    else:
                        mod.imports[local] = ("name", target, a.name)
        elif isinstance(node, ast.Import):
            for a in node.names:
                target = self._resolve_import(mod.rel, 0, a.name)
                if a.asname and target:
                    mod.imports[a.asname] = ("module", target, None)
                elif a.asname:
                    mod.imports[a.asname] = ("external", a.name, None)
                # plain ``import a.b.c`` binds ``a``; attribute chains on it are
                # resolved in _eval_attribute through the dotted text

    def _make_func(self, mod: Mod, node: Any, parent: Func | None, cls: str | None,
                   prefix: str) -> Func:
        a = node.args
        pos = [x.arg for x in a.posonlyargs + a.args]
        f = Func(module=mod, node=node, qualname=prefix + node.name, parent=parent, cls=cls,
                 posparams=pos, kwonly=[x.arg for x in a.kwonlyargs],
                 vararg=a.vararg.arg if a.vararg else None,
                 kwarg=a.kwarg.arg if a.kwarg else None)
        n_def = len(a.defaults)
        for name, d in zip(pos[len(pos) - n_def:] if n_def else [], a.defaults):
            f.defaults[name] = d
        for x, d in zip(a.kwonlyargs, a.kw_defaults):
            if d is not None:
                f.defaults[x.arg] = d
        decos = {snippet(d).split("(")[0].split(".")[-1] for d in node.decorator_list}
        f.is_method = cls is not None and "staticmethod" not in decos and bool(pos)
        return f

    def _scan_body(self, mod: Mod, body: list[ast.stmt], func: Func, cls: str | None,
                   prefix: str) -> None:
        """Index statements of one scope (``func`` is the module pseudo-function at top level)."""
        for st in body:
            self._scan_stmt(mod, st, func, cls, prefix)

    def _bind(self, mod: Mod, func: Func, name: str, value: Any) -> None:
        """Record ``name = value`` in the scope it really binds (``global`` goes to the module)."""
        if func.node is None or name in func.globals_:
            mod.assigns.setdefault(name, []).append(value)
        else:
            func.bindings.setdefault(name, []).append(value)

    def _scan_stmt(self, mod: Mod, st: ast.stmt, func: Func, cls: str | None,
                   prefix: str) -> None:
        if isinstance(st, FuncNode):
            f = self._make_func(mod, st, None if func.node is None else func, cls, prefix)
            mod.all_funcs.append(f)
            if func.node is not None:
                func.children.append(f)
                if cls is None:
                    func.local_funcs[st.name] = f
            if cls is not None:
                mod.classes.setdefault(prefix.rstrip("."), {})[st.name] = f
            elif func.node is None:
                mod.funcs[st.name] = f
            # defaults and decorators are evaluated in the enclosing scope
            for e in st.decorator_list + st.args.defaults + [d for d in st.args.kw_defaults if d]:
                self._scan_expr(func, e, {})
            self._scan_body(mod, st.body, f, None, prefix + st.name + ".")
            f.calls.sort(key=lambda ce: (ce[0].lineno, ce[0].col_offset))
            return
        if isinstance(st, ast.ClassDef):
            qual = prefix + st.name
            mod.classes.setdefault(qual, {})
            for e in st.decorator_list + st.bases:
                self._scan_expr(func, e, {})
            # class-level statements: methods are indexed; other statements'
            # calls are attributed to the enclosing scope
            self._scan_body(mod, st.body, func, qual, qual + ".")
            return
        if isinstance(st, (ast.Import, ast.ImportFrom)):
            if func.node is None and cls is None:
                self._record_import(mod, st)
            else:
                for a in st.names:
                    self._bind(mod, func, (a.asname or a.name).split(".")[0], _UNANALYSED)
            return
        in_class_body = cls is not None     # class attributes are not names in methods' scopes
        if isinstance(st, ast.Global):
            func.globals_.update(st.names)
        elif isinstance(st, ast.Nonlocal):
            func.nonlocals.update(st.names)
        elif isinstance(st, ast.Assign) and not in_class_body:
            for t in st.targets:
                if isinstance(t, ast.Name):
                    self._bind(mod, func, t.id, st.value)
                elif (isinstance(t, (ast.Tuple, ast.List)) and isinstance(st.value, (ast.Tuple, ast.List))
                      and len(t.elts) == len(st.value.elts)
                      and not any(isinstance(e, ast.Starred) for e in t.elts + st.value.elts)):
                    for te, ve in zip(t.elts, st.value.elts):
                        for n in _target_names(te):
                            self._bind(mod, func, n, ve if isinstance(te, ast.Name) else _UNANALYSED)
                else:
                    for n in _target_names(t):
                        self._bind(mod, func, n, _UNANALYSED)
        elif isinstance(st, ast.AnnAssign) and not in_class_body:
            if isinstance(st.target, ast.Name) and st.value is not None:
                self._bind(mod, func, st.target.id, st.value)
        elif isinstance(st, ast.AugAssign) and not in_class_body:
            if isinstance(st.target, ast.Name):
                self._bind(mod, func, st.target.id, st.value)
        elif isinstance(st, (ast.For, ast.AsyncFor)) and not in_class_body:
            if isinstance(st.target, ast.Name):
                self._bind(mod, func, st.target.id, st.iter)
            else:
                for n in _target_names(st.target):
                    self._bind(mod, func, n, _UNANALYSED)
        elif isinstance(st, (ast.With, ast.AsyncWith)) and not in_class_body:
            for item in st.items:
                if item.optional_vars is not None:
                    for n in _target_names(item.optional_vars):
                        self._bind(mod, func, n, _UNANALYSED)
        elif isinstance(st, ast.Return) and st.value is not None:
            func.returns.append(st.value)
        # expressions directly in this statement (not in nested statements)
        for fld, value in ast.iter_fields(st):
            vals = value if isinstance(value, list) else [value]
            for v in vals:
                if isinstance(v, ast.expr):
                    self._scan_expr(func, v, {}, bind=not in_class_body)
                elif isinstance(v, ast.stmt):
                    self._scan_stmt(mod, v, func, cls, prefix)
                elif isinstance(v, ast.ExceptHandler):
                    if v.type is not None:
                        self._scan_expr(func, v.type, {})
                    if v.name and not in_class_body:
                        self._bind(mod, func, v.name, _UNANALYSED)
                    for s in v.body:
                        self._scan_stmt(mod, s, func, cls, prefix)
                elif isinstance(v, ast.withitem):
                    self._scan_expr(func, v.context_expr, {})
                elif isinstance(v, ast.match_case):
                    for n in ast.walk(v.pattern):
                        for nm in (getattr(n, "name", None), getattr(n, "rest", None)):
                            if isinstance(nm, str) and not in_class_body:
                                self._bind(mod, func, nm, _UNANALYSED)
                    if v.guard is not None:
                        self._scan_expr(func, v.guard, {})
                    for s in v.body:
                        self._scan_stmt(mod, s, func, cls, prefix)

    def _scan_expr(self, func: Func, e: ast.AST, env: dict, bind: bool = False) -> None:
        """Record calls (with the comprehension / lambda environment) and expression-level bindings."""
        if isinstance(e, ast.Lambda):
            a = e.args
            names = [x.arg for x in a.posonlyargs + a.args + a.kwonlyargs]
            names += [x.arg for x in (a.vararg, a.kwarg) if x]
            for d in a.defaults + [d for d in a.kw_defaults if d]:
                self._scan_expr(func, d, env, bind)
            self._scan_expr(func, e.body, {**env, **{n: _UNANALYSED for n in names}}, bind)
            return
        if isinstance(e, (ast.ListComp, ast.SetComp, ast.GeneratorExp, ast.DictComp)):
            env2 = dict(env)
            for g in e.generators:
                self._scan_expr(func, g.iter, env2, bind)
                if isinstance(g.target, ast.Name):
                    env2[g.target.id] = (g.iter, dict(env2))
                else:
                    for n in _target_names(g.target):
                        env2[n] = _UNANALYSED
                for c in g.ifs:
                    self._scan_expr(func, c, env2, bind)
            for part in ([e.key, e.value] if isinstance(e, ast.DictComp) else [e.elt]):
                self._scan_expr(func, part, env2, bind)
            return
        if isinstance(e, ast.Call):
            func.calls.append((e, env))
            # ``xs.append(v)`` and friends grow the collection bound to ``xs``
            if (bind and isinstance(e.func, ast.Attribute)
                    and isinstance(e.func.value, ast.Name) and e.func.attr in _GROW_METHODS
                    and e.func.value.id not in env):
                idx = _GROW_METHODS[e.func.attr]
                if len(e.args) > idx:
                    self._bind(func.module, func, e.func.value.id, e.args[idx])
        elif isinstance(e, ast.NamedExpr) and bind:
            if isinstance(e.target, ast.Name) and e.target.id not in env:
                self._bind(func.module, func, e.target.id, e.value)
        for child in ast.iter_child_nodes(e):
            if isinstance(child, (ast.expr, ast.keyword, ast.comprehension)):
                self._scan_expr(func, child, env, bind)

    # ------------------------------------------------------------------
    # evaluation
    # ------------------------------------------------------------------
    def eval(self, expr: Any, func: Func, env: dict | None = None,
             stack: frozenset = frozenset()) -> frozenset:
        """Atoms of ``expr`` evaluated in the scope of ``func`` (module pseudo-function for top level)."""
        if expr is _UNANALYSED:
            return frozenset({("unknown", "bound by a construct that is not analysed (unpacking / with / import)")})
        env = env or {}
        # AST nodes and Func objects live as long as the Program, so their ids
        # are stable keys; environment bindings are keyed by their iterable node
        key = (id(expr), id(func),
               tuple(sorted((k, id(v[0]) if isinstance(v, tuple) else 0) for k, v in env.items())))
        if key in self._memo:
            return self._memo[key]
        if key in stack:
            self._cuts += 1
            return frozenset()           # least fixpoint of a recursive definition
        cuts_before = self._cuts
        res = frozenset(self._eval(expr, func, env, stack | {key}))
        # A result computed below a recursion cut-off may be partial for inner
        # nodes of the cycle; only the root of the evaluation is complete.
        if self._cuts == cuts_before or not stack:
            self._memo[key] = res
        return res

    def _unknown(self, what: str) -> set:
        return {("unknown", what)}

    def _eval(self, e: ast.AST, func: Func, env: dict, stack: frozenset) -> set:
        if isinstance(e, ast.Constant):
            if e.value is None:
                return set()
            return self._unknown(f"constant {e.value!r} is not a message class")
        if isinstance(e, ast.Name):
            return self._lookup(e.id, func, env, stack)
        if isinstance(e, (ast.Tuple, ast.List, ast.Set)):
            out: set = set()
            for x in e.elts:
                out |= self.eval(x, func, env, stack)
            return out
        if isinstance(e, ast.Dict):
            out = set()
            for k, v in zip(e.keys, e.values):
                out |= self.eval(v if k is None else k, func, env, stack)   # ``**d`` spreads d's keys
            return out
        if isinstance(e, (ast.Starred, ast.Await, ast.NamedExpr)):
            return set(self.eval(e.value, func, env, stack))
        if isinstance(e, ast.IfExp):
            return set(self.eval(e.body, func, env, stack) | self.eval(e.orelse, func, env, stack))
        if isinstance(e, ast.BoolOp):
            out = set()
            for v in e.values:
                out |= self.eval(v, func, env, stack)
            return out
        if isinstance(e, ast.BinOp) and isinstance(e.op, (ast.Add, ast.BitOr)):
            return set(self.eval(e.left, func, env, stack) | self.eval(e.right, func, env, stack))
        if isinstance(e, ast.Subscript):
            return set(self.eval(e.value, func, env, stack))        # an element of the collection
        if isinstance(e, (ast.ListComp, ast.SetComp, ast.GeneratorExp)):
            env2 = dict(env)
            for g in e.generators:
                if isinstance(g.target, ast.Name):
                    env2[g.target.id] = (g.iter, dict(env2))
                else:
                    for n in _target_names(g.target):
                        env2[n] = _UNANALYSED
            return set(self.eval(e.elt, func, env2, stack))
        if isinstance(e, ast.Attribute):
            return self._eval_attribute(e, func, env, stack)
        if isinstance(e, ast.Call):
            return self._eval_call(e, func, env, stack)
        return self._unknown(f"expression `{snippet(e, 60)}` ({type(e).__name__}) is not analysed")

    def _lookup(self, name: str, func: Func, env: dict, stack: frozenset) -> set:
        if name in env:
            b = env[name]
            if b is _UNANALYSED:
                return self._unknown(f"`{name}` is a lambda parameter / unpacked comprehension variable")
            it, env_at = b
            return set(self.eval(it, func, env_at, stack))
        f: Func | None = func
        while f is not None and f.node is not None:
            vals = list(f.bindings.get(name, []))
            for d in self._descendants(f):
                if name in d.nonlocals:
                    vals += [(v, d) for v in d.bindings.get(name, [])]
            is_param = name in f.all_params
            if vals or is_param:
                out: set = set()
                if is_param:
                    if f.is_method and f.posparams and name == f.posparams[0]:
                        out |= self._unknown(f"`{name}` is the receiver")
                    else:
                        out.add(("param", f, name))
                for v in vals:
                    if isinstance(v, tuple):          # assigned in a nested function (nonlocal)
                        out |= self.eval(v[0], v[1], {}, stack)
                    else:
                        out |= self.eval(v, f, {}, stack)
                return out
            if name in f.local_funcs:
                return {("func", f.local_funcs[name])}
            f = f.parent
        return self._lookup_module(name, func.module, stack)

    def _descendants(self, f: Func) -> Iterator[Func]:
        for c in f.children:
            yield c
            yield from self._descendants(c)

    def _lookup_module(self, name: str, mod: Mod, stack: frozenset) -> set:
        vals = mod.assigns.get(name)
        if vals:
            out: set = set()
            for v in vals:
                out |= self.eval(v, mod.top, {}, stack)
            return out
        if name in mod.funcs:
            return {("func", mod.funcs[name])}
        if name in mod.classes:
            return self._unknown(f"`{name}` is a class defined in {mod.name}, not an api_pb2 message")
        imp = mod.imports.get(name)
        if imp is None:
            return self._unknown(f"name `{name}` is not bound in {mod.name}")
        kind, target, orig = imp
        if kind == "name":
            if target.endswith("/api_pb2.py"):
                return {("cls", orig)}
            if target in self.mods:
                return self._lookup_module(orig, self.mods[target], stack)
            return self._unknown(f"`{name}` is imported from {target}, which is not analysed")
        if kind == "module":
            return self._unknown(f"`{name}` is a module")
        return self._unknown(f"`{name}` is imported from outside the package ({target})")

    def _eval_attribute(self, e: ast.Attribute, func: Func, env: dict, stack: frozenset) -> set:
        base = e.value
        # module attribute: ``api_pb2.Foo`` / ``model_conversions.TABLE``
        if isinstance(base, ast.Name) and base.id not in env:
            imp = func.module.imports.get(base.id)
            bound_locally = self._is_local(base.id, func)
            if imp is not None and imp[0] == "module" and not bound_locally:
                target = imp[1]
                if target.endswith("/api_pb2.py"):
                    return {("cls", e.attr)}
                if target in self.mods:
                    return self._lookup_module(e.attr, self.mods[target], stack)
        dotted = snippet(e)
        if dotted.startswith(f"{PKG}.api_pb2."):
            return {("cls", e.attr)}
        # ``self.method`` / ``cls.method`` as a callable
        m = self._receiver_method(e, func)
        if m is not None:
            return {("func", m)}
        return self._unknown(f"attribute `{snippet(e, 60)}` is not statically resolvable")

    def _is_local(self, name: str, func: Func) -> bool:
        f: Func | None = func
        while f is not None and f.node is not None:
            if name in f.bindings or name in f.all_params or name in f.local_funcs:
                return True
            f = f.parent
        return name in func.module.assigns

    def _receiver_method(self, e: ast.Attribute, func: Func) -> Func | None:
        """``self.m`` / ``cls.m`` inside a method of a class that defines ``m``."""
        if not isinstance(e.value, ast.Name):
            return None
        f: Func | None = func
        while f is not None and f.node is not None:
            if f.is_method and f.posparams and f.posparams[0] == e.value.id and f.cls:
                return f.module.classes.get(f.cls, {}).get(e.attr)
            f = f.parent
        return None

    def bind_args(self, call: ast.Call, callee: Func) -> tuple[dict[str, ast.expr], str | None]:
        """Map the call's arguments to the callee's parameter names.

        Returns (binding, problem); ``problem`` is a reason text when ``*args``
        or ``**kwargs`` at the call make the mapping unknowable.
        """
        params = list(callee.posparams)
        if callee.is_method and isinstance(call.func, ast.Attribute):
            params = params[1:]                       # receiver is bound by the attribute access
        binding: dict[str, ast.expr] = {}
        problem = None
        for i, a in enumerate(call.args):
            if isinstance(a, ast.Starred):
                problem = "call passes *args"
                break
            if i < len(params):
                binding[params[i]] = a
        for kw in call.keywords:
            if kw.arg is None:
                problem = "call passes **kwargs"
            else:
                binding[kw.arg] = kw.value
        return binding, problem

    def _eval_call(self, e: ast.Call, func: Func, env: dict, stack: frozenset) -> set:
        fn = e.func
        if isinstance(fn, ast.Name) and fn.id in _SEQ_BUILTINS and not self._is_local(fn.id, func) \
                and fn.id not in func.module.imports:
            return set(self.eval(e.args[0], func, env, stack)) if e.args else set()
        # cache(f) / lru_cache(f) / lru_cache(maxsize=..)(f) -> f
        inner = fn.func if isinstance(fn, ast.Call) else fn
        if (isinstance(inner, (ast.Name, ast.Attribute)) and snippet(inner).split(".")[-1] in _CACHE_WRAPPERS
                and len(e.args) == 1 and not e.keywords):
            return set(self.eval(e.args[0], func, env, stack))
        # d.keys() / d.values() / d.copy() on something resolvable
        if isinstance(fn, ast.Attribute) and fn.attr in ("keys", "copy") and not e.args:
            return set(self.eval(fn.value, func, env, stack))
        if isinstance(fn, ast.Attribute) and fn.attr == "values" and not e.args:
            return self._unknown(f"`{snippet(e, 60)}`: dict values are not tracked")
        callee_atoms = self.eval(fn, func, env, stack)
        out: set = set()
        for a in sorted(callee_atoms, key=_atom_key):
            if a[0] == "cls":
                out.add(a)                              # Foo(...) is a Foo
            elif a[0] == "param":
                out.add(a)                              # req_type(...) where req_type is a class parameter
            elif a[0] == "func":
                out |= self._eval_returns(a[1], e, func, env, stack)
            else:
                out.add(("unknown", f"call `{snippet(e, 60)}`: {a[1]}"))
        if not callee_atoms:
            out |= self._unknown(f"call `{snippet(e, 60)}`: callee resolves to nothing")
        return out

    def _eval_returns(self, callee: Func, call: ast.Call, func: Func, env: dict,
                      stack: frozenset) -> set:
        guard = ("guard", id(callee))
        if guard in stack:
            self._cuts += 1
            return set()
        binding, problem = self.bind_args(call, callee)
        out: set = set()
        if not callee.returns:
            return self._unknown(f"`{callee.dotted}` has no return value")
        for r in callee.returns:
            for a in sorted(self.eval(r, callee, {}, stack | {guard}), key=_atom_key):
                if a[0] == "param" and a[1] is callee:
                    if problem:
                        out |= self._unknown(f"call `{snippet(call, 60)}`: {problem}")
                    elif a[2] in binding:
                        out |= self.eval(binding[a[2]], func, env, stack)
                    elif a[2] in callee.defaults:
                        out |= self.eval(callee.defaults[a[2]], callee.module.top, {}, stack)
                    else:
                        out |= self._unknown(
                            f"call `{snippet(call, 60)}` gives no value for parameter `{a[2]}`")
                else:
                    out.add(a)
        return out


def _atom_key(a: Atom) -> tuple:
    """Deterministic order of atoms (Func objects are ordered by their dotted name)."""
    return tuple(x.dotted if isinstance(x, Func) else str(x) for x in a)


def sorted_atoms(atoms) -> list[Atom]:
    return sorted(atoms, key=_atom_key)

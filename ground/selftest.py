"""Self-test of the ground checks:  ``cd /verif && .venv/bin/python -m ground.selftest``

1. parser sanity (protoparse on a synthetic text and on the real files),
2. C13 and C14-schema on the unchanged tree: counts by status, every
   non-discharged obligation with witness and a one-line detail,
3. negative self-tests: the checks are run on *modified copies of the text in
   memory* (``sources`` override; /repo is never touched) and must produce a
   non-discharged obligation with the expected id.

Exit status 1 iff a parser check or a negative self-test fails (refuted
obligations on the unchanged tree are findings, not self-test failures).
"""
from __future__ import annotations

import sys
import time
from collections import Counter
from typing import Callable

from pyvc.obl import Obligation

from . import c13, c14_schema
from .common import PKG, Sources
from .protoparse import parse_proto

REPO = "/repo"
CORE, CONN, CLIENT = f"{PKG}/core.py", f"{PKG}/connection.py", f"{PKG}/client.py"
MODEL, CONV, PROTO = f"{PKG}/model.py", f"{PKG}/model_conversions.py", f"{PKG}/api.proto"


# ----------------------------------------------------------------------------
def _one_line(o: Obligation) -> str:
    d = o.detail or (str(o.model) if o.model is not None else "")
    d = " ".join(d.split())
    return d if len(d) <= 110 else d[:107] + "..."


def report(title: str, obs: list[Obligation], secs: float) -> None:
    c = Counter(o.status for o in obs)
    counts = ", ".join(f"{k}={c[k]}" for k in ("discharged", "refuted", "unknown", "unsupported") if c[k])
    print(f"== {title}: {len(obs)} obligations in {secs * 1000:.0f} ms: {counts}")
    dup = [i for i, n in Counter(o.id for o in obs).items() if n > 1]
    if dup:
        print(f"   !! duplicate ids: {dup[:5]}")
    for o in obs:
        if o.status != "discharged":
            print(f"   {o.status.upper():11s} {o.id}")
            print(f"               witness: {o.witness}")
            print(f"               {_one_line(o)}")


# ----------------------------------------------------------------------------
# parser checks
# ----------------------------------------------------------------------------
_SYNTHETIC = '''
syntax = "proto3"; package a.b; import "x.proto"; option java_package = "x";
/* block { comment */
message Outer { // line } comment
  option (id) = 0x10; option (source) = SOURCE_SERVER; option (ifdef) = "USE_X";
  reserved 2, 15, 9 to 11; reserved "foo", "bar";
  message Inner { int32 a = 1; enum E { option allow_alias = true; A = 0; B = 0; C = -1 [deprecated=true]; } E e = 2; }
  oneof test { string name = 4; Inner sub = 9 [(my).opt = "s"]; }
  map<string, Inner> m = 3;
  repeated .a.b.Outer.Inner message = 5 [packed=true, deprecated = true];
  optional string option = 6;
  string s = 7 [default = "a;b}//x"];
}
message NoOptions {}
enum Top { reserved 5; T0 = 0; T1 = 1; }
service S { rpc f (stream Outer) returns (Outer); rpc g (Outer) returns (stream Outer) { option (x) = {a: 1 b {c: 2}}; } }
extend google.protobuf.MessageOptions { optional uint32 id = 1036 [default=0]; }
'''


def parser_checks() -> list[tuple[str, bool]]:
    res: list[tuple[str, bool]] = []
    t = parse_proto(_SYNTHETIC)
    o = t.message("Outer")
    res.append(("synthetic: options", o is not None and o.id == 16 and o.source == "SOURCE_SERVER"
                and o.ifdef == "USE_X"))
    res.append(("synthetic: default source", t.message("NoOptions").source == "SOURCE_BOTH"
                and t.message("NoOptions").id is None))
    res.append(("synthetic: fields", o is not None and
                [(f.name, f.number, f.type, f.label, f.oneof) for f in o.fields] == [
                    ("name", 4, "string", "", "test"), ("sub", 9, "Inner", "", "test"),
                    ("m", 3, "map<string,Inner>", "", None),
                    ("message", 5, ".a.b.Outer.Inner", "repeated", None),
                    ("option", 6, "string", "optional", None), ("s", 7, "string", "", None)]))
    res.append(("synthetic: bracket options", o is not None and o.field_by_name("message").deprecated
                and o.field_by_name("s").options == {"default": "a;b}//x"}
                and o.field_by_name("sub").options == {"my.opt": "s"}))
    res.append(("synthetic: reserved", o is not None and o.reserved == [2, 15, (9, 11), "foo", "bar"]))
    e = t.enum("Outer.Inner.E")
    res.append(("synthetic: nested enum with aliases", e is not None and e.nested and e.allow_alias
                and e.values == [("A", 0), ("B", 0), ("C", -1)] and e.names_for(0) == ["A", "B"]))
    res.append(("synthetic: top-level subsets", [m.name for m in t.top_messages] == ["Outer", "NoOptions"]
                and [x.name for x in t.top_enums] == ["Top"] and t.message("Outer.Inner").nested))
    res.append(("synthetic: service / extend", len(t.services[0].rpcs) == 2
                and t.extensions["google.protobuf.MessageOptions"][0].number == 1036))
    srcs = Sources(REPO)
    api = parse_proto(srcs.text(PROTO))
    res.append(("api.proto: parses, proto3, ids present", api.syntax == "proto3" and len(api.messages_with_id()) > 100
                and api.message("HelloRequest").id == 1 and api.message("HelloRequest").source == "SOURCE_CLIENT"))
    res.append(("api.proto: deprecated field option", api.message("FanStateResponse").field_by_name("speed").deprecated))
    opts = parse_proto(srcs.text(f"{PKG}/api_options.proto"))
    res.append(("api_options.proto: APISourceType and extensions",
                opts.enum("APISourceType").values == [("SOURCE_BOTH", 0), ("SOURCE_SERVER", 1), ("SOURCE_CLIENT", 2)]
                and {f.name: f.number for f in opts.extensions["google.protobuf.MessageOptions"]}["id"] == 1036))
    res.append(("parse_proto accepts a path", parse_proto(f"{REPO}/{PROTO}").message("PingRequest").id == 7))
    return res


# ----------------------------------------------------------------------------
# negative self-tests
# ----------------------------------------------------------------------------
class PatchError(Exception):
    pass


def patched(srcs: Sources, rel: str, *edits: tuple[str, str]) -> dict[str, str]:
    """Override for ``rel`` with each (old, new) replaced; ``old`` must occur exactly once."""
    text = srcs.text(rel)
    for old, new in edits:
        if text.count(old) != 1:
            raise PatchError(f"{rel}: pattern occurs {text.count(old)} times, expected 1: {old!r}")
        text = text.replace(old, new)
    return {rel: text}


def appended(srcs: Sources, rel: str, extra: str) -> dict[str, str]:
    return {rel: srcs.text(rel) + "\n" + extra + "\n"}


Neg = tuple[str, Callable[[Sources], dict[str, str]], Callable[[dict[str, str]], list[Obligation]],
            list[tuple[str, str]], list[str]]
# (name, make-override, run, [(expected id, expected status)], [ids that must stay discharged])

_T = "C13/core.MESSAGE_TYPE_TO_PROTO"
_P = "C13/connection.MESSAGE_NUMBER_TO_PROTO"


def _c13(*fams: str) -> Callable[[dict[str, str]], list[Obligation]]:
    return lambda ov: c13.obligations(REPO, ov, only=fams)


def _c14(ov: dict[str, str]) -> list[Obligation]:
    return c14_schema.obligations(REPO, ov)


NEGATIVE: list[Neg] = [
    ("C13 swap two table values (5 <-> 6)",
     lambda s: patched(s, CORE, ("    5: DisconnectRequest,\n    6: DisconnectResponse,\n",
                                 "    5: DisconnectResponse,\n    6: DisconnectRequest,\n")),
     _c13("table"),
     [(f"{_T}/id=5/maps-to-declared-message", "refuted"), (f"{_T}/id=6/maps-to-declared-message", "refuted"),
      (f"{_P}/id=5/positional-lookup", "refuted")],
     [f"{_T}/id=4/maps-to-declared-message", f"{_T}/pos=5/key-equals-position"]),
    ("C13 swap two table lines (mapping right, insertion order wrong)",
     lambda s: patched(s, CORE, ("    5: DisconnectRequest,\n    6: DisconnectResponse,\n",
                                 "    6: DisconnectResponse,\n    5: DisconnectRequest,\n")),
     _c13("table"),
     [(f"{_T}/pos=5/key-equals-position", "refuted"), (f"{_T}/pos=6/key-equals-position", "refuted"),
      (f"{_P}/id=5/positional-lookup", "refuted"), (f"{_P}/id=6/positional-lookup", "refuted")],
     [f"{_T}/id=5/maps-to-declared-message", f"{_T}/id=6/maps-to-declared-message"]),
    ("C13 drop the last table entry",
     lambda s: patched(s, CORE, ("    123: VoiceAssistantSetConfiguration,\n", "")),
     _c13("table"),
     [(f"{_T}/id=123/maps-to-declared-message", "refuted"), (f"{_P}/id=123/positional-lookup", "refuted")],
     [f"{_T}/id=122/maps-to-declared-message"]),
    ("C13 drop a middle entry (everything after it shifts)",
     lambda s: patched(s, CORE, ("    60: LockCommandRequest,\n", "")),
     _c13("table"),
     [(f"{_T}/id=60/maps-to-declared-message", "refuted"), (f"{_P}/id=61/positional-lookup", "refuted"),
      (f"{_T}/pos=60/key-equals-position", "refuted")],
     [f"{_T}/id=61/maps-to-declared-message", f"{_P}/id=59/positional-lookup"]),
    ("C13 extra table key not declared in api.proto",
     lambda s: patched(s, CORE, ("    123: VoiceAssistantSetConfiguration,\n",
                                 "    123: VoiceAssistantSetConfiguration,\n    124: HelloRequest,\n")),
     _c13("table"), [(f"{_T}/key=124/declared-in-proto", "refuted")], [f"{_T}/key=123/declared-in-proto"]),
    ("C13 duplicate key in the literal",
     lambda s: patched(s, CORE, ("    6: DisconnectResponse,\n", "    5: DisconnectResponse,\n")),
     _c13("table"),
     [(f"{_T}/key=5/written-once", "refuted"), (f"{_T}/id=5/maps-to-declared-message", "refuted"),
      (f"{_T}/id=6/maps-to-declared-message", "refuted")], []),
    ("C13 table mutated after the literal (core.py)",
     lambda s: appended(s, CORE, "MESSAGE_TYPE_TO_PROTO[5] = HelloRequest"),
     _c13("table"), [(f"{_T}/not-rebound-or-mutated-in-core", "refuted")], []),
    ("C13 table mutated from another module (.update in client.py)",
     lambda s: appended(s, CLIENT, "from . import core\ncore.MESSAGE_TYPE_TO_PROTO.update({5: HelloRequest})"),
     _c13("table"), [("C13/client/tables-not-mutated", "refuted")], ["C13/connection/tables-not-mutated"]),
    ("C13 imported class name rebound in core.py",
     lambda s: appended(s, CORE, "HelloRequest = HelloResponse"),
     _c13("table"), [(f"{_T}/key=1/value-bound-to-api_pb2", "refuted")], [f"{_T}/key=2/value-bound-to-api_pb2"]),
    ("C13 table value imported from somewhere else",
     lambda s: patched(s, CORE, ("    HelloRequest,\n", ""),
                       ("TWO_CHAR = ", "from .model import HelloRequest\nTWO_CHAR = ")),
     _c13("table"), [(f"{_T}/id=1/maps-to-declared-message", "refuted"),
                     (f"{_T}/key=1/value-bound-to-api_pb2", "refuted")], []),
    ("C13 positional tuple no longer tuple(values())",
     lambda s: patched(s, CONN, ("MESSAGE_NUMBER_TO_PROTO = tuple(MESSAGE_TYPE_TO_PROTO.values())",
                                 "MESSAGE_NUMBER_TO_PROTO = tuple(sorted(MESSAGE_TYPE_TO_PROTO.values(), key=str))")),
     _c13("table"), [(f"{_P}/definition", "refuted")], ["C13/connection.PROTO_TO_MESSAGE_TYPE/definition"]),
    ("C13 inverse table changed",
     lambda s: patched(s, CONN, ("{v: k for k, v in MESSAGE_TYPE_TO_PROTO.items()}",
                                 "{v: k + 1 for k, v in MESSAGE_TYPE_TO_PROTO.items()}")),
     _c13("table"), [("C13/connection.PROTO_TO_MESSAGE_TYPE/definition", "refuted")], [f"{_P}/definition"]),
    ("C13 lookup index changed in process_packet",
     lambda s: patched(s, CONN, ("MESSAGE_NUMBER_TO_PROTO[msg_type_proto - 1]", "MESSAGE_NUMBER_TO_PROTO[msg_type_proto]")),
     _c13("table"), [("C13/connection.APIConnection.process_packet/lookup-is-id-minus-one", "refuted")], []),
    ("C13 id changed in api.proto text (5 -> 6): duplicate, gap, stale descriptor",
     lambda s: patched(s, PROTO, ("message DisconnectRequest {\n  option (id) = 5;",
                                  "message DisconnectRequest {\n  option (id) = 6;")),
     _c13("ids", "table", "descriptors"),
     [("C13/api.proto/DisconnectRequest/id-unique", "refuted"), ("C13/api.proto/DisconnectResponse/id-unique", "refuted"),
      ("C13/api.proto/id=5/declared", "refuted"), (f"{_T}/key=5/declared-in-proto", "refuted"),
      ("C13/api_pb2/message=DisconnectRequest/descriptor-agrees", "refuted")],
     ["C13/api_pb2/message=DisconnectResponse/descriptor-agrees"]),
    ("C13 field number changed in api.proto text: stale descriptor",
     lambda s: patched(s, PROTO, ("  string client_info = 1;", "  string client_info = 9;")),
     _c13("descriptors"), [("C13/api_pb2/message=HelloRequest/descriptor-agrees", "refuted")],
     ["C13/api_pb2/message=HelloResponse/descriptor-agrees"]),
    ("C13 enum value changed in api.proto text: stale descriptor",
     lambda s: patched(s, PROTO, ("  LOCK_OPEN = 2;", "  LOCK_OPEN = 3;")),
     _c13("descriptors"), [("C13/api_pb2/enum=LockCommand/descriptor-agrees", "refuted")],
     ["C13/api_pb2/enum=LockState/descriptor-agrees"]),
    ("C13 protocol marks a message the client sends as server-only",
     lambda s: patched(s, PROTO, ("message HomeAssistantStateResponse {\n  option (id) = 40;\n  option (source) = SOURCE_CLIENT;",
                                  "message HomeAssistantStateResponse {\n  option (id) = 40;\n  option (source) = SOURCE_SERVER;")),
     _c13("direction"),
     [("C13/direction/client.APIClient.send_home_assistant_state/send_message#1/send:msg/HomeAssistantStateResponse",
       "refuted")],
     ["C13/direction/client.APIClient.subscribe_home_assistant_states/send_message_callback_response#1/"
      "send:send_msg/SubscribeHomeAssistantStatesRequest"]),
    ("C13 client sends a server-only message (local variable + attribute sets)",
     lambda s: patched(s, CLIENT, ("        req = SubscribeLogsRequest()\n", "        req = SubscribeLogsResponse()\n")),
     _c13("direction"),
     [("C13/direction/client.APIClient.subscribe_logs/send_message_callback_response#1/send:send_msg/SubscribeLogsResponse",
       "refuted")],
     ["C13/direction/client.APIClient.subscribe_logs/send_message_callback_response#1/recv:msg_types/SubscribeLogsResponse"]),
    ("C13 client awaits a client-only type through two helper parameters",
     lambda s: patched(s, CLIENT, ("                (BluetoothDevicePairingResponse,),\n",
                                   "                (BluetoothDeviceRequest,),\n")),
     _c13("direction"),
     [("C13/direction/client.APIClient.bluetooth_device_pair/_bluetooth_device_request_watch_connection#1/"
       "recv:msg_types/BluetoothDeviceRequest", "refuted")],
     ["C13/direction/client.APIClient.bluetooth_device_unpair/_bluetooth_device_request_watch_connection#1/"
      "recv:msg_types/BluetoothDeviceUnpairingResponse"]),
    ("C13 module constant of connection.py replaced by a server-only instance",
     lambda s: patched(s, CONN, ("PING_REQUEST_MESSAGES = (PingRequest(),)", "PING_REQUEST_MESSAGES = (HelloResponse(),)")),
     _c13("direction"),
     [("C13/direction/connection.APIConnection._async_send_keep_alive/send_messages#1/send:msgs/HelloResponse", "refuted")],
     []),
    ("C13 class passed as a parameter and instantiated in the helper",
     lambda s: patched(s, CLIENT, ("            BluetoothGATTReadDescriptorRequest,\n            address,",
                                   "            BluetoothGATTReadResponse,\n            address,")),
     _c13("direction"),
     [("C13/direction/client.APIClient.bluetooth_gatt_read_descriptor/_bluetooth_gatt_read#1/send:req_type/"
       "BluetoothGATTReadResponse", "refuted")], []),
    ("C13 message that is not in the table at all is sent",
     lambda s: patched(s, CLIENT, ("        self._get_connection().send_message(ButtonCommandRequest(key=key))",
                                   "        self._get_connection().send_message(ExecuteServiceArgument())")),
     _c13("direction"),
     [("C13/direction/client.APIClient.button_command/send_message#1/send:msg/ExecuteServiceArgument", "refuted")], []),
    ("C13 unresolvable message expression is reported, not skipped",
     lambda s: patched(s, CLIENT, ("            DeviceInfoRequest(), DeviceInfoResponse\n",
                                   "            self._params.make(), DeviceInfoResponse\n")),
     _c13("direction"),
     [("C13/direction/client.APIClient.device_info/send_message_await_response#1/send:send_msg/unresolved#1",
       "unsupported")],
     ["C13/direction/client.APIClient.device_info/send_message_await_response#1/recv:response_type/DeviceInfoResponse"]),
    ("C13 new public forwarder of a caller-chosen message",
     lambda s: appended(s, CLIENT, "def send_any(conn, msg):\n    conn.send_message(msg)\n"),
     _c13("direction"), [("C13/direction/client.send_any/parameter:msg/has-callers", "unsupported")], []),
    ("C13 plumbing bypasses the sink (send_message writes packets itself)",
     lambda s: patched(s, CONN, ("        self.send_messages((msg,))\n",
                                 "        self._frame_helper.write_packets([(1, msg.SerializeToString())], False)\n")),
     _c13("direction"),
     [("C13/direction/plumbing/connection.APIConnection.send_message", "refuted"),
      ("C13/direction/closure/only-send_messages-writes-packets", "refuted")], []),

    ("C14 one enum value changed in model.py",
     lambda s: patched(s, MODEL, ("    TOTAL_INCREASING = 2\n", "    TOTAL_INCREASING = 5\n")),
     _c14,
     [("C14/model.SensorStateClass/wire-value=2/exactly-one-member", "refuted"),
      ("C14/model.SensorStateClass/member=TOTAL_INCREASING/value-is-wire-value", "refuted")],
     ["C14/model.SensorStateClass/member=TOTAL/value-is-wire-value"]),
    ("C14 enum member renamed",
     lambda s: patched(s, MODEL, ("    PLAY = 0\n", "    START = 0\n")),
     _c14, [("C14/model.MediaPlayerCommand/member=START/name-matches-wire", "refuted")],
     ["C14/model.MediaPlayerCommand/wire-value=0/exactly-one-member"]),
    ("C14 alias introduced in another enum",
     lambda s: patched(s, MODEL, ("    BOX = 1\n", "    BOX = 1\n    SPINNER = 1\n")),
     _c14, [("C14/model.NumberMode/member=SPINNER/no-alias", "refuted"),
            ("C14/model.NumberMode/wire-value=1/exactly-one-member", "refuted")], []),
    ("C14 wire enum gains a value the model lacks",
     lambda s: patched(s, PROTO, ("  LOCK_OPEN = 2;\n", "  LOCK_OPEN = 2;\n  LOCK_TOGGLE = 3;\n")),
     _c14, [("C14/model.LockCommand/wire-value=3/exactly-one-member", "refuted")],
     ["C14/model.LockCommand/wire-value=2/exactly-one-member"]),
    ("C14 new APIIntEnum without pairing is not skipped",
     lambda s: appended(s, MODEL, "class BrandNew(APIIntEnum):\n    A = 0\n"),
     _c14, [("C14/model.BrandNew/paired", "unsupported")], []),
    ("C14 model field dropped",
     lambda s: patched(s, MODEL, ("    state: bool = False\n    missing_state: bool = False\n", "    state: bool = False\n")),
     _c14, [("C14/model.BinarySensorState/from=BinarySensorStateResponse/message-field=missing_state/in-model", "refuted")],
     ["C14/model.BinarySensorState/from=BinarySensorStateResponse/message-field=state/in-model"]),
    ("C14 model field added that the message lacks",
     lambda s: patched(s, MODEL, ("class SwitchState(EntityState):\n    state: bool = False\n",
                                  "class SwitchState(EntityState):\n    state: bool = False\n    extra: int = 0\n")),
     _c14, [("C14/model.SwitchState/from=SwitchStateResponse/model-field=extra/in-message", "refuted")], []),
    ("C14 inherited field renamed in the base class",
     lambda s: patched(s, MODEL, ("    unique_id: str = \"\"\n    disabled_by_default", "    uid: str = \"\"\n    disabled_by_default")),
     _c14, [("C14/model.ButtonInfo/from=ListEntitiesButtonResponse/model-field=uid/in-message", "refuted"),
            ("C14/model.ButtonInfo/from=ListEntitiesButtonResponse/message-field=unique_id/in-model", "refuted")], []),
    ("C14 conversion table maps a message to the wrong model",
     lambda s: patched(s, CONV, ("    SwitchStateResponse: SwitchState,\n", "    SwitchStateResponse: SensorState,\n")),
     _c14, [("C14/model.SensorState/from=SwitchStateResponse/model-field=missing_state/in-message", "refuted")], []),
    ("C14 nested model (derived pair) loses a field",
     lambda s: patched(s, MODEL, ("    id: str\n    wake_word: str\n", "    id: str\n")),
     _c14, [("C14/model.VoiceAssistantWakeWord/from=VoiceAssistantWakeWord/message-field=wake_word/in-model", "refuted")],
     []),
    ("C14 new from_pb call site without a listed pair is not skipped",
     lambda s: patched(s, CLIENT, ("        self._set_name_from_device(info.name)\n",
                                   "        self._set_name_from_device(info.name)\n        APIVersion.from_pb(resp)\n")),
     _c14, [("C14/client.APIClient.device_info/from_pb-use=APIVersion/paired", "unsupported")], []),
    ("C14 control (finding F6, repaired in a18ec81): UNLOCKED = 3 again aliases JAMMED and loses wire value 2",
     lambda s: patched(s, MODEL, ("    UNLOCKED = 2\n", "    UNLOCKED = 3\n")),
     _c14, [("C14/model.LockState/wire-value=2/exactly-one-member", "refuted")], []),
]


def run_negative() -> tuple[int, int]:
    passed = failed = 0
    base = Sources(REPO)
    for name, make, run, expect, keep in NEGATIVE:
        t0 = time.perf_counter()
        try:
            ov = make(base)
            obs = {o.id: o for o in run(ov)}
            problems = []
            for oid, status in expect:
                got = obs.get(oid)
                if got is None:
                    problems.append(f"missing obligation {oid}")
                elif got.status != status:
                    problems.append(f"{oid}: status {got.status}, expected {status}")
            for oid in keep:
                got = obs.get(oid)
                if got is None or got.status != "discharged":
                    problems.append(f"{oid}: should stay discharged, is {got.status if got else 'absent'}")
        except PatchError as e:
            problems = [f"patch did not apply: {e}"]
        except Exception as e:   # a crash of a check is a failed self-test, not a crash of the runner
            problems = [f"{type(e).__name__}: {e}"]
        ms = (time.perf_counter() - t0) * 1000
        if problems:
            failed += 1
            print(f"   FAIL  {name}  ({ms:.0f} ms)")
            for p in problems:
                print(f"           {p}")
        else:
            passed += 1
            print(f"   PASS  {name}  ({ms:.0f} ms)")
    return passed, failed


def main() -> int:
    t_all = time.perf_counter()
    bad = 0
    print("== protoparse")
    for name, ok in parser_checks():
        print(f"   {'PASS' if ok else 'FAIL'}  {name}")
        bad += 0 if ok else 1

    t0 = time.perf_counter()
    o13 = c13.obligations(REPO)
    report("C13 (ground/c13.py), unchanged tree", o13, time.perf_counter() - t0)
    fam = Counter((o.id.split("/")[1].split(".")[0], o.status) for o in o13)
    print("   by family: " + ", ".join(f"{k[0]}:{k[1]}={v}" for k, v in sorted(fam.items())))
    t0 = time.perf_counter()
    o14 = c14_schema.obligations(REPO)
    report("C14 schema (ground/c14_schema.py), unchanged tree", o14, time.perf_counter() - t0)

    print("== negative self-tests (in-memory edits; /repo untouched)")
    passed, failed = run_negative()
    print(f"== negative self-tests: {passed} passed, {failed} failed")
    print(f"== total {time.perf_counter() - t_all:.2f} s")
    return 1 if (bad or failed) else 0


if __name__ == "__main__":
    sys.exit(main())

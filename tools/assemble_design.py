#!/usr/bin/env python3
"""Replaces section 9 of DESIGN.md (between '## 9. As built' and '## Appendix A.') by notes/design_part2.md."""
import os
V = os.path.dirname(os.path.dirname(os.path.abspath(__file__)))
d = open(f"{V}/DESIGN.md").read()
p2 = open(f"{V}/notes/design_part2.md").read()
i, j = d.index("## 9. As built"), d.index("## Appendix A.")
d = d[:i] + p2 + "\n---------------------------------------------------------------------------\n\n" + d[j:]
open(f"{V}/DESIGN.md", "w").write(d)
print("DESIGN.md section 9 replaced,", len(d), "bytes")

#!/bin/sh
# usage: tools/try_seed.sh <patch file> <property id>...   — apply a seeded change to /repo, run checks, undo it.
P="$(realpath "$1")"; shift
cd /verif
git -C /repo apply "$P" || { echo "PATCH DOES NOT APPLY: $P"; exit 9; }
for pid in "$@"; do
  ./check "$pid" 2>&1 | grep -E "VIOLATION|KNOWN-FINDING|UNDECIDED|DEGRADED|CHECKER-ERROR|ENGINE-DIS|tier=" | cut -c1-260
done
git -C /repo checkout -- . 
git -C /repo status --short | head -3

#!/usr/bin/env python3
"""Regenerates /verif/MANIFEST.json from the table below (keeps it schema-valid; run after claiming a property)."""
import json, os, sys
HERE = os.path.dirname(os.path.dirname(os.path.abspath(__file__)))
sys.path.insert(0, HERE)
from tools.claims import CLAIMS, NOT_APPLICABLE  # noqa: E402

props = [json.loads(l) for l in open(os.path.join(HERE, "properties.jsonl"))]
ids = [p["id"] for p in props]
checks = []
for pid in ids:
    c = CLAIMS.get(pid)
    if not c:
        continue
    checks.append({
        "property_id": pid,
        "quick_cmd": f"./check {pid} --tier quick",
        "thorough_cmd": f"./check {pid} --tier thorough",
        "evidence_file": f"evidence/{pid}.json",
        "replay_cmd_template": "./check --replay {path}",
        "engine": "pyvc",
        "level_claimed": {"category": c["category"], "text": c["text"], "design_ref": c.get("design_ref", f"DESIGN.md section 4 ({pid})")},
        "level_note": c["note"],
        "technique": c["technique"],
    })
na = [{"property_id": pid, "reason": NOT_APPLICABLE.get(pid, "not yet under contract in this round: no check is registered, nothing is claimed")} for pid in ids if pid not in CLAIMS]
m = {
    "version": 1,
    "setup_cmd": "./setup.sh",
    "hooks": {"guard": "AIOESPHOMEAPI_VERIF", "enable": "no hooks are needed: contracts live in sidecar files under /verif/contracts; the real sources are read with ast on every run and the real modules imported for replays",
              "baseline_off_cmd": "cd /repo && /venv/bin/python -m pytest -ra -q -p no:cacheprovider --timeout=900 --continue-on-collection-errors",
              "source_commits": [], "add_only": True},
    "engines": [{"name": "pyvc", "path": "pyvc/", "serves_properties": sorted(CLAIMS),
                 "kind_free_text": "own verification-condition generator: Python ast of the real /repo sources -> symbolic execution against sidecar contracts (contracts/, specs/) -> z3 5.1 (cvc5 for unknowns); ground obligations over program text / api.proto by exact evaluation (ground/); native replay + bounded stand-ins (contracts/native_*.py)"}],
    "checks": checks,
    "notes": "Contract-based deductive verification of the real code; see DESIGN.md (section 9 = as built) and AS_BUILT.md (per-property tables generated from the evidence). "
             "Exit codes: 0 held (possibly with DEGRADED / BOUNDED lines and a lowered evidence level), 1 violation, 2 undecided, 3 checker error. "
             "quick = z3 (cvc5 for what z3 leaves open); thorough = both solvers on every obligation, larger bounds for the bounded stand-ins, and a self-check "
             "(built-in mutants of the real source must be refuted). seeded/ = 180 confirmed property-breaking changes with the obligation that catches each "
             "(seeded/RESULTS.json), refactors/ = 80 behaviour-preserving changes that must not raise an alarm (refactors/RESULTS.json); tools/run_seeds.py runs both.",
    "not_applicable": na,
}
json.dump(m, open(os.path.join(HERE, "MANIFEST.json"), "w"), indent=1)
try:
    import jsonschema
    jsonschema.validate(m, json.load(open("/root/.vp/MANIFEST.schema.json")))
    print("MANIFEST.json valid;", len(checks), "checks,", len(na), "not claimed")
except ImportError:
    print("written (jsonschema not available to validate)")

#!/bin/sh
# runs every registered quick check (refreshes evidence/); usage: tools/run_all.sh [tier]
cd "$(dirname "$0")/.."
T=${1:-quick}
for p in C01 C02 C03 C04 C05 C06 C07 C08 C09 C10 C11 C12 C13 C14 C15 C16 C17 C18 C19 C20; do
  ./check $p --tier $T 2>&1 | grep -E "tier=|VIOLATION|UNDECIDED|CHECKER|ENGINE|DEGRADED|BOUNDED" | cut -c1-220
done

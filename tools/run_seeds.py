#!/usr/bin/env python3
"""Try the checks against the seeded changes in /verif/seeded: each change is applied in its own scratch worktree of /repo
(never in /repo itself), the checks of the named properties run against that tree (PYVC_REPO), results are tabulated.

usage: tools/run_seeds.py [-j N] [--props own|C05,C08] [--dir seeded|refactors] [seed ids...]

--dir refactors: the behaviour-preserving changes under /verif/refactors (expected verdict: exit 0, anything else is a false
alarm or a brittle proof); results go to refactors/RESULTS.json."""
import json, os, subprocess, sys, concurrent.futures as cf, shutil, re

VERIF = os.path.dirname(os.path.dirname(os.path.abspath(__file__)))
SCR = "/tmp/seedrun"
DIR = "seeded"


def run_one(sid, props, jobs):
    wt = f"{SCR}/{sid}"
    subprocess.run(["git", "-C", "/repo", "worktree", "remove", "--force", wt], capture_output=True)
    r = subprocess.run(["git", "-C", "/repo", "worktree", "add", "--detach", wt, "HEAD"], capture_output=True, text=True)
    if r.returncode:
        return sid, {"error": r.stderr[-300:]}
    res = {}
    try:
        a = subprocess.run(["git", "-C", wt, "apply", f"{VERIF}/{DIR}/{sid}/patch.diff"], capture_output=True, text=True)
        if a.returncode:
            return sid, {"error": "patch does not apply: " + a.stderr[-200:]}
        for p in props:
            env = dict(os.environ, PYVC_REPO=wt, PYVC_OUT=f"{SCR}/out-{sid}")
            q = subprocess.run([f"{VERIF}/.venv/bin/python", "-m", "pyvc.runner", p, "--jobs", str(jobs)], cwd=VERIF, env=env, capture_output=True, text=True)
            lines = [ln for ln in q.stdout.splitlines() if re.match(r"VIOLATION|UNDECIDED|DEGRADED|CHECKER-ERROR|ENGINE-DIS|KNOWN", ln)]
            res[p] = {"exit": q.returncode, "lines": [ln[:230] for ln in lines][:8], "summary": (q.stdout.strip().splitlines() or [""])[-1][:200]}
    finally:
        subprocess.run(["git", "-C", "/repo", "worktree", "remove", "--force", wt], capture_output=True)
        shutil.rmtree(f"{SCR}/out-{sid}", ignore_errors=True)
    return sid, res


def main():
    args = sys.argv[1:]
    par, jobs, props_arg = 4, 4, "own"
    while args and args[0].startswith("-"):
        if args[0] == "-j":
            par = int(args[1]); args = args[2:]
        elif args[0] == "--jobs":
            jobs = int(args[1]); args = args[2:]
        elif args[0] == "--props":
            props_arg = args[1]; args = args[2:]
        elif args[0] == "--dir":
            global DIR
            DIR = args[1]; args = args[2:]
    ids = args or sorted(os.listdir(f"{VERIF}/{DIR}"))
    ids = [i for i in ids if os.path.isdir(f"{VERIF}/{DIR}/{i}")]
    os.makedirs(SCR, exist_ok=True)
    out = {}
    with cf.ThreadPoolExecutor(par) as ex:
        futs = []
        for sid in ids:
            props = [sid.split("-")[0]] if props_arg == "own" else props_arg.split(",")
            futs.append(ex.submit(run_one, sid, props, jobs))
        for f in cf.as_completed(futs):
            sid, res = f.result()
            out[sid] = res
            for p, r in res.items():
                if p == "error":
                    print(f"{sid}: ERROR {r}")
                else:
                    print(f"{sid} {p}: exit={r['exit']}  {r['summary']}")
                    for ln in r["lines"][:4]:
                        print("      ", ln)
            sys.stdout.flush()
    subprocess.run(["git", "-C", "/repo", "worktree", "prune"])
    shutil.rmtree(SCR, ignore_errors=True)
    json.dump(out, open(f"{VERIF}/out/seed_results.json", "w"), indent=1)
    # committed catch matrix: merged over runs, one entry per seed and property checked
    path = f"{VERIF}/{DIR}/RESULTS.json"
    allr = json.load(open(path)) if os.path.exists(path) else {}
    head = subprocess.run(["git", "-C", "/repo", "rev-parse", "--short", "HEAD"], capture_output=True, text=True).stdout.strip()
    for sid, res in out.items():
        ent = allr.setdefault(sid, {})
        for p, r in res.items():
            if p == "error":
                ent["error"] = r
                continue
            ent.pop("error", None)
            obl = sorted({m.group(1) for ln in r["lines"] for m in [re.search(r"obligation=(\S+)", ln)] if m and ln.startswith("VIOLATION")})
            ent[p] = {"exit": r["exit"], "verdict": ({0: "MISSED", 1: "detected", 2: "undecided", 3: "checker-error"} if DIR == "seeded" else
                                  {0: "still proved", 1: "FALSE ALARM", 2: "undecided (brittle)", 3: "checker-error"}).get(r["exit"], "?"),
                      "lines": r["lines"][:3] if r["exit"] != (1 if DIR == "seeded" else 0) else [],
                      "failed_obligations": obl[:6], "replayed_input": any(ln.startswith("VIOLATION") and not ln.rstrip().endswith("no-failing-input-found") for ln in r["lines"]),
                      "repo_head": head}
    json.dump(allr, open(path, "w"), indent=1, sort_keys=True)


if __name__ == "__main__":
    main()

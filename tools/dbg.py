import sys, os, traceback
sys.path.insert(0,'/verif'); sys.path.insert(0,'/repo')
from pyvc import runner
pid, only = sys.argv[1], sys.argv[2]
os.environ["PYVC_ONLY"]=only
r = runner._worker((pid, only, {"tier":"quick","timeout_ms":10000,"both":False})) if False else None
runner._setup_paths()
from pyvc.engine import Engine
mod = runner.load_property(pid)
eng = Engine()
ts = mod.targets(eng)
t = [t for t in ts if only in t.name][0]
try:
    t.run(eng, {"tier":"quick","timeout_ms":10000,"both":False})
except Exception:
    traceback.print_exc()
for o in eng.obligations:
    if o.status != "discharged" or "-a" in sys.argv:
        print(o.status, o.kind, o.id, o.backend, o.ms, o.detail[:200]); 
        if o.status in ("refuted", "unknown"):
            print("   path:", o.path)
            if "-m" in sys.argv:
                print("   model:", {k: v for k, v in (o.model or {}).items() if not k.startswith("ghost.") or k in ("ghost.reported", "ghost.packets")})
print(len(eng.obligations), "obligations,", sum(o.status=="discharged" for o in eng.obligations), "discharged")

"""What MANIFEST.json claims per property (single table; tools/gen_manifest.py renders it)."""

TB = ("Trusted base: pyvc's encoding of Python semantics (A-PY), annotated argument types (A-TYPES), termination of the spec functions, "
      "z3/cvc5; per-property assumptions are listed in the evidence file.")

CLAIMS = {
    "C01": dict(category="proof", technique="function contracts + loop invariants on the real buffer/varint/data_received code, VCs from the AST discharged by z3 (cvc5 fallback)",
                text="Every obligation of the contracts on _add_to_buffer, _remove_from_buffer, _read, _read_varuint and APIPlaintextFrameHelper.data_received "
                     "(post: packets delivered == all complete frames of old-buffer ++ chunk, in order, once; retained tail == exactly the incomplete remainder) is discharged "
                     "for all buffers, chunks (bytes/bytearray/memoryview), payload sizes and varint widths. Segmentation independence over whole streams is the inductive consequence "
                     "of the per-call postcondition; that last step (prefix-stability of the parse spec) is checked by a bounded stand-in only and is not counted as proved.",
                note=TB + " process_packet is assumed not to touch the helper's buffer fields; bor/shl for symbolic shifts uninterpreted (A-BITS)."),
    "C02": dict(category="proof", technique="function contracts + loop invariants, VCs from the AST discharged by z3",
                text="_varuint_to_bytes == minimal base-128 encoding for all v >= 0; plaintext write_packets performs exactly one write of the concatenated "
                     "zero byte + varint length + varint type + payload frames for every packet list; _write_bytes writes exactly once.",
                note=TB),
    "C13": dict(category="proof", technique="complete enumeration of ground obligations over program text (AST) and api.proto text, exact evaluation",
                text="The domain is the finite program text, enumerated completely on every run: ~1440 ground obligations (ids, table entries, positional order, derived tables, compiled descriptors, direction of every send/subscribe call site).",
                note="Oracle = api.proto/api_options.proto parsed by ground/protoparse.py; call-site classes resolved statically (unresolved => unsupported, never pass)."),
}

CLAIMS["C14"] = dict(category="proof", technique="ground obligations over model.py AST vs api.proto text (complete enumeration) + per-enum-class contracts on the real APIIntEnum.convert/convert_list (loop invariant) discharged by z3; bounded native stand-ins for from_pb/round-trip/float rule",
    text="Proved: every model enum paired with a wire enum has exactly the wire numbers, matching names, no aliases; every model class built from a wire message has exactly its field names; "
         "convert/convert_list of each of the 29 enum classes return the member with that number / None / drop unknown numbers, for all integers and all lists. "
         "Bounded only (reported under coverage.bounded, not counted as proved): from_pb value preservation and to_dict/from_dict round trip on generated messages, 7-significant-digit rounding on sampled float32 patterns.",
    note=TB + " enum lookup and dataclasses behave as documented (A-LIB). One open known finding (F7, UpdateCommand.INSTALL name).")
CLAIMS["C15"] = dict(category="proof", technique="one generated contract per command method (expected request derived from the message descriptor + the has_<field> rule of the statement), real method bodies symbolically executed with symbolic optional arguments, z3; native replay of counter-models",
    text="For each of the 18 entity command methods: exactly one request of the right class is handed to the connection, key carried, each optional argument's value and presence flag exactly when supplied (None vs falsy distinguished symbolically, all 2^n subsets in one query per path), "
         "every other field at its default, ms conversion, rgb split, legacy cover/away encodings by negotiated version; on a send failure nothing else is sent. execute_service is a bounded native stand-in.",
    note=TB + " float32 rounding uninterpreted (f32 on both sides); integer arguments assumed to fit their field. One open known finding (F8, lock_command has_code).")

NOT_APPLICABLE = {}

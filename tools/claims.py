"""What MANIFEST.json claims per property (single table; tools/gen_manifest.py renders it)."""

TB = ("Trusted base: pyvc's encoding of Python semantics (A-PY), annotated argument types (A-TYPES), termination of the spec functions, "
      "z3/cvc5; per-property assumptions are listed in the evidence file.")

CLAIMS = {
    "C01": dict(category="proof", technique="function contracts + loop invariants on the real buffer/varint/data_received code, inductive lemmas over the framing spec (segmentation independence, encode/decode round trip); VCs from the AST discharged by z3 (cvc5 fallback)",
                text="Every obligation of the contracts on _add_to_buffer, _remove_from_buffer, _read, _read_varuint and APIPlaintextFrameHelper.data_received "
                     "(post: packets delivered == all complete frames of old-buffer ++ chunk, in order, once; retained tail == exactly the incomplete remainder) is discharged "
                     "for all buffers, chunks (bytes/bytearray/memoryview), payload sizes and varint widths. On top of the per-call contract three families of lemmas are proved by induction "
                     "(recursive ghost functions with decreases, each checked against its contract): (seg/stream) the frames delivered and the tail retained after n calls are those of the "
                     "concatenated stream, for every cut of it into n chunks; (varint_rt/one_frame/frames_rt) the reader spec inverts api.proto's encoding plain_frames that the writer is proved "
                     "against under C02; (wire_stream) the property as stated: k frames sent by the device, cut anyhow into n chunks, arrive as exactly those k (type, payload) pairs and nothing is retained.",
                note=TB + " process_packet is assumed not to touch the helper's buffer fields; bor/shl for symbolic shifts are uninterpreted with arithmetic axiom instances (A-BITS); "
                          "the run_msgs/run_view spec functions iterate the per-call postcondition, which holds for calls that do not hit a bad preamble (a bad preamble closes the connection: C04/C12)."),
    "C02": dict(category="proof", technique="function contracts + loop invariants, VCs from the AST discharged by z3",
                text="_varuint_to_bytes == minimal base-128 encoding for all v >= 0; plaintext write_packets performs exactly one write of the concatenated "
                     "zero byte + varint length + varint type + payload frames for every packet list; _write_bytes writes exactly once.",
                note=TB),
    "C13": dict(category="proof", technique="complete enumeration of ground obligations over program text (AST) and api.proto text, exact evaluation",
                text="The domain is the finite program text, enumerated completely on every run: ~1440 ground obligations (ids, table entries, positional order, derived tables, compiled descriptors, direction of every send/subscribe call site).",
                note="Oracle = api.proto/api_options.proto parsed by ground/protoparse.py; call-site classes resolved statically (unresolved => unsupported, never pass)."),
}

CLAIMS["C14"] = dict(category="proof", technique="ground obligations over model.py AST vs api.proto text (complete enumeration) + contracts on the real APIIntEnum.convert/convert_list (per enum class, loop invariant) and on the real APIModelBase.from_pb/__post_init__ (per wire message / model pair, one clause per wire field derived from api.proto) discharged by z3, counter-models replayed natively; bounded native stand-ins for round-trip, float digits and nested converters",
    text="Proved: every model enum paired with a wire enum has exactly the wire numbers, matching names, no aliases; every model class built from a wire message has exactly its field names; "
         "convert/convert_list of each of the 29 enum classes return the member with that number / None / drop unknown numbers, for all integers and all lists; "
         "for each of the 67 (wire message, model) pairs built by the generic from_pb, conversion of an arbitrary message of that type raises nothing and every scalar, repeated-scalar, enum and float field "
         "has the value the property prescribes (preserved; enum member or None / dropped; float preserved or round7 of it). "
         "Bounded only (reported under coverage.bounded, not counted as proved): to_dict/from_dict round trip, the numeric meaning of round7 (7 significant digits) on sampled float32 patterns, "
         "fields of message type and the hand-written converters (nested models, split uuids, service maps, BluetoothLEAdvertisement.from_pb).",
    note=TB + " enum lookup and dataclasses (fields(), Field.metadata, generated __init__) behave as documented and are read from the live classes (A-LIB). One open known finding (F7, UpdateCommand.INSTALL name).")
CLAIMS["C15"] = dict(category="proof", technique="one generated contract per command method (expected request derived from the message descriptor + the has_<field> rule of the statement), real method bodies symbolically executed with symbolic optional arguments, z3; native replay of counter-models",
    text="For each of the 18 entity command methods: exactly one request of the right class is handed to the connection, key carried, each optional argument's value and presence flag exactly when supplied (None vs falsy distinguished symbolically, all 2^n subsets in one query per path), "
         "every other field at its default, ms conversion, rgb split, legacy cover/away encodings by negotiated version; on a send failure nothing else is sent. execute_service is a bounded native stand-in.",
    note=TB + " float32 rounding uninterpreted (f32 on both sides); integer arguments assumed to fit their field. One open known finding (F8, lock_command has_code).")

NOT_APPLICABLE = {}

# ---- connection layer (C05-C12): shared machinery in contracts/conn_model.py + contracts/conn.py -------------------------------------
CONN_TB = (TB + " Connection layer: A-LOOP (asyncio runs one callback at a time), A-CALLBACK (user callbacks may re-enter the public API but do not feed packets "
           "and return), A-SETITER, A-PROTOBUF, A-FUTOWN (a future created in a call is completed only by the callables it was handed to), the frame scan of field stores, "
           "and the ASSUMED contract of _connect_socket_connect (TCP connect loop over aiohappyeyeballs: not verified). Library awaitables (create_connection, asyncio.wait, "
           "async_resolve_host, interrupt, asyncio.timeout) are modelled by assumed contracts (A-LIB).")
CONN_TECH = ("object invariant Inv_conn + two-state relation Step_conn (rely/guarantee at cut points: every await and every call-out havocs the connection under Step* and Inv), "
             "function contracts on the real APIConnection methods, VCs generated from the AST of /repo on every run and discharged by z3 (cvc5 for unknowns); "
             "state-injection replay of counter-models on the real object where a native evaluator exists")

CLAIMS["C05"] = dict(category="proof", technique=CONN_TECH,
    text="Step_conn clauses S1 (rank of the state never decreases) and S2 (closed is final) and Inv clause I1 (is_connected <=> CONNECTED, _handshake_complete <=> HANDSHAKE_COMPLETE|CONNECTED) "
         "are obligations of every segment (function entry / await / call-out / exit) of _set_connection_state, _cleanup, report_fatal_error, force_disconnect, disconnect, send_messages, process_packet, "
         "the keepalive callbacks, the internal request handlers, start_connection, finish_connection, _connect_resolve_host, _connect_init_frame_helper and send_messages_await_response_complex, "
         "from ANY state satisfying Inv and with the shared state havocked at every cut point - i.e. for every interleaving, including events in the same loop turn. "
         "start/finish_connection: RuntimeError and no change unless in their start state; normal exit exactly in the target state; every failing exit CLOSED. Step_conn is proved to be a preorder.",
    note=CONN_TB + " Two genuine defects found by these obligations were repaired (F1/F2, commit ff9fdd9).")
CLAIMS["C06"] = dict(category="proof", technique=CONN_TECH,
    text="_process_hello_resp accepts iff major <= 2 and (no expected name, or empty/equal received name) and raises BadNameAPIError carrying the received name / APIConnectionError otherwise; "
         "_process_login_response raises InvalidAuthAPIError iff invalid_password; _connect_hello_login writes HelloRequest(client_info,1,10)[+ConnectRequest(password)] in one write and returns normally "
         "only after both checks accepted responses of the right classes (for every arrival order admitted by the request-response contract of C11); finish_connection reaches CONNECTED only after that, "
         "and every failing exit is CLOSED with the stop callback not invoked.",
    note=CONN_TB + " Recorded reading: a device that sends no name (empty string) predates the field and is accepted.")
CLAIMS["C07"] = dict(category="proof", technique=CONN_TECH,
    text="Inv clauses I3: stop_calls in {0,1}; stop_calls == 1 <=> (CONNECTED was ever reached and state is CLOSED and a callback was given); the callback is cleared before it is called. "
         "_cleanup increments the count exactly when it closes a connected connection; reason clause: the argument equals the ghost marker 'graceful disconnect initiated' (set at ENTRY of disconnect(), "
         "force_disconnect() and the DisconnectRequest handler, as the statement says, not where the code sets its flag) - Inv I5 and Step S13, for every order and multiplicity of close causes (each is an entry point verified from any Inv state).",
    note=CONN_TB + " One genuine defect found by I5 was repaired (F12, commit db45158).")
CLAIMS["C08"] = dict(category="proof", technique=CONN_TECH,
    text="Inv I2: CLOSED => no keepalive/pong timer referenced, waiter set empty, connect futures done; CLOSED and no connect phase running => frame helper and socket released; _cleanup closes helper and socket, "
         "disarms both timers, completes every waiter, also for resources a resumed connect phase acquired after the first close; send_messages writes nothing unless the handshake completed (hence nothing after close) "
         "and only to an open helper; process_packet on a CLOSED connection invokes no handler; a request-response call leaves no handler, waiter or armed timer on any exit.",
    note=CONN_TB + " OS-level release is where the contract ends (helper.close()/socket.close() called). Genuine defect repaired: F4 (commit 97e27ce).")
CLAIMS["C09"] = dict(category="proof", technique=CONN_TECH,
    text="Classification: start/finish_connection raise only APIConnectionError subclasses (RuntimeError for misuse), _wrap_fatal_connection_exception is total and keeps/derives the class as documented, "
         "send_messages raises only ConnectionNotEstablished/SocketClosed, the request-response calls only TimeoutAPIError / the connection's error / the caller's own cancellation, disconnect raises nothing else; "
         "no AttributeError (Inv I4). First cause wins: Step S3 (_fatal_exception write-once) and _cleanup's waiter postcondition. Every wait has a deadline: at each await an armed timer for that future exists or a timeout context / bounded library wait encloses it.",
    note=CONN_TB + " 'Never hangs' is reduced to A-LOOP (timers fire, callbacks terminate); the TCP phase bound is per attempt (assumed contract).")
CLAIMS["C10"] = dict(category="proof", technique=CONN_TECH + "; L3 window lemma over reals (z3, no induction)",
    text="_async_send_keep_alive: one PingRequest iff no message since the last tick; pong deadline armed at now+4.5K only if none is armed, never moved; next tick at now+K with the flag set; "
         "process_packet of any decodable message of a defined type cancels the pong timer and clears the flag before any subscriber runs; _async_pong_not_received closes with PingFailedAPIError and an unexpected stop unless graceful. "
         "Lemma: from these clauses a peer silent from t is declared dead at T0+5.5K in [t+5.5K, t+6.5K) (t+6.5K when the last message ties with a tick), and never while gaps stay below 4.5K.",
    note=CONN_TB + " Ideal timers (A-LOOP); the lemma's hypotheses are a transcription of the named contract clauses.")
CLAIMS["C11"] = dict(category="proof", technique=CONN_TECH + "; call invariant by explicit induction step (lemma ci_step over the real handle_complex_message contract)",
    text="send_messages_await_response_complex (arities 1-2 messages x 1-2 response types): request written once, collector registered for exactly its types and waiter + timeout armed in the same segment as the write (no cut point in between); "
         "handle_complex_message appends iff accepted and not yet complete, completes iff stop; call invariant (collected == accepted arrivals up to the first stop) by induction step; every exit (result, timeout, connection error, cancellation) "
         "leaves handler, waiter and timer removed; add/remove callbacks touch only their own entry of the handler table (whole-view frame for an arbitrary other key) - non-interference of concurrent calls.",
    note=CONN_TB + " A-PRED (predicates pure).")
CLAIMS["C12"] = dict(category="proof", technique=CONN_TECH,
    text="process_packet for every type number >= 0 and payload: undefined type => no field, region, handler entry or ghost changes and nothing is written; defined type => the class api.proto assigns (oracle parsed from the text) and "
         "dispatched == old + [(h, msg) for h in enum(snapshot of the handler set at entry)], each exactly once, whatever the callbacks do to the table (loop invariant, re-entrancy havoc at each call-out); undecodable payload => closed with ProtocolAPIError, no handler call; "
         "ping/time/disconnect handlers write exactly the matching response (disconnect: response before close, expected stop); the internal handlers are registered before the first hello/login exchange.",
    note=CONN_TB + " Genuine defect repaired: F5 (commit ed6ec9e).")

# ---- frame helpers (Noise) -------------------------------------------------------------------------------------------------------
NOISE_TB = (TB + " Noise: A-CRYPTO (ChaCha20-Poly1305 idealised: decrypt(nonce, c) returns p only if c == enc(key, nonce, p), else InvalidTag; the noiseprotocol state machine "
            "is an assumed contract: write_message/read_message, cipher states with n = 0); A-LOOP (an exception escaping data_received makes the transport call connection_lost(exc)); "
            "the connection is an opaque object as seen from the helper (process_packet / report_fatal_error recorded, may close the helper re-entrantly).")
CLAIMS["C03"] = dict(category="proof", technique="function contracts + loop invariant on the real Noise helper (data_received with the parse spec nf_frames, the four frame handlers, __init__/_setup_proto/_send_hello_handshake), VCs from the AST discharged by z3 (cvc5 for unknowns); bounded native session against the real noise library as responder as stand-in for the stream induction",
    text="Proved per call, for all buffers/chunks/frames: data_received hands every complete frame (0x01, 16-bit BE length) exactly once, in order, to the handler of the current state and retains exactly the partial tail; "
         "_setup_proto uses Noise_NNpsk0_25519_ChaChaPoly_SHA256, initiator, the decoded 32-byte psk, prologue NoiseAPIInit\\0\\0; the hello+handshake frame has the documented shape; _handle_hello accepts iff selector 1 and (no name, no expected name, or equal names); "
         "readiness is signalled only in _handle_handshake after read_message returned, with both nonces 0; _handle_frame is called only in state READY and delivers exactly (type, payload) of the plaintext the AEAD returns for the next nonce. "
         "Bounded only (not counted): the whole-session statement for every segmentation (real responder, 782 segmentations in the quick tier).",
    note=NOISE_TB)
CLAIMS["C04"] = dict(category="other", technique="function contracts on the real Noise/plaintext helper error paths (_handle_error mapping, close, _handle_error_and_close, connection_lost, _handle_hello, _handle_handshake, _error_on_incorrect_preamble, _decode_noise_psk, __init__), z3; native replay of counter-models on the real helper",
    text="All obligations but the two listed known findings (F11a/F11b: raw UnicodeDecodeError for non-UTF-8 name / explanation bytes) are discharged: InvalidTag maps to InvalidEncryptionKeyAPIError carrying the server name, reset during hello to HandshakeAPIError, "
         "error frame to InvalidEncryptionKey/Handshake error by its text, empty hello / unknown selector to HandshakeAPIError, name mismatch to BadNameAPIError carrying the received name, plaintext preamble 0x01 to RequiresEncryptionAPIError else ProtocolAPIError; "
         "each closes the helper and fails a pending readiness wait with the same error; a forged frame (InvalidTag) delivers nothing and does not consume the nonce; a key that is not base64 for exactly 32 bytes raises InvalidEncryptionKeyAPIError in __init__ before anything is written. "
         "Level 'other' because of the open known findings; F10 (empty handshake frame) was repaired (commit eb8b26d).",
    note=NOISE_TB)
CLAIMS["C02"]["category"] = "other"
CLAIMS["C02"]["technique"] = "function contracts + loop invariants on the real plaintext and Noise write paths and on send_messages, VCs from the AST discharged by z3; bounded native Noise write against a real responder as fall-back"
CLAIMS["C02"]["text"] = ("_varuint_to_bytes == minimal base-128 encoding for all v >= 0 and returns an immutable bytes object (side condition of its lru_cache); plaintext write_packets: exactly one write of the concatenated "
                         "zero byte + varint length + varint type + payload frames for every packet list; Noise write_packets: exactly one write of 0x01 + 16-bit BE ciphertext length + AEAD(key, nonce0+i, 16-bit type + 16-bit length + payload), "
                         "nonces consecutive, under the precondition that the 16-bit fields can carry the numbers; send_messages hands exactly one batch (id from api.proto, serialised message) to the helper. "
                         "Level 'other' because of one open known finding: nothing establishes that precondition for large payloads (F9, Noise length wrap at 65516 bytes).")
CLAIMS["C14"]["category"] = "other"
CLAIMS["C14"]["text"] += " Level 'other' because of the open known finding F7."
CLAIMS["C15"]["category"] = "other"
CLAIMS["C15"]["text"] += " Level 'other' because of the open known finding F8."

# ---- client layer ------------------------------------------------------------------------------------------------------------------
CLI_TB = (TB + " Client layer: the connection's API methods are represented by the contracts proved for them under C02/C05/C07/C09/C11 (send gate, one write, "
          "subscribe/unsubscribe, collected responses); user callbacks return; <Model>.from_pb is an opaque conversion (C14's subject).")
CLAIMS["C16"] = dict(category="proof", technique="function contracts on the real filters/adapters of client_callbacks.py and on the client's Bluetooth methods (symbolic messages, addresses, handles), VCs from the AST discharged by z3",
    text="on_bluetooth_handle_message <=> same address and (connection response or same handle); on_bluetooth_message_types <=> class in the tuple and same address; notify data forwarded iff address and handle both match; the connect adapter acts only for its address and completes its wait at most once. "
         "_send_bluetooth_message_await_response returns only a message of the requested class with its address and handle, raises BluetoothGATTAPIError only for an error response with its address and handle and BluetoothConnectionDroppedError only for a connection change of its address "
         "(by the C11 contract the collected list is exactly the first message satisfying the real filter); bluetooth_gatt_start_notify leaves nothing subscribed on failure or cancellation; bluetooth_device_connect: on timeout unsubscribe, then the disconnect request for that address, then TimeoutAPIError; every failing exit leaves nothing subscribed.",
    note=CLI_TB + " Genuine defect repaired: F14 (commit 82f8af6).")
CLAIMS["C17"] = dict(category="proof", technique="function contracts on the real adapters (on_state_msg with a symbolic map key -> chunk list, whole-view frame) and on the subscribe_* methods, VCs from the AST discharged by z3",
    text="on_state_msg: a state message of a class in the state table produces exactly one callback with <paired model>.from_pb(msg) and leaves the stream map untouched; a camera chunk is appended to its own key only (every other key unchanged); a done chunk produces exactly one CameraState whose data is the "
         "concatenation of that key's chunks since its last completion and removes the key; other messages have no effect. The other adapters call the matching user callback exactly once with the converted value. Each subscribe_* method writes its request and registers exactly one handler for exactly the stated response type(s) in the same segment; "
         "the voice-assistant unsubscribe removes every handler it registered and writes subscribe=False.",
    note=CLI_TB + " Observation (not claimed): VoiceAssistantSubscriptionFlag.API_AUDIO is 1<<2 in model.py while api.proto's VoiceAssistantSubscribeFlag says 1.")
CLAIMS["C18"] = dict(category="proof", technique="function contracts on every method of ReconnectLogic with a lock-aware cut-point rule (fields written only under asyncio.Lock are stable while the verified task holds it), ghost session flag, exact rational backoff table, z3",
    text="A connection attempt (start_connection/finish_connection on the client) happens only with the lock held, not stopped, state DISCONNECTED at lock entry and no suspension between the stopped check and the attempt; after a failure tries = 100 for auth/encryption errors else +1 and the retry timer is armed at now + min(round(1.8^n), 60); "
         "after an unexpected disconnect an immediate attempt, after an expected one a timer at now + 5 s (and no mDNS listening during the cool-down); async_update_records triggers at most one immediate attempt, only while accepting and not stopped, exactly for a PTR/A record with the device's names, then stops accepting; "
         "_call_connect_once never cancels an attempt past CONNECTING and creates at most one task; on_connect / on_disconnect are called only under the lock and alternate; stop() sets the flag under the lock and leaves no timer, task or listener while it stays stopped.",
    note=TB + " A-LIB(asyncio.Lock), A-ENV (the client calls the stop callback once per established session and refuses a new attempt while a session is alive: C07/C19), exact rationals for 1.8^n. Whole-history statements beyond the per-segment clauses are not decided.")
CLAIMS["C19"] = dict(category="proof", technique="generated gate contract per public writing method of APIClient (precondition: no authenticated session) + life-cycle contracts, connection API represented by its proved contracts with a 'session alive' obligation at every write/subscribe, z3",
    text="For each public method of APIClient that reaches a connection write (found by a call-graph scan of the class; execute_service and send_voice_assistant_event are not covered: parameter types without a model): called without an authenticated session it raises APIConnectionError (or rejects an argument that does not fit its field) and writes/subscribes nothing. "
         "_get_connection returns only the live authenticated session; start_connection refuses exactly while a connection object is held and forgets a failed attempt; _on_stop clears the session before user code runs; disconnect() never leaves a closed connection referenced; the helpers that use self._connection directly write only to a live session.",
    note=CLI_TB + " Genuine defects repaired: F3 (commit 1634ee7), F13 (commit 2fe6a1e).")
CLAIMS["C20"] = dict(category="proof", technique="function contracts + loop invariants over uninterpreted lookup oracles with ghost call logs (z3 strings and sequences); bounded native enumeration as fall-back for the resolution loop",
    text="host_is_name_part / address_is_local equal their string specifications for all strings; an IP literal maps to one AddrInfo (v4 verbatim; v6 without %scope, flowinfo 0, numeric scope else 0); async_resolve_host returns, in the order of the configured hosts, mdns(name) for bare/.local names if non-empty, the literal itself for literals, else the OS answer; "
         "mDNS is asked exactly for the bare/.local names and the OS resolver exactly for the hosts nothing else resolved (so a literal causes no lookup of either kind); an empty overall result raises; _async_resolve_host_zeroconf puts all IPv6 results before all IPv4 results. "
         "ZeroconfManager: created => the instance is library-created, a supplied instance is never marked created; async_close closes exactly library-created instances and forgets them; _async_zeroconf_get_service_info closes iff the call caused the creation, on every exit.",
    note=TB + " A-LIB: mDNS / getaddrinfo / ipaddress.ip_address are deterministic oracles; int(str) modelled for decimal digit strings; _async_resolve_host_getaddrinfo's family mapping is not under contract.")

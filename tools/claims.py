"""What MANIFEST.json claims per property (single table; tools/gen_manifest.py renders it)."""

TB = ("Trusted base: pyvc's encoding of Python semantics (A-PY), annotated argument types (A-TYPES), termination of the spec functions, "
      "z3/cvc5; per-property assumptions are listed in the evidence file.")

CLAIMS = {
    "C01": dict(category="proof", technique="function contracts + loop invariants on the real buffer/varint/data_received code, VCs from the AST discharged by z3 (cvc5 fallback)",
                text="Every obligation of the contracts on _add_to_buffer, _remove_from_buffer, _read, _read_varuint and APIPlaintextFrameHelper.data_received "
                     "(post: packets delivered == all complete frames of old-buffer ++ chunk, in order, once; retained tail == exactly the incomplete remainder) is discharged "
                     "for all buffers, chunks (bytes/bytearray/memoryview), payload sizes and varint widths. Segmentation independence over whole streams is the inductive consequence "
                     "of the per-call postcondition; that last step (prefix-stability of the parse spec) is checked by a bounded stand-in only and is not counted as proved.",
                note=TB + " process_packet is assumed not to touch the helper's buffer fields; bor/shl for symbolic shifts uninterpreted (A-BITS)."),
    "C02": dict(category="proof", technique="function contracts + loop invariants, VCs from the AST discharged by z3",
                text="_varuint_to_bytes == minimal base-128 encoding for all v >= 0; plaintext write_packets performs exactly one write of the concatenated "
                     "zero byte + varint length + varint type + payload frames for every packet list; _write_bytes writes exactly once.",
                note=TB),
    "C13": dict(category="proof", technique="complete enumeration of ground obligations over program text (AST) and api.proto text, exact evaluation",
                text="The domain is the finite program text, enumerated completely on every run: ~1440 ground obligations (ids, table entries, positional order, derived tables, compiled descriptors, direction of every send/subscribe call site).",
                note="Oracle = api.proto/api_options.proto parsed by ground/protoparse.py; call-site classes resolved statically (unresolved => unsupported, never pass)."),
}

NOT_APPLICABLE = {}

"""What MANIFEST.json claims per property (single table; tools/gen_manifest.py renders it)."""

TB = ("Trusted base: pyvc's encoding of Python semantics (A-PY), annotated argument types (A-TYPES), termination of the spec functions, "
      "z3/cvc5; per-property assumptions are listed in the evidence file.")

CLAIMS = {
    "C01": dict(category="proof", technique="function contracts + loop invariants on the real buffer/varint/data_received code, VCs from the AST discharged by z3 (cvc5 fallback)",
                text="Every obligation of the contracts on _add_to_buffer, _remove_from_buffer, _read, _read_varuint and APIPlaintextFrameHelper.data_received "
                     "(post: packets delivered == all complete frames of old-buffer ++ chunk, in order, once; retained tail == exactly the incomplete remainder) is discharged "
                     "for all buffers, chunks (bytes/bytearray/memoryview), payload sizes and varint widths. Segmentation independence over whole streams is the inductive consequence "
                     "of the per-call postcondition; that last step (prefix-stability of the parse spec) is checked by a bounded stand-in only and is not counted as proved.",
                note=TB + " process_packet is assumed not to touch the helper's buffer fields; bor/shl for symbolic shifts uninterpreted (A-BITS)."),
    "C02": dict(category="proof", technique="function contracts + loop invariants, VCs from the AST discharged by z3",
                text="_varuint_to_bytes == minimal base-128 encoding for all v >= 0; plaintext write_packets performs exactly one write of the concatenated "
                     "zero byte + varint length + varint type + payload frames for every packet list; _write_bytes writes exactly once.",
                note=TB),
    "C13": dict(category="proof", technique="complete enumeration of ground obligations over program text (AST) and api.proto text, exact evaluation",
                text="The domain is the finite program text, enumerated completely on every run: ~1440 ground obligations (ids, table entries, positional order, derived tables, compiled descriptors, direction of every send/subscribe call site).",
                note="Oracle = api.proto/api_options.proto parsed by ground/protoparse.py; call-site classes resolved statically (unresolved => unsupported, never pass)."),
}

CLAIMS["C14"] = dict(category="proof", technique="ground obligations over model.py AST vs api.proto text (complete enumeration) + per-enum-class contracts on the real APIIntEnum.convert/convert_list (loop invariant) discharged by z3; bounded native stand-ins for from_pb/round-trip/float rule",
    text="Proved: every model enum paired with a wire enum has exactly the wire numbers, matching names, no aliases; every model class built from a wire message has exactly its field names; "
         "convert/convert_list of each of the 29 enum classes return the member with that number / None / drop unknown numbers, for all integers and all lists. "
         "Bounded only (reported under coverage.bounded, not counted as proved): from_pb value preservation and to_dict/from_dict round trip on generated messages, 7-significant-digit rounding on sampled float32 patterns.",
    note=TB + " enum lookup and dataclasses behave as documented (A-LIB). One open known finding (F7, UpdateCommand.INSTALL name).")
CLAIMS["C15"] = dict(category="proof", technique="one generated contract per command method (expected request derived from the message descriptor + the has_<field> rule of the statement), real method bodies symbolically executed with symbolic optional arguments, z3; native replay of counter-models",
    text="For each of the 18 entity command methods: exactly one request of the right class is handed to the connection, key carried, each optional argument's value and presence flag exactly when supplied (None vs falsy distinguished symbolically, all 2^n subsets in one query per path), "
         "every other field at its default, ms conversion, rgb split, legacy cover/away encodings by negotiated version; on a send failure nothing else is sent. execute_service is a bounded native stand-in.",
    note=TB + " float32 rounding uninterpreted (f32 on both sides); integer arguments assumed to fit their field. One open known finding (F8, lock_command has_code).")

NOT_APPLICABLE = {}

# ---- connection layer (C05-C12): shared machinery in contracts/conn_model.py + contracts/conn.py -------------------------------------
CONN_TB = (TB + " Connection layer: A-LOOP (asyncio runs one callback at a time), A-CALLBACK (user callbacks may re-enter the public API but do not feed packets "
           "and return), A-SETITER, A-PROTOBUF, A-FUTOWN (a future created in a call is completed only by the callables it was handed to), the frame scan of field stores, "
           "and the ASSUMED contract of _connect_socket_connect (TCP connect loop over aiohappyeyeballs: not verified). Library awaitables (create_connection, asyncio.wait, "
           "async_resolve_host, interrupt, asyncio.timeout) are modelled by assumed contracts (A-LIB).")
CONN_TECH = ("object invariant Inv_conn + two-state relation Step_conn (rely/guarantee at cut points: every await and every call-out havocs the connection under Step* and Inv), "
             "function contracts on the real APIConnection methods, VCs generated from the AST of /repo on every run and discharged by z3 (cvc5 for unknowns); "
             "state-injection replay of counter-models on the real object where a native evaluator exists")

CLAIMS["C05"] = dict(category="proof", technique=CONN_TECH,
    text="Step_conn clauses S1 (rank of the state never decreases) and S2 (closed is final) and Inv clause I1 (is_connected <=> CONNECTED, _handshake_complete <=> HANDSHAKE_COMPLETE|CONNECTED) "
         "are obligations of every segment (function entry / await / call-out / exit) of _set_connection_state, _cleanup, report_fatal_error, force_disconnect, disconnect, send_messages, process_packet, "
         "the keepalive callbacks, the internal request handlers, start_connection, finish_connection, _connect_resolve_host, _connect_init_frame_helper and send_messages_await_response_complex, "
         "from ANY state satisfying Inv and with the shared state havocked at every cut point - i.e. for every interleaving, including events in the same loop turn. "
         "start/finish_connection: RuntimeError and no change unless in their start state; normal exit exactly in the target state; every failing exit CLOSED. Step_conn is proved to be a preorder.",
    note=CONN_TB + " Two genuine defects found by these obligations were repaired (F1/F2, commit ff9fdd9).")
CLAIMS["C06"] = dict(category="proof", technique=CONN_TECH,
    text="_process_hello_resp accepts iff major <= 2 and (no expected name, or empty/equal received name) and raises BadNameAPIError carrying the received name / APIConnectionError otherwise; "
         "_process_login_response raises InvalidAuthAPIError iff invalid_password; _connect_hello_login writes HelloRequest(client_info,1,10)[+ConnectRequest(password)] in one write and returns normally "
         "only after both checks accepted responses of the right classes (for every arrival order admitted by the request-response contract of C11); finish_connection reaches CONNECTED only after that, "
         "and every failing exit is CLOSED with the stop callback not invoked.",
    note=CONN_TB + " Recorded reading: a device that sends no name (empty string) predates the field and is accepted.")
CLAIMS["C07"] = dict(category="proof", technique=CONN_TECH,
    text="Inv clauses I3: stop_calls in {0,1}; stop_calls == 1 <=> (CONNECTED was ever reached and state is CLOSED and a callback was given); the callback is cleared before it is called. "
         "_cleanup increments the count exactly when it closes a connected connection; reason clause: the argument equals the ghost marker 'graceful disconnect initiated' (set at ENTRY of disconnect(), "
         "force_disconnect() and the DisconnectRequest handler, as the statement says, not where the code sets its flag) - Inv I5 and Step S13, for every order and multiplicity of close causes (each is an entry point verified from any Inv state).",
    note=CONN_TB + " One genuine defect found by I5 was repaired (F12, commit db45158).")
CLAIMS["C08"] = dict(category="proof", technique=CONN_TECH,
    text="Inv I2: CLOSED => no keepalive/pong timer referenced, waiter set empty, connect futures done; CLOSED and no connect phase running => frame helper and socket released; _cleanup closes helper and socket, "
         "disarms both timers, completes every waiter, also for resources a resumed connect phase acquired after the first close; send_messages writes nothing unless the handshake completed (hence nothing after close) "
         "and only to an open helper; process_packet on a CLOSED connection invokes no handler; a request-response call leaves no handler, waiter or armed timer on any exit.",
    note=CONN_TB + " OS-level release is where the contract ends (helper.close()/socket.close() called). Genuine defect repaired: F4 (commit 97e27ce).")
CLAIMS["C09"] = dict(category="proof", technique=CONN_TECH,
    text="Classification: start/finish_connection raise only APIConnectionError subclasses (RuntimeError for misuse), _wrap_fatal_connection_exception is total and keeps/derives the class as documented, "
         "send_messages raises only ConnectionNotEstablished/SocketClosed, the request-response calls only TimeoutAPIError / the connection's error / the caller's own cancellation, disconnect raises nothing else; "
         "no AttributeError (Inv I4). First cause wins: Step S3 (_fatal_exception write-once) and _cleanup's waiter postcondition. Every wait has a deadline: at each await an armed timer for that future exists or a timeout context / bounded library wait encloses it.",
    note=CONN_TB + " 'Never hangs' is reduced to A-LOOP (timers fire, callbacks terminate); the TCP phase bound is per attempt (assumed contract).")
CLAIMS["C10"] = dict(category="proof", technique=CONN_TECH + "; L3 window lemma over reals (z3, no induction)",
    text="_async_send_keep_alive: one PingRequest iff no message since the last tick; pong deadline armed at now+4.5K only if none is armed, never moved; next tick at now+K with the flag set; "
         "process_packet of any decodable message of a defined type cancels the pong timer and clears the flag before any subscriber runs; _async_pong_not_received closes with PingFailedAPIError and an unexpected stop unless graceful. "
         "Lemma: from these clauses a peer silent from t is declared dead at T0+5.5K in [t+5.5K, t+6.5K) (t+6.5K when the last message ties with a tick), and never while gaps stay below 4.5K.",
    note=CONN_TB + " Ideal timers (A-LOOP); the lemma's hypotheses are a transcription of the named contract clauses.")
CLAIMS["C11"] = dict(category="proof", technique=CONN_TECH + "; call invariant by explicit induction step (lemma ci_step over the real handle_complex_message contract)",
    text="send_messages_await_response_complex (arities 1-2 messages x 1-2 response types): request written once, collector registered for exactly its types and waiter + timeout armed in the same segment as the write (no cut point in between); "
         "handle_complex_message appends iff accepted and not yet complete, completes iff stop; call invariant (collected == accepted arrivals up to the first stop) by induction step; every exit (result, timeout, connection error, cancellation) "
         "leaves handler, waiter and timer removed; add/remove callbacks touch only their own entry of the handler table (whole-view frame for an arbitrary other key) - non-interference of concurrent calls.",
    note=CONN_TB + " A-PRED (predicates pure).")
CLAIMS["C12"] = dict(category="proof", technique=CONN_TECH,
    text="process_packet for every type number >= 0 and payload: undefined type => no field, region, handler entry or ghost changes and nothing is written; defined type => the class api.proto assigns (oracle parsed from the text) and "
         "dispatched == old + [(h, msg) for h in enum(snapshot of the handler set at entry)], each exactly once, whatever the callbacks do to the table (loop invariant, re-entrancy havoc at each call-out); undecodable payload => closed with ProtocolAPIError, no handler call; "
         "ping/time/disconnect handlers write exactly the matching response (disconnect: response before close, expected stop); the internal handlers are registered before the first hello/login exchange.",
    note=CONN_TB + " Genuine defect repaired: F5 (commit ed6ec9e).")

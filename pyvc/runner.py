"""Runs the checks of one property: generate + discharge obligations (process pool), verdict, evidence.

Exit codes: 0 held (known findings printed), 1 violation, 2 undecided, 3 checker crash / engine disagreement.
"""
from __future__ import annotations

import importlib
import json
import multiprocessing as mp
import os
import re
import sys
import time
import traceback

VERIF = os.path.dirname(os.path.dirname(os.path.abspath(__file__)))
# development aid for trying the checks on patched scratch copies of the repository in parallel: evidence and replay files
# go to $PYVC_OUT instead of /verif (registered commands never set it)
OUT = os.environ.get("PYVC_OUT", VERIF)


def _setup_paths():
    from . import source
    for pkg in ("specs", "contracts", "models", "ground"):
        source.add_root(pkg, VERIF)
    if VERIF not in sys.path:
        sys.path.insert(0, VERIF)
    if source.REPO not in sys.path:
        sys.path.insert(0, source.REPO)


class Target:
    """One unit of work: a contract to verify, a lemma, or a provider of ground obligations."""

    def __init__(self, name, kind, run, functions=(), bounded=None, replay=None):
        self.name = name
        self.kind = kind              # 'contract' | 'lemma' | 'ground' | 'bounded'
        self.run = run                # callable(eng, opts) -> None  (appends to eng.obligations)
        self.functions = list(functions)
        self.bounded = bounded        # callable(opts) -> list of failing inputs (native small-scope search) | None
        self.replay = replay          # callable(model) -> (confirmed: bool, detail: str) | None


def load_property(pid):
    _setup_paths()
    mod = importlib.import_module(f"contracts.{pid.lower()}")
    return mod


def _worker(args):
    pid, tname, opts = args
    _setup_paths()
    t0 = time.time()
    from .engine import Engine
    from .ops import Unsupported
    from . import smt
    from .obl import Obligation
    out = {"target": tname, "obligations": [], "assumptions": [], "error": None, "stats": {}, "bounded_used": []}
    try:
        mod = load_property(pid)
        eng = Engine()
        targets = mod.targets(eng)
        tgt = [t for t in targets if t.name == tname][0]
        try:
            tgt.run(eng, opts)
        except Unsupported as e:
            eng.obligations.append(Obligation(id=f"{pid}/{tname}/supported", property=pid, kind="auxiliary", status="unsupported",
                                              goal="the generator can translate everything this target depends on",
                                              function=tname, detail=str(e)))
        out["bounded_used"] = list(getattr(eng, "bounded_used", []))
        out["obligations"] = [o.to_json() for o in eng.obligations]
        out["assumptions"] = sorted(eng.assumptions_used)
        out["stats"] = dict(smt.STATS)
    except Exception:
        out["error"] = traceback.format_exc()
    out["wall_s"] = round(time.time() - t0, 3)
    return out


def run_property(pid, tier="quick", seed=0, jobs=None, mutate=None):
    """Returns dict with obligations, errors...; pure data (no printing)."""
    _setup_paths()
    from .engine import Engine
    mod = load_property(pid)
    eng = Engine()
    targets = mod.targets(eng)
    opts = {"tier": tier, "seed": seed, "timeout_ms": 10000 if tier == "quick" else 60000, "both": tier == "thorough"}
    jobs = jobs or min(16, max(1, len(targets)))
    only = os.environ.get("PYVC_ONLY")          # run a subset of targets: development aid, and the first pass of the thorough tier's mutant self-check (pyvc/mutants.py)
    if only:
        targets = [t for t in targets if any(x in t.name for x in only.split(","))]
    work = [(pid, t.name, opts) for t in targets]
    if jobs == 1 or len(work) == 1:
        results = [_worker(w) for w in work]
    else:
        ctx = mp.get_context("fork")
        with ctx.Pool(jobs, maxtasksperchild=1) as pool:
            results = pool.map(_worker, work, chunksize=1)
    return mod, targets, results, opts


def load_known_findings():
    p = os.path.join(VERIF, "known_findings.json")
    if not os.path.exists(p):
        return []
    with open(p) as f:
        return json.load(f).get("findings", [])


def match_known(ob, findings):
    """A known finding matches on the obligation id and, when given, on values of the counter-model."""
    for f in findings:
        if f.get("status") != "open":
            continue
        if f.get("obligation_re"):
            import re
            if not re.fullmatch(f["obligation_re"], ob["id"]):
                continue
        elif f.get("obligation") != ob["id"]:
            continue
        mm = f.get("model_match")
        if mm:
            model = ob.get("model") or {}
            try:
                if not eval(mm, {"__builtins__": {"len": len, "isinstance": isinstance, "dict": dict, "list": list, "str": str, "int": int}}, {"m": model, "witness": ob.get("witness", ""), "path": ob.get("path", "")}):
                    continue
            except Exception:
                continue
        return f
    return None


def decide(pid, tier, seed, mod, targets, results, opts, t_start):
    """Verdict + evidence. Returns (exit_code, lines_to_print)."""
    lines = []
    findings = load_known_findings()
    obs = []
    errors = []
    assumptions = set(getattr(mod, "ASSUMPTIONS", []))
    stats = {"z3_queries": 0, "z3_s": 0.0, "cvc5_queries": 0, "cvc5_s": 0.0}
    for r in results:
        if r["error"]:
            errors.append((r["target"], r["error"]))
        obs.extend(r["obligations"])
        assumptions.update(r["assumptions"])
        for k in stats:
            stats[k] += r["stats"].get(k, 0)
    by_target = {t.name: t for t in targets}
    os.makedirs(os.path.join(OUT, "out", "replay"), exist_ok=True)
    violations = []
    known_hit = []
    undecided = []
    degraded = []
    disagreements = []
    # obligations belonging to this property only (a sidecar may tag clauses with other ids as well)
    mine = [o for o in obs if o["property"] == pid]
    standins = [o for o in mine if o["backend"].startswith("bounded")]       # bounded stand-ins: never counted as proved
    proofobs = [o for o in mine if not o["backend"].startswith("bounded")]
    n_total = len(proofobs)
    n_dis = sum(1 for o in proofobs if o["status"] == "discharged")
    # loops whose invariant (entry / preserved / decreases) is not discharged, per function: e.g. {"...data_received": {"loop#1"}}
    broken_loops: dict = {}
    for o in obs:
        if o["status"] != "discharged":
            m_ = re.search(r"/(loop#\d+)/(?:[^/]+/)?(?:entry|preserved)$|/(loop#\d+)/decreases$", o["id"])
            if m_:
                broken_loops.setdefault(o["function"], set()).add((m_.group(1) or m_.group(2)) + ":")
    for o in mine:
        if o["status"] == "discharged":
            continue
        tname = o["id"].split("/")[1] if "/" in o["id"] else ""
        tgt = None
        for t in targets:
            if o["function"] and (t.name == o["function"] or t.name.endswith(o["function"]) or o["function"].endswith(t.name)):
                tgt = t
                break
        kf = match_known(o, findings) if o["status"] == "refuted" else None
        if kf is not None:
            known_hit.append((o, kf))
            continue
        replay_res = None
        if o["status"] == "refuted" and tgt is not None and tgt.replay is not None and o.get("model") is not None:
            try:
                replay_res = tgt.replay(o)
            except Exception:
                replay_res = (None, "replay harness crashed: " + traceback.format_exc()[-400:])
            o["replay"] = {"confirmed": replay_res[0], "detail": replay_res[1]}
        if o["status"] == "refuted" and o["backend"].startswith("bounded") and o.get("model") is not None and replay_res is None:
            o["replay"] = {"confirmed": True, "detail": "failing input found natively on the real code by the bounded stand-in; model = that input"}
            replay_res = (True, "")
        if o["status"] == "refuted" and o["backend"] == "ground-eval" and o.get("model") is not None and replay_res is None:
            # the witness of a ground obligation is the offending entry of the program text itself, re-read from /repo
            o["replay"] = {"confirmed": True, "detail": "ground obligation evaluated on the working tree; model = the offending entry"}
            replay_res = (True, "")
        # A property clause refuted on a path that runs through a loop whose invariant obligations are themselves open: the state after
        # such a loop is whatever the (now unproved) invariant says, so the counter-model says nothing about the code.  The proof broke,
        # not necessarily the property: decided like a broken auxiliary step (native replay / bounded stand-in), never reported as a
        # violation on the strength of that counter-model alone.
        poisoned = o["status"] == "refuted" and o["kind"] == "property" and any(lk in (o.get("path") or "") for lk in broken_loops.get(o["function"], ()))
        spurious = o["status"] == "refuted" and o["kind"] == "property" and replay_res is not None and replay_res[0] is False
        if o["status"] == "refuted" and o["kind"] == "property" and not poisoned and not spurious:
            violations.append(o)
            continue
        if poisoned:
            o["detail"] = ("refuted only downstream of an unproved loop invariant; " + (o.get("detail") or ""))[:300]
        if spurious:
            # the solver's counter-model does not reproduce on the real code: the model exploited something the encoding leaves open
            # (an uninterpreted spec function without enough unfolding, an over-approximated library call).  The proof did not go
            # through; whether the property broke is left to the bounded stand-in - never a violation, never a silent pass.
            o["detail"] = ("counter-model does not reproduce on the real code: " + str((o.get("replay") or {}).get("detail"))[:160] + "; " + (o.get("detail") or ""))[:300]
        # auxiliary refuted, or unknown: the proof broke; bounded fallback decides whether the property broke
        if replay_res is not None and replay_res[0] is True:
            violations.append(o)
            continue
        fails = None
        if tgt is not None and tgt.bounded is not None:
            try:
                fails = tgt.bounded(opts)
            except Exception:
                fails = None
                o["detail"] += " | bounded fallback crashed: " + traceback.format_exc()[-300:]
        if fails:
            o["replay"] = {"confirmed": True, "detail": f"bounded search found failing input: {fails[0]!r}"[:600]}
            o["model"] = {"bounded_failing_input": repr(fails[0])[:400]}
            violations.append(o)
        elif fails is not None:
            degraded.append(o)
        else:
            undecided.append(o)
    # Clauses tagged with another property that are not discharged in one of this property's targets: this property's proofs
    # assume those clauses wherever the function is called, so they cannot be trusted while one is open.  (A clause that is a
    # listed known finding of its own property is that property's business and is not counted here.)
    seen_foreign = set()
    for o in obs:
        if o["property"] == pid or o["status"] == "discharged" or o["backend"].startswith("bounded") or o["id"] in seen_foreign:
            continue
        if o["status"] == "refuted" and match_known(o, findings) is not None:
            continue
        seen_foreign.add(o["id"])
        o = dict(o)
        o["detail"] = (f"a clause of property {o['property']} that this property's proofs rely on is {o['status']} here; " + (o.get("detail") or ""))[:300]
        undecided.append(o)
    code = 0
    seen_kf = set()
    for o, kf in known_hit:
        if kf.get("id", o["id"]) in seen_kf:
            continue
        seen_kf.add(kf.get("id", o["id"]))
        lines.append(f"KNOWN-FINDING: property={pid} {kf.get('what', o['id'])} [obligation {o['id']}]")
    if n_total == 0 and not errors:
        errors.append(("vacuity", "zero obligations generated"))
    seen_v = set()
    for o in violations:
        import hashlib
        if o["id"] in seen_v:
            continue
        seen_v.add(o["id"])
        rp = os.path.join(OUT, "out", "replay", f"{pid}-{hashlib.sha1(o['id'].encode()).hexdigest()[:10]}.json")
        with open(rp, "w") as f:
            json.dump({"property": pid, "obligation": o["id"], "kind": o["kind"], "goal": o["goal"], "function": o["function"],
                       "path": o["path"], "model": o["model"], "solver": o["backend"], "detail": o["detail"], "replay": o.get("replay")}, f, indent=1, default=str)
        confirmed = (o.get("replay") or {}).get("confirmed")
        suffix = "" if confirmed else " no-failing-input-found"
        lines.append(f"VIOLATION property={pid} replay={rp} obligation={o['id']}{suffix}")
        code = 1
    if code == 0 and (errors or disagreements):
        code = 3
    if code == 0 and undecided:
        code = 2
    for tn, e in errors:
        lines.append(f"CHECKER-ERROR target={tn}: {e.strip().splitlines()[-1] if e.strip() else e}")
    for o in disagreements:
        lines.append(f"ENGINE-DISAGREEMENT obligation={o['id']} (solver refuted, real code satisfies the contract on the model): {o.get('replay')}")
    for o in undecided:
        lines.append(f"UNDECIDED obligation={o['id']} status={o['status']} {o['detail'][:200]}")
    for o in degraded:
        lines.append(f"DEGRADED obligation={o['id']} status={o['status']}: proof step failed, bounded search found no failing input")
    # evidence
    bounded_used = sorted({b for r in results for b in r.get("bounded_used", [])})
    for b in bounded_used:
        lines.append(f"BOUNDED: {b} (not counted as proved)")
    proved_all = (n_dis == n_total and n_total > 0 and not known_hit and not errors and not violations and not bounded_used)
    level = getattr(mod, "LEVEL", "proof") if proved_all else "other"
    samples = [{k: o[k] for k in ("id", "kind", "status", "backend", "ms", "goal", "path")} for o in mine[:6]]
    non = [{k: o[k] for k in ("id", "kind", "status", "backend", "detail", "model")} for o in mine if o["status"] != "discharged"][:10]
    backends = {}
    for o in mine:
        backends[o["backend"] or "-"] = backends.get(o["backend"] or "-", 0) + 1
    functions = sorted({f for t in targets for f in t.functions})
    explanation = getattr(mod, "EXPLANATION", "")
    cov = {
        "obligations": n_total, "discharged": n_dis,
        "checker_cmd": f"./check {pid} --tier {tier}",
        "trusted_base": sorted(assumptions),
        "functions_under_contract": functions,
        "by_backend": backends,
        "solver_seconds": {k: round(v, 3) for k, v in stats.items() if k.endswith("_s")},
        "solver_queries": {k: v for k, v in stats.items() if k.endswith("_queries")},
        "property_obligations": sum(1 for o in mine if o["kind"] == "property"),
        "auxiliary_obligations": sum(1 for o in mine if o["kind"] == "auxiliary"),
        "targets": [{"name": r["target"], "wall_s": r["wall_s"], "obligations": len(r["obligations"])} for r in results],
        "samples": samples,
        "not_discharged": non,
        "known_findings_hit": [kf.get("id", o["id"]) for o, kf in known_hit],
        "degraded_to_bounded": [o["id"] for o in degraded],
        "undecided": [o["id"] for o in undecided],
        "dropped_by_extraction": DROPPED,
        "bounded": list(getattr(mod, "BOUNDED", [])) + [{"engine": "pyvc bounded unrolling", "what": b} for b in bounded_used],
        "bounded_standin_checks": {"run": len(standins), "passed": sum(1 for o in standins if o["status"] == "discharged"),
                                    "note": "bounded stand-ins, not counted in obligations/discharged"},
        "explanation": explanation or (
            "Obligations generated from the current /repo sources by pyvc (ast -> symbolic execution -> z3/cvc5); "
            "see DESIGN.md section 3."),
    }
    if not proved_all:
        cov["explanation"] = (f"{n_dis}/{n_total} obligations discharged; " + (f"{len(known_hit)} refuted obligation(s) are listed known findings; " if known_hit else "")
                              + (f"{len(degraded)} proof step(s) degraded to bounded search; " if degraded else "") + cov["explanation"])
    ev = {
        "property_id": pid, "tier": tier, "seed": seed, "level": level, "coverage": cov,
        "assumptions": sorted(assumptions) + list(getattr(mod, "NOT_DECIDED", [])),
        "wall_s": round(time.time() - t_start, 3), "violations": len(violations),
    }
    os.makedirs(os.path.join(OUT, "evidence"), exist_ok=True)
    with open(os.path.join(OUT, "evidence", f"{pid}.json"), "w") as f:
        json.dump(ev, f, indent=1, default=str)
    lines.append(f"{pid} tier={tier}: obligations={n_total} discharged={n_dis} violations={len(violations)} known={len(known_hit)} "
                 f"undecided={len(undecided)} degraded={len(degraded)} errors={len(errors)} wall={ev['wall_s']}s exit={code}")
    return code, lines


DROPPED = [
    "type annotations and `if TYPE_CHECKING:` blocks",
    "docstrings and comments",
    "_LOGGER.* calls and if-blocks whose body is only logging (A-LOG)",
    "f-strings / %-formatting that only build log or error message text become opaque strings (A-FSTRING)",
    "functools.lru_cache wrappers are the identity on the wrapped function (A-CACHE)",
    ".pxd files (claims are about the pure-Python build that is installed)",
]


def replay_main(path):
    """Re-decide the obligation recorded in a replay file against the current /repo tree."""
    with open(path) as f:
        rec = json.load(f)
    pid, oid = rec["property"], rec["obligation"]
    t0 = time.time()
    mod, targets, results, opts = run_property(pid, "quick", 0, None)
    code, lines = decide(pid, "quick", 0, mod, targets, results, opts, t0)
    hit = [ln for ln in lines if ln.startswith("VIOLATION") and f"obligation={oid}" in ln]
    print(json.dumps({"obligation": oid, "recorded_model": rec.get("model"), "recorded_replay": rec.get("replay")}, default=str)[:2000])
    if hit:
        print(hit[0])
        return 1
    print(f"replay: obligation {oid} is not violated on the current tree")
    return 0 if code in (0, 1) else code


def main(argv=None):
    import argparse
    argv = list(sys.argv[1:] if argv is None else argv)
    if argv and argv[0] == "--replay":
        return replay_main(argv[1])
    ap = argparse.ArgumentParser()
    ap.add_argument("pid")
    ap.add_argument("--tier", default=os.environ.get("VERIF_TIER", "quick"))
    ap.add_argument("--jobs", type=int, default=None)
    ap.add_argument("--verbose", "-v", action="store_true")
    a = ap.parse_args(argv)
    seed = int(os.environ.get("VERIF_SEED", "0") or 0)
    t0 = time.time()
    try:
        mod, targets, results, opts = run_property(a.pid, a.tier, seed, a.jobs)
        code, lines = decide(a.pid, a.tier, seed, mod, targets, results, opts, t0)
    except Exception:
        traceback.print_exc()
        print(f"CHECKER-ERROR {a.pid}: crashed")
        return 3
    if a.tier == "thorough" and code == 0 and getattr(mod, "MUTANTS", None) and not os.environ.get("PYVC_NO_SELFCHECK"):
        # self-check of the machinery (DESIGN 3.11 e): each built-in mutant of the real text must be refuted by a named obligation
        try:
            from . import mutants
            sc = mutants.self_check(a.pid)
            lines.append(f"SELF-CHECK {a.pid}: built-in mutants refuted {len(sc['caught'])}/{len(sc['caught']) + len(sc['missed'])}"
                         + (f", skipped {len(sc['skipped'])} (text no longer present)" if sc["skipped"] else ""))
            evp = os.path.join(OUT, "evidence", f"{a.pid}.json")
            ev = json.load(open(evp))
            ev["coverage"]["self_check_mutants"] = sc
            json.dump(ev, open(evp, "w"), indent=1)
            for m_ in sc["missed"]:
                lines.append(f"CHECKER-ERROR self-check: mutant {m_} of the real source is not refuted by any obligation")
                code = 3
        except Exception:
            lines.append("CHECKER-ERROR self-check crashed: " + traceback.format_exc()[-300:].replace("\n", " | "))
            code = 3
    if a.verbose:
        for r in results:
            for o in r["obligations"]:
                print(f"  {o['status']:11s} {o['kind']:9s} {o['id']}  [{o['backend']} {o['ms']}ms] {o['detail'][:100]}")
    for ln in lines:
        print(ln)
    return code


if __name__ == "__main__":
    sys.exit(main())

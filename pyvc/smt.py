"""SMT back ends: z3 (Python API) first, cvc5 (CLI on an SMT-LIB2 dump) for z3's unknowns.

Verdicts: "discharged" (negation unsat), "refuted" (negation sat, model kept),
"unknown".  A timeout or solver error is always "unknown", never a refutation.
"""
from __future__ import annotations

import os
import re
import subprocess
import tempfile
import time

import z3

QUICK_TIMEOUT_MS = int(os.environ.get("PYVC_TIMEOUT_MS", "10000"))
FEAS_TIMEOUT_MS = 150

STATS = {"z3_queries": 0, "z3_s": 0.0, "cvc5_queries": 0, "cvc5_s": 0.0, "feas_queries": 0, "feas_s": 0.0}


def _solver(timeout_ms: int) -> z3.Solver:
    s = z3.Solver()
    s.set("timeout", timeout_ms)
    return s


_FEAS_CACHE: dict = {}
CROSS_TIMEOUT_MS = 5000


def feasible(pc, extra=None, timeout_ms: int = FEAS_TIMEOUT_MS, full: bool = False) -> bool:
    """Path pruning only: unknown counts as feasible (sound: never drops a path).  full=True keeps quantified premises
    (used by the vacuity guard, where a contradiction hidden in a quantified precondition must be seen)."""
    key = (tuple(c.get_id() for c in pc), extra.get_id() if extra is not None else None, full)
    hit = _FEAS_CACHE.get(key)
    if hit is not None:
        return hit[0]
    r = _feasible(pc, extra, timeout_ms, full)
    _FEAS_CACHE[key] = (r, pc, extra)       # keep the terms alive so ids stay unique
    return r


def _feasible(pc, extra, timeout_ms, full=False) -> bool:
    t = time.time()
    s = _solver(timeout_ms)
    for c in pc:
        if z3.is_quantifier(c) and not full:
            continue          # pruning only: dropping a premise can only keep more paths (sound), and keeps these checks cheap
        s.add(c)
    if extra is not None:
        s.add(extra)
    r = s.check()
    STATS["feas_queries"] += 1
    STATS["feas_s"] += time.time() - t
    return r != z3.unsat


def _cvc5_check(smt2: str, timeout_ms: int):
    """Returns 'unsat' | 'sat' | 'unknown'."""
    text = "(set-logic ALL)\n" + smt2
    # z3 prints a few things cvc5 spells differently
    text = text.replace("(check-sat)", "") + "\n(check-sat)\n"
    with tempfile.NamedTemporaryFile("w", suffix=".smt2", delete=False, dir=os.environ.get("PYVC_TMP")) as f:
        f.write(text)
        path = f.name
    try:
        t = time.time()
        p = subprocess.run(
            ["/usr/bin/cvc5", "--strings-exp", f"--tlimit={timeout_ms}", path],
            capture_output=True, text=True, timeout=timeout_ms / 1000 + 5,
        )
        STATS["cvc5_queries"] += 1
        STATS["cvc5_s"] += time.time() - t
        out = p.stdout.strip().splitlines()
        if out and out[0] in ("unsat", "sat"):
            return out[0]
        return "unknown"
    except Exception:
        return "unknown"
    finally:
        try:
            os.unlink(path)
        except OSError:
            pass


def prove(pc, goal, timeout_ms: int | None = None, use_cvc5: bool = True, both: bool = False):
    """Try to prove  /\\pc => goal.

    Returns (status, model_or_None, backend, ms, detail).
    """
    timeout_ms = timeout_ms or QUICK_TIMEOUT_MS
    t = time.time()
    s = _solver(timeout_ms)
    for c in pc:
        s.add(c)
    s.add(z3.Not(goal))
    r = s.check()
    dt = time.time() - t
    STATS["z3_queries"] += 1
    STATS["z3_s"] += dt
    if r == z3.unknown:
        # the sequence solver is unstable: retry with other seeds and a shorter budget before giving up on z3
        for seed in (7, 1234):
            s2 = _solver(max(2000, timeout_ms // 3))
            s2.set("random_seed", seed)
            s2.set("smt.random_seed", seed) if False else None
            for c in pc:
                s2.add(c)
            s2.add(z3.Not(goal))
            t1 = time.time()
            r2 = s2.check()
            STATS["z3_queries"] += 1
            STATS["z3_s"] += time.time() - t1
            if r2 != z3.unknown:
                r, s = r2, s2
                dt = time.time() - t
                break
    if r == z3.unsat and not both:
        return "discharged", None, "z3", dt * 1000, ""
    if r == z3.sat:
        return "refuted", s.model(), "z3", dt * 1000, ""
    if not use_cvc5:
        if r == z3.unsat:
            return "discharged", None, "z3", dt * 1000, ""
        return "unknown", None, "z3", dt * 1000, "z3: " + s.reason_unknown()
    t2 = time.time()
    try:
        smt2 = s.to_smt2()
    except Exception as e:  # pragma: no cover
        return ("discharged" if r == z3.unsat else "unknown"), None, "z3", dt * 1000, f"smt2 dump failed: {e}"
    # cross-check of an obligation z3 already proved: a short cvc5 budget (its verdict cannot take the proof away,
    # only a `sat` would be reported as a disagreement); an obligation z3 left open gets the full budget
    c = _cvc5_check(smt2, min(timeout_ms, CROSS_TIMEOUT_MS) if r == z3.unsat else timeout_ms)
    dt2 = time.time() - t2
    if r == z3.unsat:
        # thorough tier: both solvers; cvc5 'unknown' does not take away z3's proof,
        # a cvc5 'sat' is a disagreement reported by the caller
        if c == "sat":
            return "unknown", None, "z3+cvc5", (dt + dt2) * 1000, "DISAGREEMENT z3=unsat cvc5=sat"
        return "discharged", None, ("z3+cvc5" if c == "unsat" else "z3"), (dt + dt2) * 1000, ("" if c == "unsat" else "cvc5: unknown")
    if c == "unsat":
        return "discharged", None, "cvc5", (dt + dt2) * 1000, "z3: " + s.reason_unknown()
    if c == "sat":
        # cvc5 gives no model through this path; report unknown-with-hint rather than a refutation
        return "unknown", None, "cvc5", (dt + dt2) * 1000, "z3: unknown; cvc5: sat (no model extracted)"
    return "unknown", None, "z3+cvc5", (dt + dt2) * 1000, "z3: " + s.reason_unknown() + "; cvc5: unknown"


def model_value(m: z3.ModelRef, e):
    """JSON-able Python value of expression e under model m."""
    v = m.eval(e, model_completion=True)
    return z3_to_py(v)


def z3_to_py(v):
    if z3.is_int_value(v):
        return v.as_long()
    if z3.is_true(v):
        return True
    if z3.is_false(v):
        return False
    if z3.is_rational_value(v):
        n, d = v.numerator_as_long(), v.denominator_as_long()
        return n / d if d != 1 else float(n)
    if z3.is_algebraic_value(v):
        return float(v.approx(10).as_fraction())
    if z3.is_string_value(v):
        return v.as_string()
    if z3.is_seq(v):
        out = _seq_to_list(v)
        if out is not None:
            return out
    return str(v)


def _seq_to_list(v):
    """Concrete z3 sequence term -> list of python values (or None)."""
    d = v.decl().kind()
    if d == z3.Z3_OP_SEQ_EMPTY:
        return []
    if d == z3.Z3_OP_SEQ_UNIT:
        return [z3_to_py(v.arg(0))]
    if d == z3.Z3_OP_SEQ_CONCAT:
        out = []
        for i in range(v.num_args()):
            x = _seq_to_list(v.arg(i))
            if x is None:
                return None
            out.extend(x)
        return out
    return None

"""Helpers shared by the sidecar contract modules in /verif/contracts."""
from __future__ import annotations

import z3

from . import source
from .builtins import ok, encode_elem
from .contracts import Contract, register_specs, verify, fresh
from .heapmodel import box, rget, rset, region
from .ops import *  # noqa: F401,F403
from .runner import Target
from .state import HObj
from .values import *  # noqa: F401,F403


def contract_target(c: Contract, bounded=None, replay=None, name=None):
    def run(eng, opts):
        eng.contracts[c.target] = c
        verify(eng, c, timeout_ms=opts.get("timeout_ms"), both=opts.get("both", False))
    return Target(name or (c.target.replace("aioesphomeapi.", "") + (f"[{c.label}]" if c.label else "")), "contract", run, functions=[c.target], bounded=bounded, replay=replay)


def register_lemmas(eng, modname, contracts):
    """Make the lemma functions of a sidecar module callable by name from any ghost code."""
    names = eng.hooks.setdefault("names", {})
    m = source.get_module(modname)
    out = []
    for c in contracts:
        eng.contracts[c.target] = c
        fn = c.target.split(".")[-1]
        names[fn] = VFunc("py", node=m.funcs[fn], module=modname, qualname=fn, closure=None)
        out.append(contract_target(c, name="lemma:" + fn))
    return out


def ground_target(name, fn, functions=()):
    def run(eng, opts):
        eng.obligations.extend(fn())
    return Target(name, "ground", run, functions=functions)


def declare_ghost(eng, **types):
    eng.ghost_types.update(types)

    def init_ghost(eng_, st, c):
        g = st.heap[st.ghost_oid]
        for k, ty in eng_.ghost_types.items():
            if k not in g.f:
                g.f[k] = fresh(eng_, st, ty, "ghost." + k)
    eng.hooks["init_ghost"] = init_ghost


def ghost_append(eng, st, name, v):
    """ghost.<name> (a symbolic sequence) := ghost.<name> ++ [v]"""
    g = st.heap[st.ghost_oid]
    cur = g.f[name]
    e = encode_elem(eng, st, v, cur.elem)
    g.f[name] = VSeq(simp(z3.Concat(cur.e, z3.Unit(e))), cur.elem, cur.is_tuple)


def setup_common(eng):
    """Spec functions, ghost logs and opaque kinds used by several properties."""
    register_specs(eng, "specs.wire")
    declare_ghost(eng, wire="seq[bytes]", packets="seq[tuple[int,bytes]]")
    eng.exception_universe.extend([Exception, OSError, RuntimeError, ConnectionResetError, TimeoutError, ValueError,
                                   KeyError, IndexError, TypeError, AttributeError])

    # transport.write  (== the frame helper's _writer): appends to ghost.wire, may fail with a write error
    def writer_call(eng_, st, fv, args, kwargs):
        out = []
        s_ok = st
        s_err = st.clone()
        data = args[0]
        o = st.heap[data.oid] if isinstance(data, VRef) else None
        dv = VBytes(o.f["e"]) if o is not None and o.kind == "buf" else data
        ghost_append(eng_, s_ok, "wire", VBytes(dv.e))
        out.append((s_ok, VNone))
        if eng_.hooks.get("writer_may_fail", True):
            import builtins as pyb
            for cls in (OSError, RuntimeError):
                s2 = s_err.clone()
                s2.note(f"write!{cls.__name__}")
                out.append((s2, Raised(eng_.fresh_exception(s2, cls))))
        return out
    eng.callout_models["Writer"] = writer_call


FRAME_HELPER_FIELDS = {
    "_loop": "obj[Loop]",
    "_connection": "obj[Connection]",
    "_transport": "opt[obj[Transport]]",
    "_writer": "opt[callable[Writer]]",
    "ready_future": "obj[Future]",
    "_buffer": "opt[bytes]",
    "_buffer_len": "int",
    "_pos": "int",
    "_client_info": "str",
    "_log_name": "str",
}

NOISE_HELPER_FIELDS = dict(FRAME_HELPER_FIELDS, **{
    "_noise_psk": "str",
    "_expected_name": "opt[str]",
    "_state": "int",
    "_server_name": "opt[str]",
    "_proto": "obj[NoiseProto]",
    "_encrypt_cipher": "opt[inst[EncryptCipher]]",
    "_decrypt_cipher": "opt[inst[DecryptCipher]]",
})


def frame_helper_specs(eng):
    from aioesphomeapi._frame_helper.base import APIFrameHelper
    from aioesphomeapi._frame_helper.plain_text import APIPlaintextFrameHelper
    from aioesphomeapi._frame_helper.noise import APINoiseFrameHelper, EncryptCipher, DecryptCipher
    eng.add_class_spec("APIFrameHelper", APIFrameHelper, FRAME_HELPER_FIELDS)
    eng.add_class_spec("APIPlaintextFrameHelper", APIPlaintextFrameHelper, FRAME_HELPER_FIELDS)
    eng.add_class_spec("EncryptCipher", EncryptCipher, {"_nonce": "int", "_encrypt": "callable[AeadEncrypt]"})
    eng.add_class_spec("DecryptCipher", DecryptCipher, {"_nonce": "int", "_decrypt": "callable[AeadDecrypt]"})
    eng.add_class_spec("APINoiseFrameHelper", APINoiseFrameHelper, NOISE_HELPER_FIELDS)

"""Loads the real sources: every run re-reads the working tree files of the package.

Function bodies always come from the file text (ast); module-level *values*
(constants, classes, tables) come from importing the same files in this process.
"""
from __future__ import annotations

import ast
import importlib
import os
import sys

REPO = os.environ.get("PYVC_REPO", "/repo")


class ModuleSrc:
    def __init__(self, modname: str, path: str):
        self.modname = modname
        self.path = path
        if path in OVERRIDES:
            self.text = OVERRIDES[path]       # in-memory mutant of the real text (self-test only)
        else:
            with open(path, "r", encoding="utf-8") as f:
                self.text = f.read()
        self.tree = ast.parse(self.text, filename=path)
        self.funcs: dict[str, ast.AST] = {}      # qualname -> FunctionDef/AsyncFunctionDef
        self.classes: dict[str, ast.ClassDef] = {}
        self._index(self.tree.body, "")

    def _index(self, body, prefix):
        for n in body:
            if isinstance(n, (ast.FunctionDef, ast.AsyncFunctionDef)):
                self.funcs[prefix + n.name] = n
                self._index_nested(n, prefix + n.name + ".<locals>.")
            elif isinstance(n, ast.ClassDef):
                self.classes[prefix + n.name] = n
                self._index(n.body, prefix + n.name + ".")
            elif isinstance(n, ast.If):
                # e.g. `if sys.version_info >= ...:` at module level: index both arms, first wins
                self._index(n.body, prefix)
                self._index(n.orelse, prefix)

    def _index_nested(self, fn, prefix):
        for n in ast.walk(fn):
            if n is fn:
                continue
            if isinstance(n, (ast.FunctionDef, ast.AsyncFunctionDef)):
                self.funcs.setdefault(prefix + n.name, n)


_MODS: dict[str, ModuleSrc] = {}
OVERRIDES: dict[str, str] = {}


def set_override(path: str, text: str | None):
    """Replace (or restore, text=None) the text of one source file in memory and drop cached ASTs."""
    if text is None:
        OVERRIDES.pop(path, None)
    else:
        OVERRIDES[path] = text
    _MODS.clear()

_EXTRA_ROOTS: dict[str, str] = {}   # top-level package name -> directory containing it


def add_root(pkg: str, directory: str):
    _EXTRA_ROOTS[pkg] = directory


def module_path(modname: str) -> str | None:
    top = modname.split(".")[0]
    root = _EXTRA_ROOTS.get(top, REPO if top == "aioesphomeapi" else None)
    if root is None:
        return None
    base = os.path.join(root, *modname.split("."))
    for cand in (base + ".py", os.path.join(base, "__init__.py")):
        if os.path.exists(cand):
            return cand
    return None


def get_module(modname: str) -> ModuleSrc | None:
    if modname in _MODS:
        return _MODS[modname]
    p = module_path(modname)
    if p is None:
        return None
    m = ModuleSrc(modname, p)
    _MODS[modname] = m
    return m


def get_func(qualified: str):
    """'aioesphomeapi.connection.APIConnection._cleanup' -> (ModuleSrc, node, qualname)"""
    parts = qualified.split(".")
    for i in range(len(parts) - 1, 0, -1):
        modname = ".".join(parts[:i])
        m = get_module(modname)
        if m is not None:
            qn = ".".join(parts[i:])
            if qn in m.funcs:
                return m, m.funcs[qn], qn
            return None
    return None


def import_live(modname: str):
    """Import the real module from the working tree (REPO must be first on sys.path for the package)."""
    top = modname.split(".")[0]
    root = _EXTRA_ROOTS.get(top, REPO if top == "aioesphomeapi" else None)
    if root and root not in sys.path:
        sys.path.insert(0, root)
    return importlib.import_module(modname)


def func_source_key(fn) -> str | None:
    """Live python function -> 'module.qualname' if it is defined in a module we read from text."""
    fn = getattr(fn, "__wrapped__", fn)
    mod = getattr(fn, "__module__", None)
    qn = getattr(fn, "__qualname__", None)
    if mod is None or qn is None:
        return None
    if get_module(mod) is None:
        return None
    return mod + "." + qn

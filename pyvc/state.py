"""Execution state of one symbolic path: frames, heap, path condition, ghost namespace."""
from __future__ import annotations

import z3
from .values import V


class HObj:
    """Heap object.

    kind 'env'  : f = local variables (+ '__parent__' -> env oid or None)
         'inst' : instance of a class under contract / model class / exception: f = attributes
         'msg'  : protobuf message: f = fields
         'list' : f['items'] = python list of V
         'buf'  : bytearray: f['e'] = z3 Seq(Int)
         'dict' : concrete-key dict: f['items'] = {key_repr: (keyV, valV)}
         'smap' : symbolic map  key(Int code) -> set of Obj : f['has'] Array(Int,Bool), f['set'] Array(Int,Set(Obj))
         'cell' : ghost namespace / misc
    """

    __slots__ = ("kind", "cls", "f")

    def __init__(self, kind, cls=None, f=None):
        self.kind = kind
        self.cls = cls
        self.f = f if f is not None else {}

    def clone(self):
        f = dict(self.f)
        if self.kind == "list":
            f["items"] = list(f["items"])
        elif self.kind == "dict":
            f["items"] = dict(f["items"])
        return HObj(self.kind, self.cls, f)


class State:
    def __init__(self):
        self.heap: dict[int, HObj] = {}
        self.next_oid = 1
        self.frames: list[int] = []          # env oids
        self.pc: list = []                    # z3 Bool
        self.trace: list[str] = []            # branch decisions, for reports
        self.regions: dict[str, object] = {}  # 'Class.field' -> z3 Array(Obj, sort)
        self.ghost_oid: int | None = None
        self.old: "State | None" = None       # entry snapshot for old(...)
        self.labels: dict[str, "State"] = {}  # named snapshots (loop entry, segment start)
        self.events: list = []                # concrete per-path event log (call-outs, cut points)
        self.depth = 0
        self.facts = set()
        self._keep = []

    def clone(self) -> "State":
        s = State.__new__(State)
        s.heap = {k: v.clone() for k, v in self.heap.items()}
        s.next_oid = self.next_oid
        s.frames = list(self.frames)
        s.pc = list(self.pc)
        s.trace = list(self.trace)
        s.regions = dict(self.regions)
        s.ghost_oid = self.ghost_oid
        s.old = self.old
        s.labels = dict(self.labels)
        s.events = list(self.events)
        s.depth = self.depth
        s.facts = set(self.facts)
        s._keep = list(self._keep)
        return s

    # -- heap helpers
    def alloc(self, obj: HObj) -> int:
        oid = self.next_oid
        self.next_oid += 1
        self.heap[oid] = obj
        return oid

    @property
    def env(self) -> HObj:
        return self.heap[self.frames[-1]]

    def assume(self, c):
        if z3.is_true(c):
            return
        self.pc.append(c)

    def fact(self, c):
        """Assume an always-true statement (type invariant instance, definitional instance): unlike a branch
        condition it may be exported from a scratch evaluation into the real state."""
        if z3.is_true(c):
            return
        self.pc.append(c)
        self.facts.add(c.get_id())
        self._keep.append(c)

    def note(self, s: str):
        self.trace.append(s)

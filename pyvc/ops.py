"""Operations on symbolic values: arithmetic, comparison, truthiness, merging."""
from __future__ import annotations

import ast
import z3

from .values import *  # noqa: F401,F403


class Unsupported(Exception):
    """The executor has no transfer function for something: the target is 'unsupported', never a pass."""


class MergeFail(Exception):
    pass


# uninterpreted helpers for bit operations with symbolic shift amounts (A-BITS)
bor_f = z3.Function("bor", IntS, IntS, IntS)
shl_f = z3.Function("shl", IntS, IntS, IntS)
pow2_f = z3.Function("pow2", IntS, IntS)
f32_f = z3.Function("f32", RealS, RealS)            # float32 rounding (uninterpreted)
str_of_int_f = z3.Function("str_of_int", IntS, StrS)


def is_conc_int(e):
    return z3.is_int_value(e)


def _has_nth(e, seen=None):
    seen = seen if seen is not None else set()
    if e.get_id() in seen:
        return False
    seen.add(e.get_id())
    if z3.is_app(e):
        if e.decl().kind() == z3.Z3_OP_SEQ_NTH:
            return True
        return any(_has_nth(c, seen) for c in e.children())
    return False


def simp(e):
    # z3.simplify expands seq.nth into nth_i / nth_u case splits, which hurts the sequence solver: leave such terms alone
    if _has_nth(e):
        return e
    return z3.simplify(e)


def as_real(v):
    if isinstance(v, VReal):
        return v.e
    if isinstance(v, VInt):
        return z3.ToReal(v.e)
    if isinstance(v, VBool):
        return z3.If(v.e, z3.RealVal(1), z3.RealVal(0))
    raise Unsupported(f"not a number: {v}")


def as_int(v):
    if isinstance(v, VInt):
        return v.e
    if isinstance(v, VBool):
        return z3.If(v.e, z3.IntVal(1), z3.IntVal(0))
    if isinstance(v, VEnum):
        return v.e
    raise Unsupported(f"not an int: {v}")


def _pow2_const(k: int):
    return z3.IntVal(1 << k)


def py_floordiv(a, b):
    """Python // on ints (floor) in terms of SMT div (euclidean for positive divisor)."""
    if is_conc_int(b) and b.as_long() > 0:
        return a / b          # z3 Int division: floor for positive divisor
    # general: floor division
    return z3.If(b > 0, a / b, z3.If(a % b == 0, a / b, -((-a) / (-b)) if False else (a / b)))


def int_binop(op, a, b):
    """a, b z3 Int exprs; returns z3 Int expr. Bit ops are exact for the shapes used in the code base."""
    if isinstance(op, ast.Add):
        return a + b
    if isinstance(op, ast.Sub):
        return a - b
    if isinstance(op, ast.Mult):
        return a * b
    if isinstance(op, ast.FloorDiv):
        if is_conc_int(b) and b.as_long() > 0:
            return a / b
        raise Unsupported("floor division by a non-constant or non-positive divisor")
    if isinstance(op, ast.Mod):
        if is_conc_int(b) and b.as_long() > 0:
            return a % b
        raise Unsupported("modulo by a non-constant or non-positive divisor")
    if isinstance(op, ast.BitAnd):
        # x & (2^k - 1)  ==  x mod 2^k   (exact for all Python ints, two's complement semantics)
        for x, m in ((a, b), (b, a)):
            if is_conc_int(m):
                mv = m.as_long()
                if mv >= 0 and (mv + 1) & mv == 0:
                    return x % z3.IntVal(mv + 1)
                if mv > 0 and mv & (mv - 1) == 0:
                    # x & 2^k  == ((x div 2^k) mod 2) * 2^k
                    return ((x / z3.IntVal(mv)) % 2) * z3.IntVal(mv)
        if is_conc_int(a) and is_conc_int(b):
            return z3.IntVal(a.as_long() & b.as_long())
        raise Unsupported("& with a non-mask constant")
    if isinstance(op, ast.RShift):
        if is_conc_int(b) and b.as_long() >= 0:
            return a / _pow2_const(b.as_long())      # floor division: exact for negative a too
        raise Unsupported(">> by a symbolic amount")
    if isinstance(op, ast.LShift):
        if is_conc_int(b) and b.as_long() >= 0:
            return a * _pow2_const(b.as_long())
        _BITS["used"] = True
        return shl_f(a, b)
    if isinstance(op, ast.BitOr):
        if is_conc_int(a) and is_conc_int(b):
            return z3.IntVal(a.as_long() | b.as_long())
        # (hi * 2^k) | lo with 0 <= lo < 2^k is hi*2^k + lo : recognised structurally
        r = _or_as_add(a, b)
        if r is not None:
            return r
        _BITS["used"] = True
        return bor_f(a, b)
    if isinstance(op, ast.Pow):
        if is_conc_int(a) and is_conc_int(b) and b.as_long() >= 0:
            return z3.IntVal(a.as_long() ** b.as_long())
        raise Unsupported("** on symbolic ints")
    raise Unsupported(f"int op {op}")


def _mult_pow2(e):
    """If e is syntactically  x * 2^k  return k else None."""
    if z3.is_mul(e) and e.num_args() == 2:
        for i in (0, 1):
            c = e.arg(i)
            if is_conc_int(c):
                v = c.as_long()
                if v > 0 and v & (v - 1) == 0:
                    return v.bit_length() - 1
    return None


def _bounded_below_pow2(e, k):
    """Syntactic check that 0 <= e < 2^k : e is `x mod m` with m <= 2^k, or a constant."""
    if is_conc_int(e):
        return 0 <= e.as_long() < (1 << k)
    if z3.is_mod(e) and is_conc_int(e.arg(1)):
        m = e.arg(1).as_long()
        return 0 < m <= (1 << k)
    return False


def _or_as_add(a, b):
    for hi, lo in ((a, b), (b, a)):
        k = _mult_pow2(hi)
        if k is not None and _bounded_below_pow2(lo, k):
            return hi + lo
    # temp | 0x80 with 0 <= temp < 128
    for x, c in ((a, b), (b, a)):
        if is_conc_int(c):
            cv = c.as_long()
            if cv > 0 and cv & (cv - 1) == 0 and _bounded_below_pow2(x, cv.bit_length() - 1):
                return x + c
    return None


_BITS = {"used": False}


def bit_axioms(terms):
    if not _BITS["used"]:
        return []          # no bor/shl application was ever built in this process
    return _bit_axioms(terms)


def _bit_axioms(terms):
    """Axiom instances for bor/shl applications occurring in `terms` (A-BITS):
         shl(b,k) = b * pow2(k);  pow2(0)=1; pow2(k+7) = 128*pow2(k) is added by the user of pow2
         0<=a<pow2(k) & b>=0  =>  bor(a, shl(b,k)) = a + shl(b,k)
    """
    out = []
    seen = set()
    shls = []

    def walk(e):
        if e.get_id() in seen:
            return
        seen.add(e.get_id())
        if z3.is_app(e):
            d = e.decl()
            if d.eq(shl_f):
                b, k = e.arg(0), e.arg(1)
                out.append(z3.Implies(k >= 0, e == b * pow2_f(k)))
                out.append(z3.Implies(k >= 0, pow2_f(k) >= 1))
                out.append(z3.Implies(z3.And(k >= 0, b >= 0), e >= 0))
                # a 7-bit group shifted left by k stays below 2^(k+7): the linear form of  b * 2^k <= 127 * 2^k
                out.append(z3.Implies(z3.And(k >= 0, b >= 0, b < 128), e <= 127 * pow2_f(k)))
                shls.append(e)
            if d.eq(bor_f):
                a, s = e.arg(0), e.arg(1)
                out.append(z3.Implies(z3.And(a >= 0, s >= 0), e >= 0))
                for x, y in ((a, s), (s, a)):
                    if z3.is_app(y) and y.decl().eq(shl_f):
                        b, k = y.arg(0), y.arg(1)
                        out.append(z3.Implies(z3.And(x >= 0, x < pow2_f(k), b >= 0, k >= 0), e == x + y))
                    kc = _mult_pow2(y)
                    if kc is not None:
                        # (hi * 2^k) | lo  ==  hi * 2^k + lo   when 0 <= lo < 2^k and hi >= 0   (disjoint bit ranges)
                        out.append(z3.Implies(z3.And(x >= 0, x < (1 << kc), y >= 0), e == x + y))
            for c in e.children():
                walk(c)

    for t in terms:
        walk(t)
    # the same value shifted by amounts that differ by a constant:  b << (k + d) = 2^d * (b << k)   (linear, no product of unknowns)
    for i, x in enumerate(shls):
        for y in shls[i + 1:]:
            if x.arg(0).eq(y.arg(0)):
                dd = z3.simplify(x.arg(1) - y.arg(1))
                if z3.is_int_value(dd):
                    dv = dd.as_long()
                    if 0 < dv <= 64:
                        out.append(z3.Implies(y.arg(1) >= 0, x == (1 << dv) * y))
                    elif -64 <= dv < 0:
                        out.append(z3.Implies(x.arg(1) >= 0, y == (1 << -dv) * x))
    # shl applications whose shift amounts differ by a constant: pow2(a) = 2^d * pow2(b)
    ks = []
    seen_k = set()
    def collect(e):
        if e.get_id() in seen_k:
            return
        seen_k.add(e.get_id())
        if z3.is_app(e):
            if e.decl().eq(shl_f):
                ks.append(e.arg(1))
            elif e.decl().eq(pow2_f):
                ks.append(e.arg(0))
            for c in e.children():
                collect(c)
    for t in terms:
        collect(t)
    uniq = []
    for k in ks:
        if not any(k.eq(u) for u in uniq):
            uniq.append(k)
    for i, a in enumerate(uniq):
        out.append(z3.Implies(a == 0, pow2_f(a) == 1))
        for b in uniq[i + 1:]:
            d = z3.simplify(a - b)
            if z3.is_int_value(d):
                dv = d.as_long()
                if 0 < dv <= 64:
                    out.append(z3.Implies(b >= 0, pow2_f(a) == (1 << dv) * pow2_f(b)))
                elif -64 <= dv < 0:
                    out.append(z3.Implies(a >= 0, pow2_f(b) == (1 << -dv) * pow2_f(a)))
    return out


def num_binop(op, a: V, b: V) -> V:
    if isinstance(a, VReal) or isinstance(b, VReal) or isinstance(op, ast.Div):
        x, y = as_real(a), as_real(b)
        if isinstance(op, ast.Add):
            return VReal(x + y)
        if isinstance(op, ast.Sub):
            return VReal(x - y)
        if isinstance(op, ast.Mult):
            return VReal(x * y)
        if isinstance(op, ast.Div):
            return VReal(x / y)
        raise Unsupported(f"float op {op}")
    return VInt(simp(int_binop(op, as_int(a), as_int(b))))


def seq_len(e):
    return z3.Length(e)


def truth(v: V, st=None):
    """z3 Bool for Python truthiness (st: state, needed for references to heap objects)."""
    if isinstance(v, VRef):
        if st is None:
            raise Unsupported(f"truth of {v} without a state")
        o = st.heap[v.oid]
        if o.kind in ("inst", "msg", "cell", "env"):
            return z3.BoolVal(True)          # classes in scope define neither __bool__ nor __len__
        if o.kind in ("list", "cset"):
            return z3.BoolVal(len(o.f["items"]) > 0)
        if o.kind == "dict":
            return z3.BoolVal(len(o.f["items"]) > 0)
        if o.kind in ("buf", "slist"):
            return z3.Length(o.f["e"]) > 0
        if o.kind == "sset":
            return o.f["e"] != z3.EmptySet(ObjS)
        raise Unsupported(f"truth of heap object kind {o.kind}")
    if isinstance(v, VBool):
        return v.e
    if isinstance(v, VNoneT):
        return z3.BoolVal(False)
    if isinstance(v, VInt):
        return v.e != 0
    if isinstance(v, VReal):
        return v.e != 0
    if isinstance(v, (VBytes, VStr)):
        return z3.Length(v.e) > 0
    if isinstance(v, VSeq):
        return z3.Length(v.e) > 0
    if isinstance(v, VTuple):
        return z3.BoolVal(len(v.items) > 0)
    if isinstance(v, VEnum):
        import enum
        if issubclass(v.cls, enum.IntEnum):
            return v.e != 0
        return z3.BoolVal(True)
    if isinstance(v, (VObj, VClass, VFunc, VModule)):
        return z3.BoolVal(True)
    if isinstance(v, VUnion):
        return z3.Or(*[z3.And(g, truth(a, st)) for g, a in v.alts])
    raise Unsupported(f"truth of {v}")


def is_none(v: V):
    if isinstance(v, VNoneT):
        return z3.BoolVal(True)
    if isinstance(v, VUnion):
        return simp(z3.Or(*[z3.And(g, is_none(a)) for g, a in v.alts]))
    return z3.BoolVal(False)


def mk_union(alts):
    """Flatten nested unions, drop false guards, collapse single alternative."""
    flat = []
    for g, a in alts:
        g = simp(g)
        if z3.is_false(g):
            continue
        if isinstance(a, VUnion):
            for g2, a2 in a.alts:
                gg = simp(z3.And(g, g2))
                if not z3.is_false(gg):
                    flat.append((gg, a2))
        else:
            flat.append((g, a))
    # combine alternatives of the same simple class
    out = []
    for g, a in flat:
        for i, (g0, a0) in enumerate(out):
            m = _try_merge_simple(g, a, a0)
            if m is not None:
                out[i] = (simp(z3.Or(g0, g)), m)
                break
        else:
            out.append((g, a))
    if len(out) == 1:
        return out[0][1]
    if not out:
        raise Unsupported("empty union")
    return VUnion(out)


def _try_merge_simple(g, a, b):
    """value equal to `a` under g else `b`, when both have the same scalar representation."""
    if a is b:
        return a
    if isinstance(a, VNoneT) and isinstance(b, VNoneT):
        return VNone
    if type(a) is not type(b):
        return None
    if isinstance(a, VInt):
        return VInt(simp(z3.If(g, a.e, b.e)))
    if isinstance(a, VBool):
        return VBool(simp(z3.If(g, a.e, b.e)))
    if isinstance(a, VReal):
        return VReal(simp(z3.If(g, a.e, b.e)))
    if isinstance(a, VStr):
        return VStr(simp(z3.If(g, a.e, b.e)))
    if isinstance(a, VBytes):
        return VBytes(simp(z3.If(g, a.e, b.e)), simp(z3.If(g, a.kind, b.kind)))
    if isinstance(a, VEnum) and a.cls is b.cls:
        return VEnum(a.cls, simp(z3.If(g, a.e, b.e)))
    if isinstance(a, VObj) and a.cls == b.cls:
        return VObj(simp(z3.If(g, a.e, b.e)), a.cls)
    if isinstance(a, VRef) and a.oid == b.oid:
        return a
    if isinstance(a, VClass) and a.py is b.py:
        return a
    if isinstance(a, VSeq) and (a.elem is b.elem or repr(a.elem) == repr(b.elem)):
        return VSeq(simp(z3.If(g, a.e, b.e)), a.elem, a.is_tuple)
    if isinstance(a, VTuple) and len(a.items) == len(b.items):
        items = []
        for x, y in zip(a.items, b.items):
            m = merge_value(g, x, y)
            items.append(m)
        return VTuple(items)
    return None


def merge_value(g, a: V, b: V) -> V:
    """Value that is `a` when g holds, else `b`."""
    if a is b:
        return a
    m = _try_merge_simple(g, a, b)
    if m is not None:
        return m
    if isinstance(a, VFunc) or isinstance(b, VFunc):
        if isinstance(a, VFunc) and isinstance(b, VFunc) and _same_func(a, b):
            return a
    return mk_union([(g, a), (z3.Not(g), b)])


def _same_func(a, b):
    if a.kind != b.kind:
        return False
    da = {k: v for k, v in a.__dict__.items()}
    db = {k: v for k, v in b.__dict__.items()}
    if da.keys() != db.keys():
        return False
    for k in da:
        x, y = da[k], db[k]
        if x is y:
            continue
        if isinstance(x, VFunc) and isinstance(y, VFunc) and _same_func(x, y):
            continue
        if isinstance(x, VRef) and isinstance(y, VRef) and x.oid == y.oid:
            continue
        if isinstance(x, (str, int, type(None))) and x == y:
            continue
        if isinstance(x, (list, tuple)) and isinstance(y, (list, tuple)) and len(x) == len(y) and all(
            (p is q) or (isinstance(p, VRef) and isinstance(q, VRef) and p.oid == q.oid) for p, q in zip(x, y)
        ):
            continue
        if isinstance(x, dict) and isinstance(y, dict) and not x and not y:
            continue
        return False
    return True


def values_equal(a: V, b: V):
    """z3 Bool for Python ==  (structural for the modelled types)."""
    r = _class_cmp(a, b)
    if r is not None:
        return r
    if isinstance(a, VUnion):
        return simp(z3.Or(*[z3.And(g, values_equal(x, b)) for g, x in a.alts]))
    if isinstance(b, VUnion):
        return simp(z3.Or(*[z3.And(g, values_equal(a, x)) for g, x in b.alts]))
    if isinstance(a, VNoneT) or isinstance(b, VNoneT):
        return z3.BoolVal(isinstance(a, VNoneT) and isinstance(b, VNoneT))
    num = (VInt, VBool, VReal)
    if isinstance(a, num) and isinstance(b, num):
        if isinstance(a, VReal) or isinstance(b, VReal):
            return as_real(a) == as_real(b)
        return as_int(a) == as_int(b)
    if isinstance(a, VEnum) or isinstance(b, VEnum):
        import enum
        if isinstance(a, VEnum) and isinstance(b, VEnum):
            return z3.BoolVal(False) if a.cls is not b.cls else a.e == b.e
        e, o = (a, b) if isinstance(a, VEnum) else (b, a)
        if issubclass(e.cls, enum.IntEnum) and isinstance(o, num):
            return e.e == as_int(o)
        return z3.BoolVal(False)
    if isinstance(a, VStr) and isinstance(b, VStr):
        return a.e == b.e
    if isinstance(a, VBytes) and isinstance(b, VBytes):
        # bytes == bytearray compares contents in Python
        return a.e == b.e
    if isinstance(a, VTuple) and isinstance(b, VTuple):
        if len(a.items) != len(b.items):
            return z3.BoolVal(False)
        return simp(z3.And(*[values_equal(x, y) for x, y in zip(a.items, b.items)])) if a.items else z3.BoolVal(True)
    if isinstance(a, VSeq) and isinstance(b, VSeq):
        return a.e == b.e
    if isinstance(a, VObj) and isinstance(b, VObj):
        return a.e == b.e
    if isinstance(a, VRef) and isinstance(b, VRef):
        return z3.BoolVal(a.oid == b.oid)      # identity; structural equality of heap objects handled by the engine
    if isinstance(a, VClass) and isinstance(b, VClass):
        return z3.BoolVal(a.py is b.py)
    if isinstance(a, VFunc) and isinstance(b, VFunc):
        return z3.BoolVal(_same_func(a, b))
    if type(a) is not type(b):
        return z3.BoolVal(False)
    raise Unsupported(f"== on {a} and {b}")


CLASS_KEY = {"fn": None}       # set by builtins: value -> z3 Int class code for VClass / symbolic classes, else None


def _class_cmp(a, b):
    f = CLASS_KEY["fn"]
    if f is None:
        return None
    sym = lambda v: isinstance(v, VFunc) and v.kind in ("typeof", "symcls")      # noqa: E731
    if (sym(a) and (sym(b) or isinstance(b, VClass))) or (sym(b) and isinstance(a, VClass)):
        ka, kb = f(a), f(b)
        if ka is not None and kb is not None:
            return ka == kb
    return None


def values_identical(a: V, b: V):
    """z3 Bool for Python `is` on the modelled values (None, enum members, bools, classes, objects)."""
    r = _class_cmp(a, b)
    if r is not None:
        return r
    if isinstance(a, VUnion):
        return simp(z3.Or(*[z3.And(g, values_identical(x, b)) for g, x in a.alts]))
    if isinstance(b, VUnion):
        return simp(z3.Or(*[z3.And(g, values_identical(a, x)) for g, x in b.alts]))
    if isinstance(a, VNoneT) or isinstance(b, VNoneT):
        return z3.BoolVal(isinstance(a, VNoneT) and isinstance(b, VNoneT))
    if isinstance(a, VBool) and isinstance(b, VBool):
        return a.e == b.e
    if isinstance(a, VEnum) and isinstance(b, VEnum):
        return z3.BoolVal(False) if a.cls is not b.cls else a.e == b.e
    if isinstance(a, VClass) and isinstance(b, VClass):
        return z3.BoolVal(a.py is b.py)
    if isinstance(a, VRef) and isinstance(b, VRef):
        return z3.BoolVal(a.oid == b.oid)
    if isinstance(a, VObj) and isinstance(b, VObj):
        return a.e == b.e
    if isinstance(a, VFunc) and isinstance(b, VFunc):
        return z3.BoolVal(_same_func(a, b))
    if type(a) is not type(b):
        return z3.BoolVal(False)
    if isinstance(a, VInt):
        # small-int identity is an implementation detail; only used as `x is False`-style in this code base
        return a.e == b.e
    raise Unsupported(f"`is` on {a} and {b}")


def compare(op, a: V, b: V):
    if isinstance(op, ast.Eq):
        return values_equal(a, b)
    if isinstance(op, ast.NotEq):
        return z3.Not(values_equal(a, b))
    if isinstance(op, ast.Is):
        return values_identical(a, b)
    if isinstance(op, ast.IsNot):
        return z3.Not(values_identical(a, b))
    num = (VInt, VBool, VReal, VEnum)
    if isinstance(a, num) and isinstance(b, num):
        if isinstance(a, VReal) or isinstance(b, VReal):
            x, y = as_real(a), as_real(b)
        else:
            x, y = as_int(a), as_int(b)
        if isinstance(op, ast.Lt):
            return x < y
        if isinstance(op, ast.LtE):
            return x <= y
        if isinstance(op, ast.Gt):
            return x > y
        if isinstance(op, ast.GtE):
            return x >= y
    if isinstance(a, VTuple) and isinstance(b, VTuple) and len(a.items) == len(b.items) and a.items:
        # lexicographic
        def lex(i):
            x, y = a.items[i], b.items[i]
            strict = ast.Lt() if isinstance(op, (ast.Lt, ast.LtE)) else ast.Gt()
            if i == len(a.items) - 1:
                return compare(op, x, y)
            return z3.Or(compare(strict, x, y), z3.And(values_equal(x, y), lex(i + 1)))
        return lex(0)
    raise Unsupported(f"comparison {op} on {a}, {b}")

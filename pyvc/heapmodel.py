"""Heap model: instances of real classes (class specs), dataclasses, protobuf messages, opaque objects
with region fields, opaque callables and call-outs, havoc of lvalues.  Installed as engine hooks."""
from __future__ import annotations

import ast
import dataclasses
import enum

import z3

from . import smt, source
from .builtins import cls_code, typeof_f, sym_isinstance, ok, make_dict, key_repr
from .contracts import fresh, oblige
from .ops import *  # noqa: F401,F403
from .state import HObj, State
from .values import *  # noqa: F401,F403


class PropertyFork(Exception):
    """A @property whose body forks or may raise: the attribute access is executed as a call (several paths)."""

    def __init__(self, func, name):
        self.func, self.name = func, name


class ClassSpec:
    """Sidecar description of a class under contract: field name -> type string; aliases between classes."""

    def __init__(self, name, pyclass, fields, inv=None):
        self.name = name
        self.pyclass = pyclass
        self.fields = fields
        self.inv = inv or []


# uninterpreted facts about opaque objects
is_old_f = z3.Function("is_old", ObjS, BoolS)              # existed before this function/segment started
joinb_f = z3.Function("joinb", z3.SeqSort(BytesS), BytesS)  # b"".join(list of bytes)


def install(eng):
    eng.class_spec_by_name = {}
    eng.regions_decl = {}       # 'Kind.field' -> (sort, default)
    eng.callout_models = {}     # kind name -> impl(eng, st, fobj, args, kwargs)
    eng.obj_methods = {}        # (kind, method) -> impl(eng, st, recv, args, kwargs)
    eng.obj_attrs = {}          # (kind, attr) -> impl(eng, st, recv)
    eng.exception_universe = []
    eng.find_method = lambda cls, name, st: find_method(eng, cls, name, st)
    eng.fresh_exception = lambda st, cls: fresh_exception(eng, st, cls)
    eng.add_class_spec = lambda *a, **k: add_class_spec(eng, *a, **k)
    eng.hooks.update({
        "fresh": h_fresh, "construct": h_construct, "havoc": h_havoc, "call_opaque": h_call_opaque,
        "obj_getattr": h_obj_getattr, "obj_setattr": h_obj_setattr, "msg_setattr": h_msg_setattr,
        "inst_getattr": h_inst_getattr, "lift": h_lift, "describe_inputs": h_describe_inputs,
    })


def add_class_spec(eng, name, pyclass, fields, inv=None):
    cs = ClassSpec(name, pyclass, fields, inv)
    eng.class_spec_by_name[name] = cs
    eng.class_specs[pyclass] = cs
    # the declared fields must be exactly the slots of the real class (a stale spec is 'unsupported', not a pass)
    slots = set()
    for k in pyclass.__mro__:
        slots.update(getattr(k, "__slots__", ()))
    if slots:
        declared = set(fields)
        if declared - slots:
            # a declared field the class no longer has: the spec is stale; reported when the spec is used
            # (target becomes 'unsupported' -> bounded stand-in), never a silent pass
            cs.stale = f"class spec {name} is stale: slots-not-declared={sorted(slots - declared)} declared-not-slots={sorted(declared - slots)}"
        for extra in sorted(slots - declared):
            cs.fields[extra] = None          # new slot unknown to the spec: no value; any read of it is 'unsupported'
            cs.unknown_slots = getattr(cs, "unknown_slots", []) + [extra]
    return cs


# ---------------------------------------------------------------------------
# methods of real classes: AST lookup along the MRO
# ---------------------------------------------------------------------------
def find_method(eng, cls, name, st):
    if not isinstance(cls, type):
        if hasattr(cls, "node"):     # ModelClass
            for n in cls.node.body:
                if isinstance(n, (ast.FunctionDef, ast.AsyncFunctionDef)) and n.name == name:
                    return VFunc("py", node=n, module=cls.modsrc.modname, qualname=f"{cls.name}.{name}", closure=None)
        return None
    for k in cls.__mro__:
        m = source.get_module(getattr(k, "__module__", ""))
        if m is None:
            continue
        cnode = m.classes.get(k.__qualname__)
        if cnode is None:
            continue
        for n in cnode.body:
            if isinstance(n, (ast.FunctionDef, ast.AsyncFunctionDef)) and n.name == name:
                decos = [ast.unparse(d) for d in n.decorator_list]
                f = VFunc("py", node=n, module=m.modname, qualname=f"{k.__qualname__}.{name}", closure=None)
                f.is_classmethod = "classmethod" in decos
                f.is_static = "staticmethod" in decos
                f.is_property = "property" in decos
                if any(d.endswith(".setter") for d in decos):
                    continue
                return f
    return None


def h_inst_getattr(eng, st, ref, o, name):
    m = find_method(eng, o.cls, name, st) if isinstance(o.cls, type) or hasattr(o.cls, "node") else None
    if m is not None and getattr(m, "is_property", False):
        sc = st.clone()
        r = eng.call(VFunc("bound", func=m, selfv=ref), [], {}, sc)
        if len(r) != 1 or isinstance(r[0][1], Raised) or len(r[0][0].pc) != len(st.pc):
            raise PropertyFork(VFunc("bound", func=m, selfv=ref), name)
        return eng.call(VFunc("bound", func=m, selfv=ref), [], {}, st)[0][1]
    return None


# ---------------------------------------------------------------------------
# fresh symbolic instances
# ---------------------------------------------------------------------------
def h_fresh(eng, st, ty: Ty, name):
    h = ty.head
    if h == "inst":
        cs = eng.class_spec_by_name[ty.args[0].head]
        return fresh_instance(eng, st, cs, name)
    if h == "msg":
        cls = eng.resolve_class(ty.args[0].head)
        return fresh_message(eng, st, cls, name)
    if h == "list":
        from .builtins import elem_sort
        e = z3.Const(fresh_name(name), z3.SeqSort(elem_sort(eng, ty.args[0])))
        return VRef(st.alloc(HObj("slist", None, {"e": e, "elem": ty.args[0]})))
    if h == "callable":
        e = z3.Const(fresh_name(name), ObjS)
        st.fact(e != z3.Const("none-obj", ObjS))       # an object is not the boxed None
        return VObj(e, ty.args[0].head if ty.args else "Callback")
    if h == "exc":
        cls = eng.resolve_class(ty.args[0].head) if ty.args else Exception
        return fresh_exception(eng, st, cls)
    if h == "dataclass":
        cls = eng.resolve_class(ty.args[0].head)
        return fresh_dataclass(eng, st, cls, name)
    if h == "setobj":
        kind = ty.args[0].head if ty.args else None
        return VRef(st.alloc(HObj("sset", None, {"e": z3.Const(fresh_name(name), ObjSetS), "kind": kind})))
    return None


def fresh_instance(eng, st, cs: ClassSpec, name):
    if getattr(cs, "stale", None):
        raise Unsupported(cs.stale)
    oid = st.alloc(HObj("inst", cs.pyclass, {}))
    o = st.heap[oid]
    for fname, fty in cs.fields.items():
        if fty is None:
            continue
        o.f[fname] = fresh(eng, st, fty, f"{name}.{fname}")
    return VRef(oid)


def fresh_dataclass(eng, st, cls, name):
    oid = st.alloc(HObj("inst", cls, {}))
    o = st.heap[oid]
    for f in dataclasses.fields(cls):
        ty = DATACLASS_FIELD_TYPES.get((cls.__name__, f.name)) or _ann_str_type(f.type)
        if ty is None:
            raise Unsupported(f"dataclass field {cls.__name__}.{f.name}: {f.type}")
        o.f[f.name] = fresh(eng, st, ty, f"{name}.{f.name}")
    return VRef(oid)


DATACLASS_FIELD_TYPES = {}


def _ann_str_type(t):
    s = t if isinstance(t, str) else getattr(t, "__name__", str(t))
    s = s.replace(" ", "")
    return {"int": "int", "str": "str", "bool": "bool", "float": "real", "bytes": "bytes", "str|None": "opt[str]",
            "int|None": "opt[int]", "float|None": "opt[real]"}.get(s)


# ---------------------------------------------------------------------------
# protobuf messages
# ---------------------------------------------------------------------------
def _fd_type(fd):
    from google.protobuf.descriptor import FieldDescriptor as FD
    t = fd.type
    if t in (FD.TYPE_INT32, FD.TYPE_INT64, FD.TYPE_UINT32, FD.TYPE_UINT64, FD.TYPE_SINT32, FD.TYPE_SINT64,
             FD.TYPE_FIXED32, FD.TYPE_FIXED64, FD.TYPE_SFIXED32, FD.TYPE_SFIXED64):
        return "int"
    if t == FD.TYPE_ENUM:
        return "int"
    if t == FD.TYPE_BOOL:
        return "bool"
    if t in (FD.TYPE_FLOAT, FD.TYPE_DOUBLE):
        return "real"
    if t == FD.TYPE_STRING:
        return "str"
    if t == FD.TYPE_BYTES:
        return "bytes"
    if t == FD.TYPE_MESSAGE:
        return "message"
    raise Unsupported(f"proto field type {t}")


def int_range(fd):
    from google.protobuf.descriptor import FieldDescriptor as FD
    t = fd.type
    if t in (FD.TYPE_UINT32, FD.TYPE_FIXED32):
        return 0, 2**32 - 1
    if t in (FD.TYPE_UINT64, FD.TYPE_FIXED64):
        return 0, 2**64 - 1
    if t in (FD.TYPE_INT32, FD.TYPE_SINT32, FD.TYPE_SFIXED32, FD.TYPE_ENUM):
        return -2**31, 2**31 - 1
    return -2**63, 2**63 - 1


def is_repeated(fd):
    from google.protobuf.descriptor import FieldDescriptor as FD
    if hasattr(fd, "is_repeated"):
        return bool(fd.is_repeated)
    return fd.label == FD.LABEL_REPEATED


def new_message(eng, st, cls):
    """cls(): every field at its proto3 default."""
    o = HObj("msg", cls, {})
    for fd in cls.DESCRIPTOR.fields:
        t = _fd_type(fd)
        if is_repeated(fd):
            o.f[fd.name] = VRef(st.alloc(HObj("list", None, {"items": [], "repeated_of": fd})))
        elif t == "int":
            o.f[fd.name] = VInt(0)
        elif t == "bool":
            o.f[fd.name] = VBool(False)
        elif t == "real":
            o.f[fd.name] = VReal(0)
        elif t == "str":
            o.f[fd.name] = VStr("")
        elif t == "bytes":
            o.f[fd.name] = VBytes(b"")
        else:
            o.f[fd.name] = VNone       # unset sub-message (read access unsupported until needed)
    return VRef(st.alloc(o))


def fresh_message(eng, st, cls, name):
    """A received message of class cls with arbitrary valid field values."""
    o = HObj("msg", cls, {})
    for fd in cls.DESCRIPTOR.fields:
        t = _fd_type(fd)
        if is_repeated(fd):
            et = {"int": "int", "bool": "bool", "real": "real", "str": "str", "bytes": "bytes"}.get(t)
            if et is None:
                o.f[fd.name] = VObj(z3.Const(fresh_name(f"{name}.{fd.name}"), ObjS), "RepeatedMessage")
            else:
                o.f[fd.name] = fresh(eng, st, f"seq[{et}]", f"{name}.{fd.name}")
        elif t == "message":
            o.f[fd.name] = VObj(z3.Const(fresh_name(f"{name}.{fd.name}"), ObjS), "SubMessage")
        else:
            v = fresh(eng, st, t, f"{name}.{fd.name}")
            if t == "int":
                lo, hi = int_range(fd)
                st.assume(z3.And(v.e >= lo, v.e <= hi))
            o.f[fd.name] = v
    return VRef(st.alloc(o))


def h_msg_setattr(eng, st, ref, o, name, v):
    fds = {fd.name: fd for fd in o.cls.DESCRIPTOR.fields}
    if name not in fds:
        return ok(st, eng.raise_py(st, AttributeError, f"{o.cls.__name__} has no field {name}"))
    fd = fds[name]
    t = _fd_type(fd)
    if is_repeated(fd) or t == "message":
        return ok(st, eng.raise_py(st, AttributeError, "assignment not allowed to repeated/composite field"))
    out = []
    for s, v1 in eng.split_union(v, st):
        oo = s.heap[ref.oid]
        if isinstance(v1, VNoneT):
            out.append((s, eng.raise_py(s, TypeError, f"None is not valid for field {name}")))
            continue
        if t == "int":
            if isinstance(v1, VReal) or not isinstance(v1, (VInt, VBool, VEnum)):
                out.append((s, eng.raise_py(s, TypeError, f"bad type for int field {name}: {type(v1).__name__}")))
                continue
            e = as_int(v1)
            lo, hi = int_range(fd)
            for s2, tv in eng.fork_bool(z3.And(e >= lo, e <= hi), s, f"range:{name}"):
                if tv:
                    s2.heap[ref.oid].f[name] = VInt(e)
                    out.append((s2, None))
                else:
                    out.append((s2, eng.raise_py(s2, ValueError, f"Value out of range for {name}")))
        elif t == "bool":
            if not isinstance(v1, (VBool, VInt)):
                out.append((s, eng.raise_py(s, TypeError, f"bad type for bool field {name}")))
                continue
            oo.f[name] = VBool(simp(truth(v1)))
            out.append((s, None))
        elif t == "real":
            if not isinstance(v1, (VReal, VInt, VBool)):
                out.append((s, eng.raise_py(s, TypeError, f"bad type for float field {name}")))
                continue
            from google.protobuf.descriptor import FieldDescriptor as FD
            r = as_real(v1)
            oo.f[name] = VReal(f32_f(r) if fd.type == FD.TYPE_FLOAT else r)
            out.append((s, None))
        elif t == "str":
            if not isinstance(v1, VStr):
                out.append((s, eng.raise_py(s, TypeError, f"bad type for string field {name}")))
                continue
            oo.f[name] = v1
            out.append((s, None))
        elif t == "bytes":
            if not isinstance(v1, VBytes):
                out.append((s, eng.raise_py(s, TypeError, f"bad type for bytes field {name}")))
                continue
            oo.f[name] = VBytes(v1.e)
            out.append((s, None))
    return out


# ---------------------------------------------------------------------------
# construction
# ---------------------------------------------------------------------------
def h_construct(eng, st, cv: VClass, args, kwargs):
    c = cv.py
    if hasattr(c, "node") and not isinstance(c, type):        # ModelClass
        oid = st.alloc(HObj("inst", c, {}))
        init = find_method(eng, c, "__init__", st)
        if init is None:
            return ok(st, VRef(oid))
        return [(s, VRef(oid) if not isinstance(r, Raised) else r) for s, r in eng.call(init, [VRef(oid)] + list(args), kwargs, st)]
    if not isinstance(c, type):
        return None
    if hasattr(c, "DESCRIPTOR") and hasattr(c, "SerializeToString"):
        ref = new_message(eng, st, c)
        paths = [(st, None)]
        if args:
            raise Unsupported("positional args to a protobuf constructor")
        fds_ = {fd.name: fd for fd in c.DESCRIPTOR.fields}
        for k, v in kwargs.items():
            nxt = []
            for s, r in paths:
                if r is None and isinstance(v, VNoneT):
                    nxt.append((s, None))        # protobuf constructors ignore keyword arguments that are None (the field keeps its default)
                    continue
                if r is None and isinstance(v, VUnion) and any(isinstance(a_, VNoneT) for _, a_ in v.alts):
                    for s_a, v_a in eng.split_union(v, s):
                        if isinstance(v_a, VNoneT):
                            nxt.append((s_a, None))
                        else:
                            nxt.extend(h_msg_setattr(eng, s_a, ref, s_a.heap[ref.oid], k, v_a))
                    continue
                if r is None and k in fds_ and is_repeated(fds_[k]):
                    # repeated field given to the constructor: the elements are copied into the field
                    try:
                        items = eng.iter_concrete(v, s)
                        s.heap[s.heap[ref.oid].f[k].oid].f["items"] = list(items)
                    except Unsupported:
                        s.heap[ref.oid].f[k] = v
                    nxt.append((s, None))
                    continue
                nxt.extend(h_msg_setattr(eng, s, ref, s.heap[ref.oid], k, v) if r is None else [(s, r)])
            paths = nxt
        return [(s, ref if r is None else r) for s, r in paths]
    if c in eng.class_specs or (source.get_module(getattr(c, "__module__", "")) is not None and not issubclass(c, (BaseException, enum.Enum))):
        if dataclasses.is_dataclass(c) and find_method(eng, c, "__init__", st) is None:
            return construct_dataclass(eng, st, c, args, kwargs)
        oid = st.alloc(HObj("inst", c, {}))
        init = find_method(eng, c, "__init__", st)
        if init is None:
            return ok(st, VRef(oid))
        return [(s, VRef(oid) if not isinstance(r, Raised) else r) for s, r in eng.call(init, [VRef(oid)] + list(args), kwargs, st)]
    if issubclass(c, BaseException):
        if source.get_module(getattr(c, "__module__", "")) is not None:
            init = find_method(eng, c, "__init__", st)
            if init is not None:
                ref = eng.make_exc(st, c, args)
                return [(s, ref if not isinstance(r, Raised) else r) for s, r in eng.call(init, [ref] + list(args), kwargs, st)]
        return ok(st, eng.make_exc(st, c, args))
    return None


def construct_dataclass(eng, st, c, args, kwargs):
    """dataclasses-generated __init__ (A-LIB): positional then keyword, defaults, then __post_init__."""
    flds = [f for f in dataclasses.fields(c) if f.init]
    o = HObj("inst", c, {})
    given = {}
    if len(args) > len(flds):
        return ok(st, eng.raise_py(st, TypeError, "too many arguments"))
    for f, a in zip(flds, args):
        given[f.name] = a
    for k, v in kwargs.items():
        if k in given or k not in {f.name for f in flds}:
            return ok(st, eng.raise_py(st, TypeError, f"unexpected/duplicate argument {k}"))
        given[k] = v
    for f in flds:
        if f.name in given:
            o.f[f.name] = given[f.name]
        elif f.default is not dataclasses.MISSING:
            o.f[f.name] = eng.lift(f.default, st)
        elif f.default_factory is not dataclasses.MISSING:
            d = f.default_factory()
            if d == []:
                o.f[f.name] = VRef(st.alloc(HObj("list", None, {"items": []})))
            elif d == {}:
                o.f[f.name] = make_dict(eng, st, [])
            else:
                raise Unsupported(f"default_factory of {c.__name__}.{f.name}")
        else:
            return ok(st, eng.raise_py(st, TypeError, f"missing argument {f.name}"))
    ref = VRef(st.alloc(o))
    pi = find_method(eng, c, "__post_init__", st)
    if pi is not None:
        # the generated __init__ ends with `self.__post_init__()`: the class's real method body is executed
        return [(s, ref if not isinstance(r, Raised) else r) for s, r in eng.call(pi, [ref], {}, st)]
    return ok(st, ref)


# ---------------------------------------------------------------------------
# exceptions as opaque objects (for symbolic exception classes) ; boxing of concrete exception objects
# ---------------------------------------------------------------------------
def fresh_exception(eng, st, cls):
    """Unknown exception object whose class is some subclass of `cls` among the classes known to the run."""
    e = z3.Const(fresh_name("exc"), ObjS)
    cls_code(cls)
    for k in eng.exception_universe:
        cls_code(k)
    from .builtins import _cls_codes
    subs = [k for k in _cls_codes if isinstance(k, type) and issubclass(k, cls)]
    st.assume(z3.Or(*[typeof_f(e) == cls_code(k) for k in subs]))
    return VObj(e, "Exception")


objid_f = z3.Function("objid", ObjS, IntS)


def box(eng, st, v):
    """Obj term standing for a value stored into an opaque slot (exception stored in a future, callback in a set)."""
    if isinstance(v, VObj):
        return v.e
    if isinstance(v, VRef):
        o = st.heap[v.oid]
        key = "__box__"
        if key not in o.f:
            # one term per heap object, the same in every clone of the state (clauses are evaluated on scratch clones:
            # a term invented there would make the same object look like two)
            e = z3.Const(f"box!{v.oid}", ObjS)
            o.f[key] = e
            if isinstance(o.cls, type):
                st.fact(typeof_f(e) == cls_code(o.cls))
            entry = st.labels.get("__entry__") if hasattr(st, "labels") else None
            was_there = entry is not None and v.oid in entry.heap
            st.fact(is_old_f(e) if was_there else z3.Not(is_old_f(e)))
            st.fact(z3.And(objid_f(e) == 1000000 + v.oid, e != z3.Const("none-obj", ObjS)))
            hk = eng.hooks.get("box_facts")
            if hk is not None:
                hk(eng, st, v, e)          # what the opaque view of this object exposes (e.g. an exception's attributes)
        return o.f[key]
    if isinstance(v, VClass):
        return z3.Const(f"class:{getattr(v.py, '__name__', v.py)}", ObjS)
    if isinstance(v, VFunc):
        return z3.Const("func:" + func_key(eng, v), ObjS)
    if isinstance(v, VNoneT):
        return z3.Const("none-obj", ObjS)
    if isinstance(v, VUnion):
        e = box(eng, st, v.alts[-1][1])
        for g, a in reversed(v.alts[:-1]):
            e = z3.If(g, box(eng, st, a), e)
        return e
    raise Unsupported(f"cannot box {v}")


def func_key(eng, f: VFunc):
    if f.kind == "py":
        return f"{f.module}.{f.qualname}" + (f"@{f.closure}" if f.closure is not None else "")
    if f.kind == "bound":
        sv = f.selfv
        return func_key(eng, f.func) + "#" + (str(sv.oid) if isinstance(sv, VRef) else str(getattr(sv, "e", sv)))
    if f.kind == "partial":
        return "partial(" + func_key(eng, f.func) + "," + ",".join(_argkey(a) for a in f.args) + ")"
    if f.kind in ("builtin", "bmeth"):
        return "builtin:" + f.name
    return f.kind


def _argkey(a):
    if isinstance(a, VRef):
        return f"ref{a.oid}"
    if hasattr(a, "e"):
        return str(a.e)
    return repr(a)


# ---------------------------------------------------------------------------
# opaque objects: attributes, methods, calls
# ---------------------------------------------------------------------------
def region(eng, st: State, key):
    if key not in st.regions:
        sort, _ = eng.regions_decl[key]
        st.regions[key] = z3.Const(fresh_name("R_" + key), z3.ArraySort(ObjS, sort))
    return st.regions[key]


def rget(eng, st, key, obj_e):
    return z3.Select(region(eng, st, key), obj_e)


def rset(eng, st, key, obj_e, val):
    st.regions[key] = z3.Store(region(eng, st, key), obj_e, val)


def h_obj_getattr(eng, st, v: VObj, name):
    k = (v.cls, name)
    if k in eng.obj_methods:
        return VFunc("bmeth", name=f"{v.cls}.{name}", recv=v, impl=eng.obj_methods[k])
    if k in eng.obj_attrs:
        return eng.obj_attrs[k](eng, st, v)
    return None


def h_obj_setattr(eng, st, v: VObj, name, val):
    k = (v.cls, name + "=")
    if k in eng.obj_attrs:
        eng.obj_attrs[k](eng, st, v, val)
        return ok(st, None)
    if v.cls == "Exception" and name == "__cause__":
        return ok(st, None)
    return None


def h_call_opaque(eng, st, fv, args, kwargs):
    kind = fv.cls if isinstance(fv, VObj) else getattr(fv, "okind", None)
    impl = eng.callout_models.get(kind)
    if impl is None:
        raise Unsupported(f"call of opaque callable of kind {kind}")
    return impl(eng, st, fv, args, kwargs)


def h_lift(eng, obj, st):
    """Live module-level objects the generic lifter does not know: protobuf message instances, dicts of classes."""
    if hasattr(obj, "DESCRIPTOR") and hasattr(obj, "SerializeToString") and not isinstance(obj, type):
        ref = new_message(eng, st, type(obj))
        o = st.heap[ref.oid]
        for fd, val in obj.ListFields():
            if is_repeated(fd) or _fd_type(fd) == "message":
                raise Unsupported("module-level message constant with repeated/sub-message fields")
            o.f[fd.name] = eng.lift(val, st)
        return ref
    if isinstance(obj, dict):
        try:
            return make_dict(eng, st, [(eng.lift(k, st), eng.lift(v, st)) for k, v in obj.items()])
        except Unsupported:
            return None
    if isinstance(obj, (frozenset, set)):
        from .builtins import make_set
        return make_set(eng, st, [eng.lift(x, st) for x in obj])
    return None


# ---------------------------------------------------------------------------
# havoc of lvalues named in `modifies`
# ---------------------------------------------------------------------------
def h_havoc(eng, st: State, text: str):
    """text: 'self.field' | 'self.*' | 'ghost.name' | 'region:Kind.field' | local name."""
    text = text.strip()
    if text.startswith("region:"):
        key = text[len("region:"):]
        sort, _ = eng.regions_decl[key]
        st.regions[key] = z3.Const(fresh_name("R_" + key), z3.ArraySort(ObjS, sort))
        return
    node = ast.parse(text, mode="eval").body
    if isinstance(node, ast.Name):
        old = st.env.f.get(node.id)
        from .contracts import havoc_like
        st.env.f[node.id] = havoc_like(eng, st, old, node.id)
        return
    if isinstance(node, ast.Attribute):
        r = eng.ev(node.value, st)
        if len(r) != 1 or isinstance(r[0][1], Raised):
            raise Unsupported(f"modifies target {text}")
        base = r[0][1]
        if isinstance(base, VGhostNS):
            g = st.heap[st.ghost_oid]
            ty = eng.ghost_types.get(node.attr)
            if ty is None:
                raise Unsupported(f"ghost variable {node.attr} has no declared type")
            g.f[node.attr] = fresh(eng, st, ty, "ghost." + node.attr)
            return
        refs = [a for _, a in base.alts if isinstance(a, VRef)] if isinstance(base, VUnion) else ([base] if isinstance(base, VRef) else [])
        if isinstance(base, VUnion) and all(isinstance(a, (VRef, VNoneT)) for _, a in base.alts):
            pass
        elif not isinstance(base, VRef):
            refs = None
        if refs is not None:
            for ref in refs:
                o = st.heap[ref.oid]
                cs = eng.class_specs.get(o.cls)
                if cs is None:
                    raise Unsupported(f"modifies on instance without class spec: {text}")
                names = list(cs.fields) if node.attr == "__all__" else [node.attr]
                for nm in names:
                    if cs.fields.get(nm) is None:
                        continue
                    o.f[nm] = fresh(eng, st, cs.fields[nm], f"{text.rsplit('.', 1)[0]}.{nm}")
            return
    raise Unsupported(f"modifies target {text}")


def h_describe_inputs(eng, st, inputs):
    """Expand instance inputs into their fields so counter-models show the pre-state."""
    out = []
    for name, v in inputs:
        if isinstance(v, VRef) and st.heap[v.oid].kind in ("inst", "msg"):
            o = st.heap[v.oid]
            for k, fv in o.f.items():
                if isinstance(fv, V) and not isinstance(fv, (VFunc,)):
                    if isinstance(fv, VRef):
                        o2 = st.heap[fv.oid]
                        if o2.kind in ("inst", "msg"):
                            for k2, fv2 in o2.f.items():
                                if isinstance(fv2, V) and not isinstance(fv2, (VRef, VFunc)):
                                    out.append((f"{name}.{k}.{k2}", fv2))
                        continue
                    out.append((f"{name}.{k}", fv))
        else:
            out.append((name, v))
    g = st.heap.get(st.ghost_oid)
    if g is not None:
        for k, fv in g.f.items():
            if isinstance(fv, V) and not isinstance(fv, VRef):
                out.append((f"ghost.{k}", fv))
    return out

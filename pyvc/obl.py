"""Obligation records shared by every part of the machinery.

An obligation is one named proof duty generated from /repo's current source.
``status`` is one of
  discharged  - the back end proved it (unsat of the negation, or, for ground
                obligations over the finite program text, exact evaluation)
  refuted     - the back end produced a counter-model (``model``)
  unknown     - no back end decided it within the budget
  unsupported - the generator could not translate the code it depends on
``kind`` is ``property`` (a clause taken from the property statement) or
``auxiliary`` (something only the proof needs: loop invariant, callee
precondition, lemma instance, representation invariant).
"""
from __future__ import annotations

from dataclasses import dataclass, field, asdict
from typing import Any


@dataclass
class Obligation:
    id: str                      # "C13/core.MESSAGE_TYPE_TO_PROTO/id=5"
    property: str                # "C13"
    kind: str                    # "property" | "auxiliary"
    status: str                  # see module docstring
    backend: str = ""            # "z3" | "cvc5" | "ground-eval"
    ms: float = 0.0              # solver / evaluation time
    goal: str = ""               # human readable statement of the goal
    function: str = ""           # qualified name of the real function / table it is about
    path: str = ""               # path description (branch decisions) when generated per path
    model: Any = None            # counter-model (JSON-able) when refuted
    witness: str = ""            # stable signature of the failing case (known-findings key)
    detail: str = ""             # solver output / reason text
    replay: Any = None           # filled by the replay step

    def to_json(self) -> dict:
        return asdict(self)

"""In-memory mutants of the real source text (engine/contract self-test; no scratch copy of /repo needed).

A mutant is (relative path, old text, new text).  The generator re-reads the (overridden) text, so a mutant that
still verifies exposes an engine or contract weakness.  Replays against live modules are skipped for mutants
(the imported module is the unmutated one), so mutants are judged on obligations only.
"""
from __future__ import annotations

import os
import sys
import time

from . import source
from .runner import run_property, decide, _setup_paths


def run_mutant(pid, relpath, old, new, tier="quick", count=1, jobs=None):
    _setup_paths()
    path = os.path.join(source.REPO, relpath)
    with open(path) as f:
        text = f.read()
    if text.count(old) < 1:
        return {"error": f"pattern not found in {relpath}: {old!r}"}
    source.set_override(path, text.replace(old, new, count))
    try:
        t0 = time.time()
        mod, targets, results, opts = run_property(pid, tier, 0, jobs)
        bad = []
        errs = []
        for r in results:
            if r["error"]:
                errs.append(r["error"].strip().splitlines()[-1])
            for o in r["obligations"]:
                if o["status"] != "discharged" and o["property"] == pid:
                    bad.append((o["status"], o["kind"], o["id"]))
        return {"bad": bad, "errors": errs, "wall": round(time.time() - t0, 2)}
    finally:
        source.set_override(path, None)


def _one(pid, idx, tier, jobs):
    """One mutant (idx >= 0) or the baseline (idx == -1) in a process of its own; the result comes back as JSON on the last line."""
    import json
    import subprocess
    # the automatic unfolding that is tried before a refutation is believed (contracts.oblige) is switched off for the baseline and the mutants
    # alike: on a mutated body it retries dozens of refuted obligations and took 20 minutes per mutant of data_received
    env = dict(os.environ, PYVC_NO_SELFCHECK="1", PYVC_NO_AUTO_UNFOLD="1")
    p = subprocess.run([sys.executable, "-m", "pyvc.mutants", "--one", pid, str(idx), tier, str(jobs)], capture_output=True, text=True, env=env,
                       cwd=os.path.dirname(os.path.dirname(os.path.abspath(__file__))))
    for ln in reversed(p.stdout.strip().splitlines()):
        if ln.startswith("{"):
            return json.loads(ln)
    return {"crash": (p.stderr or p.stdout)[-400:]}


def _one_main(pid, idx, tier, jobs):
    import importlib
    import json
    _setup_paths()
    if idx < 0:
        _, _, base, _ = run_property(pid, tier, 0, jobs)
        print(json.dumps({"baseline": sorted({o["id"] for r in base for o in r["obligations"] if o["status"] != "discharged"})}))
        return 0
    mod = importlib.import_module(f"contracts.{pid.lower()}")
    name, rel, old, new = mod.MUTANTS[idx]
    # verification is modular: a change inside a function is first looked for in the targets of the module it is in; only when none of
    # them refutes it are all targets run (a caller that inlines the body, a ground check)
    stem = rel[:-3].split("/", 1)[1].replace("/", ".") + "."
    r = None
    if not os.environ.get("PYVC_ONLY"):
        os.environ["PYVC_ONLY"] = stem
        try:
            r = run_mutant(pid, rel, old, new, tier=tier, jobs=jobs)
        except Exception:
            r = None
        finally:
            del os.environ["PYVC_ONLY"]
    if not r or r.get("error") or not r.get("bad"):
        r = run_mutant(pid, rel, old, new, tier=tier, jobs=jobs)
    print(json.dumps(r))
    return 0


def self_check(pid, tier="quick", parallel=8, jobs=2):
    """Vacuity guard of the thorough tier: every built-in mutant of the real source text (applied in memory) must be refuted by an
    obligation that holds on the unmutated text.  The baseline and the mutants run in processes of their own, `parallel` at a time with
    `jobs` workers each.  Returns {"caught": [...], "missed": [...], "skipped": [...]}."""
    import importlib
    from concurrent.futures import ThreadPoolExecutor
    _setup_paths()
    mod = importlib.import_module(f"contracts.{pid.lower()}")
    muts = getattr(mod, "MUTANTS", [])
    out = {"caught": [], "missed": [], "skipped": []}
    if not muts:
        return out
    with ThreadPoolExecutor(parallel) as ex:
        futs = [ex.submit(_one, pid, i, tier, jobs) for i in range(-1, len(muts))]
        res = [f.result() for f in futs]
    if "baseline" not in res[0]:
        raise RuntimeError("self-check baseline did not run: " + str(res[0])[:300])
    baseline = set(res[0]["baseline"])
    for (name, rel, old, new), r in zip(muts, res[1:]):
        if r.get("crash"):
            raise RuntimeError(f"self-check mutant {name} crashed: {r['crash']}")
        if r.get("error"):
            out["skipped"].append(f"{name}: {r['error']}")          # the text this mutant edits is no longer there
            continue
        fresh = [b for b in r["bad"] if b[2] not in baseline]
        (out["caught"] if fresh else out["missed"]).append(name if not fresh else f"{name} -> {fresh[0][2]}")
    return out


def main():
    import importlib
    if sys.argv[1] == "--one":
        return _one_main(sys.argv[2], int(sys.argv[3]), sys.argv[4], int(sys.argv[5]))
    pid = sys.argv[1]
    _setup_paths()
    mod = importlib.import_module(f"contracts.{pid.lower()}")
    ok = True
    for name, rel, old, new in getattr(mod, "MUTANTS", []):
        r = run_mutant(pid, rel, old, new)
        caught = bool(r.get("bad"))
        print(("CAUGHT " if caught else "MISSED ") + f"{pid} {name}: " + (str(r["bad"][:3]) if caught else str(r)))
        ok = ok and caught
    return 0 if ok else 1


if __name__ == "__main__":
    sys.exit(main())

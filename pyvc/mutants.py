"""In-memory mutants of the real source text (engine/contract self-test; no scratch copy of /repo needed).

A mutant is (relative path, old text, new text).  The generator re-reads the (overridden) text, so a mutant that
still verifies exposes an engine or contract weakness.  Replays against live modules are skipped for mutants
(the imported module is the unmutated one), so mutants are judged on obligations only.
"""
from __future__ import annotations

import os
import sys
import time

from . import source
from .runner import run_property, decide, _setup_paths


def run_mutant(pid, relpath, old, new, tier="quick", count=1):
    _setup_paths()
    path = os.path.join(source.REPO, relpath)
    with open(path) as f:
        text = f.read()
    if text.count(old) < 1:
        return {"error": f"pattern not found in {relpath}: {old!r}"}
    source.set_override(path, text.replace(old, new, count))
    try:
        t0 = time.time()
        mod, targets, results, opts = run_property(pid, tier, 0, None)
        bad = []
        errs = []
        for r in results:
            if r["error"]:
                errs.append(r["error"].strip().splitlines()[-1])
            for o in r["obligations"]:
                if o["status"] != "discharged" and o["property"] == pid:
                    bad.append((o["status"], o["kind"], o["id"]))
        return {"bad": bad, "errors": errs, "wall": round(time.time() - t0, 2)}
    finally:
        source.set_override(path, None)


def self_check(pid, tier="quick"):
    """Vacuity guard of the thorough tier: every built-in mutant of the real source text (applied in memory) must be refuted by an
    obligation that holds on the unmutated text.  Returns {"caught": [...], "missed": [...], "skipped": [...]}."""
    import importlib
    _setup_paths()
    mod = importlib.import_module(f"contracts.{pid.lower()}")
    muts = getattr(mod, "MUTANTS", [])
    out = {"caught": [], "missed": [], "skipped": []}
    if not muts:
        return out
    _, _, base, _ = run_property(pid, tier, 0, None)
    baseline = {o["id"] for r in base for o in r["obligations"] if o["status"] != "discharged"}
    for name, rel, old, new in muts:
        r = run_mutant(pid, rel, old, new, tier=tier)
        if r.get("error"):
            out["skipped"].append(f"{name}: {r['error']}")          # the text this mutant edits is no longer there
            continue
        fresh = [b for b in r["bad"] if b[2] not in baseline]
        (out["caught"] if fresh else out["missed"]).append(name if not fresh else f"{name} -> {fresh[0][2]}")
    return out


def main():
    import importlib
    pid = sys.argv[1]
    _setup_paths()
    mod = importlib.import_module(f"contracts.{pid.lower()}")
    ok = True
    for name, rel, old, new in getattr(mod, "MUTANTS", []):
        r = run_mutant(pid, rel, old, new)
        caught = bool(r.get("bad"))
        print(("CAUGHT " if caught else "MISSED ") + f"{pid} {name}: " + (str(r["bad"][:3]) if caught else str(r)))
        ok = ok and caught
    return 0 if ok else 1


if __name__ == "__main__":
    sys.exit(main())

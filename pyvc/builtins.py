"""Transfer functions for builtins, library objects and the special forms of the contract language."""
from __future__ import annotations

import ast
import enum
import functools

import z3

from . import smt
from .ops import *  # noqa: F401,F403
from .state import HObj, State
from .values import *  # noqa: F401,F403

# ---------------------------------------------------------------------------
# symbolic classes of opaque objects  (isinstance / type() on VObj)
# ---------------------------------------------------------------------------
ClsS = IntS
typeof_f = z3.Function("typeof", ObjS, IntS)        # class code of an opaque object
_cls_codes: dict = {}
_cls_by_code: dict = {}


def cls_code(cls) -> int:
    if cls not in _cls_codes:
        _cls_codes[cls] = len(_cls_codes) + 1
        _cls_by_code[_cls_codes[cls]] = cls
    return _cls_codes[cls]


def sym_isinstance(eng, obj: VObj, cls):
    """isinstance(obj, cls) for an opaque object: typeof(obj) ranges over *known* subclasses of cls.

    Sound only if every class the object may have has a code; fresh symbolic exceptions are created with
    an explicit finite candidate list (see fresh_exception), which is what makes this exact.
    """
    subs = [c for c in list(_cls_codes) if isinstance(c, type) and isinstance(cls, type) and issubclass(c, cls)]
    cls_code(cls)
    if not subs:
        return z3.BoolVal(False)
    return z3.Or(*[typeof_f(obj.e) == cls_code(c) for c in subs])


# ---------------------------------------------------------------------------
def _class_key_of(v):
    if isinstance(v, VClass):
        return z3.IntVal(cls_code(v.py))
    if isinstance(v, VFunc) and v.kind == "typeof":
        return typeof_f(v.obj.e)
    if isinstance(v, VFunc) and v.kind == "symcls":
        return v.code
    return None


CLASS_KEY["fn"] = _class_key_of


def install(eng):
    import sys
    eng.builtin_mod = sys.modules[__name__]
    from . import contracts as _c
    eng.contract_mod = _c
    B = eng.builtins

    def reg(obj, impl):
        B[id(obj)] = impl
        _KEEP.append(obj)

    reg(len, b_len)
    reg(bytes, b_bytes)
    reg(bytearray, b_bytearray)
    reg(isinstance, b_isinstance)
    reg(type, b_type)
    reg(int, splitargs(b_int))
    reg(bool, b_bool)
    reg(str, b_str)
    reg(float, splitargs(b_float))
    reg(tuple, b_tuple)
    reg(list, b_list)
    reg(set, b_set)
    reg(min, functools.partial(b_minmax, True))
    reg(max, functools.partial(b_minmax, False))
    reg(abs, splitargs(b_abs))
    import dataclasses as _dcs
    reg(_dcs.fields, b_dc_fields)
    reg(round, splitargs(b_round))
    reg(functools.partial, b_partial)
    reg(getattr, b_getattr)
    reg(setattr, b_setattr)
    reg(object.__setattr__, b_setattr)      # the frozen-dataclass escape hatch: a plain attribute store
    reg(hasattr, b_hasattr)
    reg(range, b_range)
    reg(enumerate, b_enumerate)
    reg(zip, b_zip)
    reg(id, b_unsupported("id"))
    reg(super, b_super)
    import typing
    reg(typing.cast, lambda eng, st, args, kwargs: ok(st, args[1]))


_KEEP = []


def splitargs(impl):
    """Fork on guarded-union arguments so the transfer function sees plain values (only feasible alternatives)."""
    def wrapped(eng, st, args, kwargs):
        combos = [(st, [])]
        for a in args:
            nxt = []
            for s, acc in combos:
                for s2, v in eng.split_union(a, s):
                    nxt.append((s2, acc + [v]))
            combos = nxt
        out = []
        for s, vals in combos:
            if any(isinstance(v, VNoneT) for v in vals) and getattr(impl, "none_is_typeerror", True):
                out.append((s, eng.raise_py(s, TypeError, "NoneType argument")))
            else:
                out.extend(impl(eng, s, vals, kwargs))
        return out
    return wrapped


def b_super(eng, st, args, kwargs):
    """Zero-argument super(): resolved from the enclosing method's defining class (its qualname) and `self`."""
    from . import source
    oid = st.frames[-1]
    fname, module, selfv = None, None, None
    while oid is not None:
        env = st.heap[oid]
        if fname is None and "." in (env.f.get("__fname__") or "") and "self" in env.f:
            fname, module, selfv = env.f["__fname__"], env.f.get("__module__"), env.f["self"]
        oid = env.f.get("__parent__")
    cls = None
    if fname is not None and module:
        cname = fname.replace("@contract", "").split(".")[0]
        try:
            cls = getattr(source.import_live(module), cname)
        except Exception:
            cls = None
    return ok(st, VFunc("superproxy", name="super", cls=cls, selfv=selfv))


def b_unsupported(name):
    def impl(eng, st, args, kwargs):
        raise Unsupported(f"builtin {name}")
    return impl


def ok(st, v):
    return [(st, v)]


def heap_obj(st, v):
    return st.heap[v.oid] if isinstance(v, VRef) else None


# ---------------------------------------------------------------------------
# builtin functions
# ---------------------------------------------------------------------------
_mvlen_f = z3.Function("memoryview_len", BytesS, IntS)


def length_of(eng, st, v):
    if isinstance(v, VBytes):
        k = simp(v.kind)
        if not (z3.is_int_value(k) and k.as_long() != KIND_MEMORYVIEW):
            # len(memoryview) counts items, not bytes: for an item size of 1, 2, 4 or 8 the byte length is that multiple of it
            L, n = z3.Length(v.e), _mvlen_f(v.e)
            st.fact(z3.And(n >= 0, z3.Or(L == n, L == 2 * n, L == 4 * n, L == 8 * n)))
            return VInt(simp(z3.If(k == KIND_MEMORYVIEW, n, L)))
    if isinstance(v, (VBytes, VStr, VSeq)):
        return VInt(simp(z3.Length(v.e)))
    if isinstance(v, VTuple):
        return VInt(len(v.items))
    o = heap_obj(st, v)
    if o is not None:
        if o.kind == "list":
            return VInt(len(o.f["items"]))
        if o.kind == "buf":
            return VInt(simp(z3.Length(o.f["e"])))
        if o.kind == "dict":
            return VInt(len(o.f["items"]))
        if o.kind == "cset":
            return VInt(len(o.f["items"]))
        if o.kind == "slist":
            return VInt(simp(z3.Length(o.f["e"])))
    raise Unsupported(f"len of {v}")


def b_len(eng, st, args, kwargs):
    v = args[0]
    if isinstance(v, VUnion):
        nones = [g for g, a in v.alts if isinstance(a, VNoneT)]
        rest = [(g, a) for g, a in v.alts if not isinstance(a, VNoneT)]
        if nones and rest and implied(st, z3.Not(z3.Or(*nones))):
            return ok(st, mk_union([(g, length_of(eng, st, a)) for g, a in rest]))
    out = []
    for s, v in eng.split_union(args[0], st):
        if isinstance(v, VNoneT):
            out.append((s, eng.raise_py(s, TypeError, "len(None)")))
        else:
            out.append((s, length_of(eng, s, v)))
    return out


def byte_range(e):
    """Constraint that all elements of e are in 0..255 is kept as type invariant at creation sites."""
    return None


def b_bytes(eng, st, args, kwargs):
    if not args:
        return ok(st, VBytes(b""))
    out = []
    for s, v in eng.split_union(args[0], st):
        o = heap_obj(s, v)
        if isinstance(v, VBytes):
            out.append((s, VBytes(v.e, KIND_BYTES)))
        elif o is not None and o.kind == "buf":
            out.append((s, VBytes(o.f["e"], KIND_BYTES)))
        elif isinstance(v, VTuple) or (o is not None and o.kind == "list"):
            items = eng.iter_concrete(v, s)
            # bytes(iterable of ints): ValueError unless every item in range(256)
            conds = [z3.And(as_int(x) >= 0, as_int(x) <= 255) for x in items]
            allok = simp(z3.And(*conds)) if conds else z3.BoolVal(True)
            for s2, tv in eng.fork_bool(allok, s, "bytes-range"):
                if tv:
                    units = [z3.Unit(as_int(x)) for x in items]
                    e = z3.Empty(BytesS) if not units else (units[0] if len(units) == 1 else z3.Concat(*units))
                    out.append((s2, VBytes(e)))
                else:
                    out.append((s2, eng.raise_py(s2, ValueError, "bytes must be in range(0, 256)")))
        elif isinstance(v, VInt):
            raise Unsupported("bytes(int)")
        else:
            raise Unsupported(f"bytes({v})")
    return out


def b_bytearray(eng, st, args, kwargs):
    if not args:
        return ok(st, VRef(st.alloc(HObj("buf", None, {"e": z3.Empty(BytesS)}))))
    out = []
    for s, v in eng.split_union(args[0], st):
        o = heap_obj(s, v)
        if isinstance(v, VBytes):
            out.append((s, VRef(s.alloc(HObj("buf", None, {"e": v.e})))))
        elif o is not None and o.kind == "buf":
            out.append((s, VRef(s.alloc(HObj("buf", None, {"e": o.f["e"]})))))
        else:
            raise Unsupported(f"bytearray({v})")
    return out


def class_of_value(eng, st, v):
    """Concrete python class of a value, or None if symbolic."""
    if isinstance(v, VNoneT):
        return type(None)
    if isinstance(v, VBool):
        return bool
    if isinstance(v, VInt):
        return int
    if isinstance(v, VReal):
        return float
    if isinstance(v, VStr):
        return str
    if isinstance(v, VTuple):
        return tuple
    if isinstance(v, VEnum):
        return v.cls
    if isinstance(v, VBytes):
        k = simp(v.kind)
        if z3.is_int_value(k):
            return {0: bytes, 1: bytearray, 2: memoryview}[k.as_long()]
        return None
    if isinstance(v, VSeq):
        return tuple if v.is_tuple else list
    o = heap_obj(st, v)
    if o is not None:
        if o.kind == "list":
            return list
        if o.kind == "buf":
            return bytearray
        if o.kind in ("dict",):
            return dict
        if o.kind in ("cset",):
            return set
        return o.cls
    if isinstance(v, VFunc):
        return type(lambda: 0)
    if isinstance(v, VClass):
        return type
    return None


def b_isinstance(eng, st, args, kwargs):
    out = []
    for s, v in eng.split_union(args[0], st):
        classes = [c.py for c in (args[1].items if isinstance(args[1], VTuple) else [args[1]])]
        c = class_of_value(eng, s, v)
        if c is not None:
            out.append((s, VBool(any(isinstance(k, type) and isinstance(c, type) and issubclass(c, k) or c is k for k in classes))))
        elif isinstance(v, VObj):
            out.append((s, VBool(simp(z3.Or(*[sym_isinstance(eng, v, k) for k in classes])))))
        elif isinstance(v, VBytes):
            kinds = {bytes: 0, bytearray: 1, memoryview: 2}
            out.append((s, VBool(simp(z3.Or(*[v.kind == kinds[k] for k in classes if k in kinds] or [z3.BoolVal(False)])))))
        else:
            raise Unsupported(f"isinstance on {v}")
    return out


def _type_value(eng, st, v):
    c = class_of_value(eng, st, v)
    if c is not None:
        return VClass(c)
    if isinstance(v, VBytes):
        return mk_union([(v.kind == 0, VClass(bytes)), (v.kind == 1, VClass(bytearray)), (v.kind == 2, VClass(memoryview))])
    if isinstance(v, VObj):
        return VFunc("typeof", obj=v)
    raise Unsupported(f"type() of {v}")


def b_type(eng, st, args, kwargs):
    v = args[0]
    if isinstance(v, VUnion):          # no forking: type() is total
        return ok(st, mk_union([(g, _type_value(eng, st, a)) for g, a in v.alts]))
    return ok(st, _type_value(eng, st, v))


def b_int(eng, st, args, kwargs):
    if not args:
        return ok(st, VInt(0))
    v = args[0]
    if isinstance(v, (VInt, VBool, VEnum)):
        return ok(st, VInt(as_int(v)))
    if isinstance(v, VReal):
        # int() truncates toward zero
        e = v.e
        return ok(st, VInt(simp(z3.If(e >= 0, z3.ToInt(e), -z3.ToInt(-e)))))
    if isinstance(v, VStr):
        # int(str): defined for decimal digit strings; ValueError otherwise (str.to_int is -1 for non-numerals)
        n = z3.StrToInt(v.e)
        out = []
        for s2, tv in eng.fork_bool(n >= 0, st, "int(str)"):
            out.append((s2, VInt(n) if tv else eng.raise_py(s2, ValueError, "invalid literal for int()")))
        return out
    raise Unsupported(f"int({v})")


def b_bool(eng, st, args, kwargs):
    return ok(st, VBool(simp(truth(args[0], st)))) if args else ok(st, VBool(False))


def b_float(eng, st, args, kwargs):
    v = args[0]
    if isinstance(v, (VInt, VBool, VReal)):
        return ok(st, VReal(as_real(v)))
    raise Unsupported(f"float({v})")


def b_str(eng, st, args, kwargs):
    if not args:
        return ok(st, VStr(""))
    v = args[0]
    if isinstance(v, VStr):
        return ok(st, v)
    if isinstance(v, VInt):
        return ok(st, VStr(z3.If(v.e >= 0, z3.IntToStr(v.e), z3.Concat(z3.StringVal("-"), z3.IntToStr(-v.e)))))
    # str(exception) etc.: opaque message text
    eng.assumptions_used.add("A-FSTRING")
    return ok(st, VStr(z3.Const(fresh_name("str"), StrS)))


def b_tuple(eng, st, args, kwargs):
    if not args:
        return ok(st, VTuple([]))
    v = args[0]
    if isinstance(v, VSeq):
        return ok(st, VSeq(v.e, v.elem, True))
    return ok(st, VTuple(eng.iter_concrete(v, st)))


def b_list(eng, st, args, kwargs):
    if args and isinstance(args[0], VSeq):
        # list(<symbolic sequence>): a new list object with the same elements in the same order
        return ok(st, VRef(st.alloc(HObj("slist", None, {"e": args[0].e, "elem": args[0].elem}))))
    if args and isinstance(args[0], VRef) and st.heap[args[0].oid].kind == "slist":
        o = st.heap[args[0].oid]
        return ok(st, VRef(st.alloc(HObj("slist", None, {"e": o.f["e"], "elem": o.f["elem"]}))))
    items = eng.iter_concrete(args[0], st) if args else []
    return ok(st, VRef(st.alloc(HObj("list", None, {"items": items}))))


def make_set(eng, st, items):
    """Concrete-size set (dedup is decided structurally; symbolic duplicates are unsupported)."""
    out = []
    for x in items:
        dup = False
        for y in out:
            c = simp(values_equal(x, y))
            if z3.is_true(c):
                dup = True
                break
            if not z3.is_false(c):
                raise Unsupported("set with possibly-equal symbolic members")
        if not dup:
            out.append(x)
    return VRef(st.alloc(HObj("cset", None, {"items": out})))


def b_set(eng, st, args, kwargs):
    return ok(st, make_set(eng, st, eng.iter_concrete(args[0], st) if args else []))


def key_repr(eng, st, k):
    k = eng.devalue(k, st)
    if isinstance(k, VStr):
        e = simp(k.e)
        if z3.is_string_value(e):
            return ("s", e.as_string())
    if isinstance(k, VInt):
        e = simp(k.e)
        if z3.is_int_value(e):
            return ("i", e.as_long())
    if isinstance(k, VClass):
        return ("c", id(k.py))
    if isinstance(k, VEnum):
        e = simp(k.e)
        if z3.is_int_value(e):
            return ("e", k.cls.__name__, e.as_long())
    if isinstance(k, VTuple):
        return ("t",) + tuple(key_repr(eng, st, x) for x in k.items)
    raise Unsupported(f"dict key must be concrete: {k}")


def make_dict(eng, st, pairs):
    items = {}
    for k, v in pairs:
        items[key_repr(eng, st, k)] = (k, v)
    return VRef(st.alloc(HObj("dict", None, {"items": items})))


def b_minmax(is_min, eng, st, args, kwargs):
    vals = args if len(args) > 1 else eng.iter_concrete(args[0], st)
    acc = vals[0]
    for v in vals[1:]:
        c = compare(ast.Lt() if is_min else ast.Gt(), v, acc)
        acc = merge_value(simp(c), v, acc)
    return ok(st, acc)


def b_abs(eng, st, args, kwargs):
    v = args[0]
    if isinstance(v, VReal):
        return ok(st, VReal(z3.If(v.e >= 0, v.e, -v.e)))
    e = as_int(v)
    return ok(st, VInt(simp(z3.If(e >= 0, e, -e))))


def round_half_even(r):
    """Python round(x) on a real: nearest integer, ties to even."""
    fl = z3.ToInt(r)
    frac = r - z3.ToReal(fl)
    half = z3.RealVal("1/2")
    return z3.If(frac < half, fl, z3.If(frac > half, fl + 1, z3.If(fl % 2 == 0, fl, fl + 1)))


def b_round(eng, st, args, kwargs):
    v = args[0]
    if len(args) == 1 or isinstance(args[1], VNoneT):
        if isinstance(v, VReal):
            return ok(st, VInt(simp(round_half_even(v.e))))
        return ok(st, VInt(as_int(v)))
    raise Unsupported("round(x, ndigits)")


def b_partial(eng, st, args, kwargs):
    return ok(st, VFunc("partial", func=args[0], args=list(args[1:]), kwargs=dict(kwargs)))


def b_getattr(eng, st, args, kwargs):
    name = simp(args[1].e)
    if not z3.is_string_value(name):
        raise Unsupported("getattr with symbolic name")
    out = []
    for s, v in eng.split_union(args[0], st):
        try:
            out.append((s, eng.getattr(v, name.as_string(), s)))
        except AttributeError:
            if len(args) > 2:
                out.append((s, args[2]))
            else:
                out.append((s, eng.raise_py(s, AttributeError, name.as_string())))
        except Exception as e:
            if type(e).__name__ != "MessageAttrFork":
                raise
            # opaque message whose class is not determined: one path per class that has the field, the default otherwise
            for c in e.feas:
                s3 = s.clone()
                s3.assume(typeof_f(e.v.e) == cls_code(c))
                out.append((s3, eng.msg_field_value(s3, c, name.as_string(), e.v.e)))
            if e.other:
                s3 = s.clone()
                for c in e.feas:
                    s3.assume(typeof_f(e.v.e) != cls_code(c))
                out.append((s3, args[2] if len(args) > 2 else eng.raise_py(s3, AttributeError, name.as_string())))
    return out


def b_setattr(eng, st, args, kwargs):
    name = simp(args[1].e) if isinstance(args[1], VStr) else None
    if name is None or not z3.is_string_value(name):
        raise Unsupported("setattr with a symbolic name")
    out = []
    for s, base in eng.split_union(args[0], st):
        for s2, r in setattr_(eng, s, base, name.as_string(), args[2]):
            out.append((s2, r if isinstance(r, Raised) else VNone))
    return out


def b_hasattr(eng, st, args, kwargs):
    raise Unsupported("hasattr")


def b_range(eng, st, args, kwargs):
    vals = [simp(as_int(a)) for a in args]
    if not all(z3.is_int_value(v) for v in vals):
        raise Unsupported("range with symbolic bounds")
    return ok(st, VTuple([VInt(i) for i in range(*[v.as_long() for v in vals])]))


def b_enumerate(eng, st, args, kwargs):
    items = eng.iter_concrete(args[0], st)
    return ok(st, VTuple([VTuple([VInt(i), x]) for i, x in enumerate(items)]))


def b_zip(eng, st, args, kwargs):
    lists = [eng.iter_concrete(a, st) for a in args]
    return ok(st, VTuple([VTuple(list(t)) for t in zip(*lists)]))


# ---------------------------------------------------------------------------
# operators
# ---------------------------------------------------------------------------
def binop(eng, st, op, a, b):
    num = (VInt, VBool, VReal, VEnum)
    if isinstance(a, num) and isinstance(b, num):
        if isinstance(op, (ast.Div,)) :
            # ZeroDivisionError when b == 0 is not forked here: callers in scope divide by constants
            pass
        return num_binop(op, VInt(as_int(a)) if isinstance(a, VEnum) else a, VInt(as_int(b)) if isinstance(b, VEnum) else b)
    oa, ob = heap_obj(st, a), heap_obj(st, b)
    if isinstance(op, ast.Add):
        if isinstance(a, VNoneT) or isinstance(b, VNoneT):
            return eng.raise_py(st, TypeError, "unsupported operand type(s) for +: NoneType")
        av = VBytes(oa.f["e"], KIND_BYTEARRAY) if oa is not None and oa.kind == "buf" else a
        bv = VBytes(ob.f["e"], KIND_BYTEARRAY) if ob is not None and ob.kind == "buf" else b
        if isinstance(av, VBytes) and isinstance(bv, VBytes):
            # result type follows the left operand (bytes + bytearray -> bytes; bytearray + bytes -> bytearray)
            if oa is not None:
                return VRef(st.alloc(HObj("buf", None, {"e": simp(z3.Concat(av.e, bv.e))})))
            return VBytes(simp(z3.Concat(av.e, bv.e)), av.kind)
        if isinstance(a, VStr) and isinstance(b, VStr):
            return VStr(simp(z3.Concat(a.e, b.e)))
        if isinstance(a, VTuple) and isinstance(b, VTuple):
            return VTuple(a.items + b.items)
        if oa is not None and ob is not None and oa.kind == "list" and ob.kind == "list":
            return VRef(st.alloc(HObj("list", None, {"items": oa.f["items"] + ob.f["items"]})))
        if oa is not None and oa.kind == "slist":
            a = VSeq(oa.f["e"], oa.f["elem"])
        if ob is not None and ob.kind == "slist":
            b = VSeq(ob.f["e"], ob.f["elem"])
        if isinstance(a, VSeq) and isinstance(b, VSeq):
            return VSeq(z3.Concat(a.e, b.e), a.elem, a.is_tuple)
        if isinstance(a, VSeq) and isinstance(b, VTuple) or isinstance(a, VTuple) and isinstance(b, VSeq):
            s_, t_ = (a, b) if isinstance(a, VSeq) else (b, a)
            units = [z3.Unit(encode_elem(eng, st, x, s_.elem)) for x in t_.items]
            te = z3.Empty(s_.e.sort()) if not units else (units[0] if len(units) == 1 else z3.Concat(*units))
            return VSeq(z3.Concat(a.e, te) if isinstance(a, VSeq) else z3.Concat(te, b.e), s_.elem, s_.is_tuple)
    if isinstance(op, ast.Mult):
        if isinstance(a, VStr) or isinstance(b, VStr) or isinstance(a, VBytes) or isinstance(b, VBytes):
            raise Unsupported("sequence repetition")
    if isinstance(op, ast.Mod) and isinstance(a, VStr):
        eng.assumptions_used.add("A-FSTRING")
        return VStr(z3.Const(fresh_name("fmt"), StrS))
    if isinstance(op, ast.BitOr) and isinstance(a, VClass) and isinstance(b, VClass):
        raise Unsupported("type union")
    raise Unsupported(f"binop {type(op).__name__} on {a}, {b}")


def inplace_extend(eng, st, ref, other):
    o = st.heap[ref.oid]
    if o.kind == "list":
        o.f["items"] = o.f["items"] + eng.iter_concrete(other, st)
    else:
        oo = heap_obj(st, other)
        e = oo.f["e"] if oo is not None else other.e
        o.f["e"] = simp(z3.Concat(o.f["e"], e))


def norm_index(i, n):
    """Python index normalisation for a possibly negative index expression."""
    return simp(z3.If(i < 0, i + n, i))


def implied(st, c):
    """Is c a consequence of the path condition?  (used only to pick simpler, equivalent encodings)"""
    c = simp(c)
    if z3.is_true(c):
        return True
    if z3.is_false(c):
        return False
    return not smt.feasible(st.pc, z3.Not(c), timeout_ms=100)


def clamp_slice(lo, hi, n, st=None):
    """(start, stop) after Python's slice clamping for step 1."""
    def clamp(x, default):
        if x is None:
            return default
        if st is not None and implied(st, z3.And(x >= 0, x <= n)):
            return x
        x = z3.If(x < 0, x + n, x)
        return z3.If(x < 0, z3.IntVal(0), z3.If(x > n, n, x))
    return simp(clamp(lo, z3.IntVal(0))), simp(clamp(hi, n))


def slice_(eng, st, base, lo, hi, step):
    if not isinstance(step, VNoneT):
        raise Unsupported("slice step")
    lo_e = None if isinstance(lo, VNoneT) else as_int(lo)
    hi_e = None if isinstance(hi, VNoneT) else as_int(hi)
    o = heap_obj(st, base)
    if isinstance(base, VNoneT):
        return eng.raise_py(st, TypeError, "'NoneType' object is not subscriptable")
    if isinstance(base, (VBytes, VStr, VSeq)) or (o is not None and o.kind == "buf"):
        e = o.f["e"] if o is not None else base.e
        n = z3.Length(e)
        a, b = clamp_slice(lo_e, hi_e, n, st)
        ln = (b - a) if implied(st, b >= a) else z3.If(b > a, b - a, z3.IntVal(0))
        r = simp(z3.SubSeq(e, a, ln))
        if isinstance(base, VStr):
            return VStr(r)
        if isinstance(base, VSeq):
            return VSeq(r, base.elem, base.is_tuple)
        if o is not None:
            return VRef(st.alloc(HObj("buf", None, {"e": r})))
        return VBytes(r, base.kind)
    if isinstance(base, VTuple) or (o is not None and o.kind == "list"):
        items = eng.iter_concrete(base, st)
        def conc(x):
            if x is None:
                return None
            x = simp(x)
            if not z3.is_int_value(x):
                raise Unsupported("symbolic slice bounds on a concrete list")
            return x.as_long()
        r = items[conc(lo_e):conc(hi_e)]
        return VTuple(r) if isinstance(base, VTuple) else VRef(st.alloc(HObj("list", None, {"items": r})))
    raise Unsupported(f"slice of {base}")


def index_(eng, st, base, idx):
    """[(state, V|Raised)] — forks on IndexError / KeyError."""
    h = eng.hooks.get("pre_index")
    if h is not None:
        r = h(eng, st, base, idx)
        if r is not None:
            return r
    o = heap_obj(st, base)
    if o is not None and o.kind == "slist":
        base, o = VSeq(o.f["e"], o.f["elem"]), None
    if isinstance(base, VNoneT):
        return ok(st, eng.raise_py(st, TypeError, "'NoneType' object is not subscriptable"))
    if isinstance(base, (VBytes, VStr, VSeq)) or (o is not None and o.kind == "buf"):
        e = o.f["e"] if o is not None else base.e
        n = z3.Length(e)
        i = as_int(idx)
        inb = simp(z3.And(i >= -n, i < n))
        out = []
        for s2, tv in eng.fork_bool(inb, st, "index"):
            if not tv:
                out.append((s2, eng.raise_py(s2, IndexError, "index out of range")))
                continue
            j = i if implied(s2, i >= 0) else norm_index(i, n)
            if isinstance(base, VStr):
                out.append((s2, VStr(simp(z3.SubString(e, j, 1)))))
            elif isinstance(base, VSeq):
                out.append((s2, decode_elem(eng, s2, e[j], base.elem)))
            else:
                x = e[j]                                   # (not simplified: z3 would expand nth into nth_i/nth_u)
                s2.fact(z3.And(x >= 0, x <= 255))        # type invariant of bytes, instantiated at this index
                out.append((s2, VInt(x)))
        return out
    if isinstance(base, VTuple) or (o is not None and o.kind == "list"):
        items = eng.iter_concrete(base, st)
        i = simp(as_int(idx))
        if z3.is_int_value(i):
            k = i.as_long()
            if -len(items) <= k < len(items):
                return ok(st, items[k])
            return ok(st, eng.raise_py(st, IndexError, "index out of range"))
        # symbolic index into a concrete tuple: ite chain, IndexError outside
        n = len(items)
        inb = simp(z3.And(i >= -n, i < n))
        out = []
        for s2, tv in eng.fork_bool(inb, st, "index"):
            if not tv:
                out.append((s2, eng.raise_py(s2, IndexError, "index out of range")))
                continue
            if n == 0:
                continue
            j = norm_index(i, z3.IntVal(n))
            out.append((s2, mk_union([(j == k, items[k]) for k in range(n)])))
        return out
    if o is not None and o.kind == "dict":
        kr = key_repr(eng, st, idx)
        if kr in o.f["items"]:
            return ok(st, o.f["items"][kr][1])
        return ok(st, eng.raise_py(st, KeyError, str(kr)))
    h = eng.hooks.get("index")
    if h is not None:
        r = h(eng, st, base, idx)
        if r is not None:
            return r
    raise Unsupported(f"subscript of {base}")


def setitem_(eng, st, base, idx, v):
    o = heap_obj(st, base)
    if o is not None and o.kind == "dict":
        o.f["items"][key_repr(eng, st, idx)] = (idx, v)
        return ok(st, None)
    if o is not None and o.kind == "list":
        i = simp(as_int(idx))
        if z3.is_int_value(i) and -len(o.f["items"]) <= i.as_long() < len(o.f["items"]):
            o.f["items"][i.as_long()] = v
            return ok(st, None)
    h = eng.hooks.get("setitem")
    if h is not None:
        r = h(eng, st, base, idx, v)
        if r is not None:
            return r
    raise Unsupported(f"item assignment on {base}")


def delitem_(eng, st, base, idx):
    o = heap_obj(st, base)
    if o is not None and o.kind == "dict":
        kr = key_repr(eng, st, idx)
        if kr in o.f["items"]:
            del o.f["items"][kr]
            return ok(st, None)
        return ok(st, eng.raise_py(st, KeyError, str(kr)))
    h = eng.hooks.get("delitem")
    if h is not None:
        r = h(eng, st, base, idx)
        if r is not None:
            return r
    raise Unsupported(f"del item on {base}")


def contains(eng, st, container, item):
    o = heap_obj(st, container)
    if isinstance(container, VStr) and isinstance(item, VStr):
        return z3.Contains(container.e, item.e)
    if isinstance(container, VBytes) and isinstance(item, VBytes):
        return z3.Contains(container.e, item.e)
    if isinstance(container, VSeq) and container.elem.head in ("int", "enum"):
        return z3.Contains(container.e, z3.Unit(as_int(item)))
    if isinstance(container, VTuple) or (o is not None and o.kind in ("list", "cset")):
        items = eng.iter_concrete(container, st)
        return simp(z3.Or(*[values_equal(eng.devalue(item, st), eng.devalue(x, st)) for x in items])) if items else z3.BoolVal(False)
    if o is not None and o.kind == "dict":
        try:
            return z3.BoolVal(key_repr(eng, st, item) in o.f["items"])
        except Unsupported:
            return simp(z3.Or(*[values_equal(item, k) for k, _ in o.f["items"].values()])) if o.f["items"] else z3.BoolVal(False)
    h = eng.hooks.get("contains")
    if h is not None:
        r = h(eng, st, container, item)
        if r is not None:
            return r
    raise Unsupported(f"`in` on {container}")


# ---------------------------------------------------------------------------
# symbolic sequences of structured elements
# ---------------------------------------------------------------------------
_dt_cache = {}


def elem_sort(eng, ty: Ty):
    """z3 sort for an element type."""
    h = ty.head
    if h == "int":
        return IntS
    if h == "bool":
        return BoolS
    if h == "real":
        return RealS
    if h == "str":
        return StrS
    if h == "bytes":
        return BytesS
    if h == "obj":
        return ObjS
    if h == "enum":
        return IntS
    if h == "tuple":
        key = repr(ty)
        if key not in _dt_cache:
            dt = z3.Datatype("Tup_" + str(len(_dt_cache)))
            dt.declare("mk", *[(f"f{i}", elem_sort(eng, a)) for i, a in enumerate(ty.args)])
            _dt_cache[key] = dt.create()
        return _dt_cache[key]
    if h == "seq":
        return z3.SeqSort(elem_sort(eng, ty.args[0]))
    raise Unsupported(f"element sort of {ty}")


def decode_elem(eng, st, e, ty: Ty) -> V:
    h = ty.head
    if h == "int":
        return VInt(e)
    if h == "bool":
        return VBool(e)
    if h == "real":
        return VReal(e)
    if h == "str":
        return VStr(e)
    if h == "bytes":
        return VBytes(e)
    if h == "obj":
        return VObj(e, ty.args[0].head if ty.args else None)
    if h == "enum":
        return VEnum(eng.resolve_class(ty.args[0].head), e)
    if h == "tuple":
        srt = elem_sort(eng, ty)
        return VTuple([decode_elem(eng, st, srt.accessor(0, i)(e), a) for i, a in enumerate(ty.args)])
    if h == "seq":
        return VSeq(e, ty.args[0])
    raise Unsupported(f"decode {ty}")


def encode_elem(eng, st, v: V, ty: Ty):
    h = ty.head
    if h in ("int", "bool", "real", "str", "bytes", "obj"):
        if h == "int":
            return as_int(v)
        if h == "obj":
            from .heapmodel import box
            return box(eng, st, v)
        if h == "seq" or not hasattr(v, "e"):
            pass
        if isinstance(v, VRef) and st.heap[v.oid].kind == "slist":
            return st.heap[v.oid].f["e"]
        return v.e
    if h == "enum":
        if not (isinstance(v, VEnum) and v.cls is eng.resolve_class(ty.args[0].head)):
            raise Unsupported(f"value {v} stored where a member of {ty.args[0].head} is required")
        return v.e
    if h == "tuple":
        srt = elem_sort(eng, ty)
        return srt.constructor(0)(*[encode_elem(eng, st, x, a) for x, a in zip(v.items, ty.args)])
    if h == "seq":
        if isinstance(v, VSeq):
            return v.e
        if isinstance(v, VRef) and st.heap[v.oid].kind == "slist":
            return st.heap[v.oid].f["e"]
        items = eng.iter_concrete(v, st)
        units = [z3.Unit(encode_elem(eng, st, x, ty.args[0])) for x in items]
        return z3.Empty(elem_sort(eng, ty)) if not units else (units[0] if len(units) == 1 else z3.Concat(*units))
    raise Unsupported(f"encode {ty}")


def destructure_seq(eng, st, tgt, v: VSeq):
    n = len(tgt.elts)
    out = []
    for s2, tv in eng.fork_bool(z3.Length(v.e) == n, st, "unpack"):
        if not tv:
            out.append((s2, eng.raise_py(s2, ValueError, "unpack length mismatch")))
            continue
        paths = [(s2, None)]
        for i, t in enumerate(tgt.elts):
            nxt = []
            for s3, r in paths:
                nxt.extend(eng.assign(t, decode_elem(eng, s3, v.e[i], v.elem), s3) if r is None else [(s3, r)])
            paths = nxt
        out.extend(paths)
    return out


# ---------------------------------------------------------------------------
# attributes and methods
# ---------------------------------------------------------------------------
def bmeth(name, recv, impl):
    return VFunc("bmeth", name=name, recv=recv, impl=impl)


def lift_or_live(eng, st, obj):
    try:
        return eng.lift(obj, st)
    except Unsupported:
        return VLive(obj)


def concretize(v):
    """Python value of a constant engine value (for calls on live library objects), or raise Unsupported."""
    if isinstance(v, VLive):
        return v.obj
    if isinstance(v, VNoneT):
        return None
    if isinstance(v, VClass):
        return v.py
    if isinstance(v, (VStr, VInt, VBool)):
        e = z3.simplify(v.e)
        if z3.is_string_value(e):
            return e.as_string()
        if z3.is_int_value(e):
            return e.as_long()
        if z3.is_true(e) or z3.is_false(e):
            return z3.is_true(e)
    raise Unsupported(f"call on a live library object with a non-constant argument {v}")


def call_live(eng, st, fv, args, kwargs):
    eng.assumptions_used.add("A-LIB(dataclasses): fields(), Field.metadata are read from the live classes")
    r = fv.obj(*[concretize(a) for a in args], **{k: concretize(a) for k, a in kwargs.items()})
    return ok(st, lift_or_live(eng, st, r))


def b_dc_fields(eng, st, args, kwargs):
    import dataclasses
    c = args[0]
    if isinstance(c, VRef):
        c = VClass(st.heap[c.oid].cls)
    if not isinstance(c, VClass) or not dataclasses.is_dataclass(c.py):
        raise Unsupported(f"dataclasses.fields of {c}")
    eng.assumptions_used.add("A-LIB(dataclasses): fields(), Field.metadata are read from the live classes")
    return ok(st, VTuple([VLive(f) for f in dataclasses.fields(c.py)]))


def getattr_(eng, st, v, name):
    if isinstance(v, VNoneT):
        # AttributeError on None is a real behaviour we must see (C09: no raw AttributeError escapes)
        return VFunc("builtin", name="raise-attr", impl=lambda e, s, a, k: ok(s, e.raise_py(s, AttributeError, f"'NoneType' object has no attribute {name!r}"))) \
            if False else _none_attr(eng, st, name)
    if isinstance(v, VGhostNS):
        g = st.heap[st.ghost_oid]
        if name not in g.f:
            raise Unsupported(f"ghost variable {name} not declared")
        return g.f[name]
    if isinstance(v, VModule):
        return eng.lift(getattr(v.py, name), st)
    if isinstance(v, VLive):
        return lift_or_live(eng, st, getattr(v.obj, name))
    if isinstance(v, VBytes):
        return bmeth(name, v, BYTES_METHODS[name]) if name in BYTES_METHODS else _unsup(f"bytes.{name}")
    if isinstance(v, VStr):
        return bmeth(name, v, STR_METHODS[name]) if name in STR_METHODS else _unsup(f"str.{name}")
    if isinstance(v, VEnum):
        if name == "value":
            return VInt(v.e)
        if name == "name":
            codes = eng.enum_codes(v.cls)
            return mk_union([(v.e == c, VStr(m.name)) for c, m in zip(codes, v.cls)])
        raise Unsupported(f"enum attribute {name}")
    if isinstance(v, VTuple):
        raise Unsupported(f"tuple.{name}")
    if isinstance(v, VSeq):
        if name in SEQ_METHODS:
            return bmeth(name, v, SEQ_METHODS[name])
        raise Unsupported(f"seq.{name}")
    if isinstance(v, VRef):
        o = st.heap[v.oid]
        if o.kind == "list":
            return bmeth(name, v, LIST_METHODS[name]) if name in LIST_METHODS else _unsup(f"list.{name}")
        if o.kind == "buf":
            return bmeth(name, v, BUF_METHODS[name]) if name in BUF_METHODS else _unsup(f"bytearray.{name}")
        if o.kind == "dict":
            return bmeth(name, v, DICT_METHODS[name]) if name in DICT_METHODS else _unsup(f"dict.{name}")
        if o.kind == "cset":
            return bmeth(name, v, CSET_METHODS[name]) if name in CSET_METHODS else _unsup(f"set.{name}")
        if o.kind == "slist":
            return bmeth(name, v, SLIST_METHODS[name]) if name in SLIST_METHODS else _unsup(f"list.{name} (symbolic list)")
        if o.kind == "sset":
            return bmeth(name, v, SSET_METHODS[name]) if name in SSET_METHODS else _unsup(f"set.{name} (symbolic set)")
        if o.kind in ("inst", "msg", "cell"):
            if name in o.f:
                return o.f[name]
            if name == "__class__":
                return VClass(o.cls)
            h = eng.hooks.get("inst_getattr")
            if h is not None:
                r = h(eng, st, v, o, name)
                if r is not None:
                    return r
            m = eng.find_method(o.cls, name, st) if hasattr(eng, "find_method") else None
            if m is not None:
                return m if getattr(m, "is_static", False) else VFunc("bound", func=m, selfv=v)
            raise Unsupported(f"attribute {name} of {getattr(o.cls, '__name__', o.cls)} instance (fields: {sorted(k for k in o.f)[:12]})")
        h = eng.hooks.get("ref_getattr")
        if h is not None:
            r = h(eng, st, v, o, name)
            if r is not None:
                return r
    if isinstance(v, VClass):
        return class_attr(eng, st, v, name)
    if isinstance(v, VObj):
        h = eng.hooks.get("obj_getattr")
        if h is not None:
            r = h(eng, st, v, name)
            if r is not None:
                return r
        raise Unsupported(f"attribute {name} of opaque object {v}")
    if isinstance(v, VFunc):
        if v.kind == "superproxy":
            cls = getattr(v, "cls", None)
            if isinstance(cls, type) and not issubclass(cls, BaseException):
                for k in cls.__mro__[1:]:
                    m = eng.find_method(k, name, st) if name in vars(k) else None
                    if m is not None:
                        return VFunc("bound", func=m, selfv=v.selfv)
                    if name in vars(k):
                        break
                if name == "__init__":
                    return VFunc("builtin", name="object.__init__", impl=lambda e, s, a, k: ok(s, VNone))
                raise Unsupported(f"super().{name} of {cls.__name__}")
            if name == "__init__":       # exception classes: the base __init__ only stores args (already recorded)
                return VFunc("builtin", name="super().__init__", impl=lambda e, s, a, k: ok(s, VNone))
            raise Unsupported(f"super().{name}")
        if name == "__name__":
            return VStr(getattr(v, "qualname", None) or getattr(v, "name", "f"))
        if v.kind == "typeof" and name == "__name__":
            return VStr(z3.Const(fresh_name("clsname"), StrS))
        if name == "cancel" or name == "cache_clear":
            raise Unsupported(f"function attribute {name}")
    raise Unsupported(f"attribute {name} of {v}")


def _unsup(what):
    raise Unsupported(what)


def _none_attr(eng, st, name):
    # evaluated lazily: reading any attribute of None raises AttributeError
    raise NoneAttr(name)


class NoneAttr(Exception):
    def __init__(self, name):
        self.name = name


def class_attr(eng, st, v: VClass, name):
    c = v.py
    if isinstance(c, type) and issubclass(c, enum.Enum) and name in c.__members__:
        return eng.lift(c[name], st)
    if name == "__name__":
        return VStr(c.__name__)
    m = eng.find_method(c, name, st) if hasattr(eng, "find_method") else None
    if m is not None:
        if getattr(m, "is_classmethod", False):
            return VFunc("bound", func=m, selfv=v)
        return m
    if isinstance(c, type) and hasattr(c, name):
        a = getattr(c, name)
        try:
            return eng.lift(a, st)
        except Unsupported:
            pass
    raise Unsupported(f"class attribute {getattr(c, '__name__', c)}.{name}")


def setattr_(eng, st, base, name, v):
    if isinstance(base, VGhostNS):
        st.heap[st.ghost_oid].f[name] = v
        return ok(st, None)
    if isinstance(base, VNoneT):
        return ok(st, eng.raise_py(st, AttributeError, f"'NoneType' object has no attribute {name!r}"))
    if isinstance(base, VRef):
        o = st.heap[base.oid]
        if o.kind == "msg":
            h = eng.hooks.get("msg_setattr")
            if h is not None:
                return h(eng, st, base, o, name, v)
        if o.kind in ("inst", "cell", "msg"):
            h = eng.hooks.get("inst_setattr")
            if h is not None:
                r = h(eng, st, base, o, name, v)
                if r is not None:
                    return r
            spec = eng.class_specs.get(o.cls) if o.kind == "inst" else None
            if spec is not None and name not in spec.fields and name not in o.f:
                # the code stores an attribute the sidecar's description of this class does not know (renamed or new field): the
                # contracts written against the old field names say nothing about this code - undecided, never a verdict
                raise Unsupported(f"attribute {name} of {getattr(o.cls, '__name__', o.cls)} is not in the class description used by the contracts "
                                  f"(fields: {sorted(spec.fields)[:12]}...): the contracts are stale for this class")
            o.f[name] = v
            return ok(st, None)
    if isinstance(base, VObj):
        h = eng.hooks.get("obj_setattr")
        if h is not None:
            r = h(eng, st, base, name, v)
            if r is not None:
                return r
    raise Unsupported(f"attribute store {name} on {base}")


# ---- bytes / str / list methods -------------------------------------------------------------------------
def m_bytes_find(eng, st, recv, args, kwargs):
    sub = args[0]
    start = as_int(args[1]) if len(args) > 1 else z3.IntVal(0)
    if len(args) > 2:
        raise Unsupported("find with end")
    n = z3.Length(recv.e)
    start = simp(z3.If(start < 0, z3.If(start + n < 0, z3.IntVal(0), start + n), start))
    # Python: returns -1 when start > len; z3 IndexOf also gives -1 for offset > len
    return ok(st, VInt(simp(z3.IndexOf(recv.e, sub.e, start))))


def m_bytes_decode(eng, st, recv, args, kwargs):
    h = eng.hooks.get("bytes_decode")
    if h is None:
        raise Unsupported("bytes.decode without a model")
    return h(eng, st, recv, args, kwargs)


def m_bytes_hex(eng, st, recv, args, kwargs):
    return ok(st, VStr(z3.Const(fresh_name("hex"), StrS)))


def m_bytes_join(eng, st, recv, args, kwargs):
    sep = simp(recv.e)
    items = args[0]
    if isinstance(items, VUnion):
        out = []
        for s2, it in eng.split_union(items, st):
            out.extend(m_bytes_join(eng, s2, recv, [it], kwargs))
        return out
    io = heap_obj(st, items)
    if io is not None and io.kind == "slist":
        from .heapmodel import joinb_f
        if not (z3.is_app(sep) and sep.decl().kind() == z3.Z3_OP_SEQ_EMPTY):
            raise Unsupported("join of a symbolic list with a non-empty separator")
        return ok(st, VBytes(joinb_f(io.f["e"])))
    if isinstance(items, VSeq):
        raise Unsupported("join over symbolic-length sequence")
    parts = eng.iter_concrete(items, st)
    es = []
    for i, p in enumerate(parts):
        o = heap_obj(st, p)
        if isinstance(p, VNoneT):
            return ok(st, eng.raise_py(st, TypeError, "sequence item: expected a bytes-like object, NoneType found"))
        es.append(o.f["e"] if o is not None else p.e)
        if i < len(parts) - 1 and not (z3.is_app(sep) and sep.decl().kind() == z3.Z3_OP_SEQ_EMPTY):
            es.append(sep)
    e = z3.Empty(BytesS) if not es else (es[0] if len(es) == 1 else z3.Concat(*es))
    return ok(st, VBytes(simp(e)))


BYTES_METHODS = {"find": m_bytes_find, "decode": m_bytes_decode, "hex": m_bytes_hex, "join": m_bytes_join}


def m_str_endswith(eng, st, recv, args, kwargs):
    return ok(st, VBool(z3.SuffixOf(args[0].e, recv.e)))


def m_str_startswith(eng, st, recv, args, kwargs):
    return ok(st, VBool(z3.PrefixOf(args[0].e, recv.e)))


def m_str_removesuffix(eng, st, recv, args, kwargs):
    suf = args[0].e
    s = recv.e
    cond = z3.And(z3.Length(suf) > 0, z3.SuffixOf(suf, s))
    return ok(st, VStr(simp(z3.If(cond, z3.SubString(s, 0, z3.Length(s) - z3.Length(suf)), s))))


def m_str_partition(eng, st, recv, args, kwargs):
    sep = args[0].e
    s = recv.e
    i = z3.IndexOf(s, sep, 0)
    head = z3.If(i < 0, s, z3.SubString(s, 0, i))
    mid = z3.If(i < 0, z3.StringVal(""), sep)
    tail = z3.If(i < 0, z3.StringVal(""), z3.SubString(s, i + z3.Length(sep), z3.Length(s)))
    return ok(st, VTuple([VStr(simp(head)), VStr(simp(mid)), VStr(simp(tail))]))


def m_str_join(eng, st, recv, args, kwargs):
    eng.assumptions_used.add("A-FSTRING")
    return ok(st, VStr(z3.Const(fresh_name("joined"), StrS)))


def m_str_title(eng, st, recv, args, kwargs):
    return ok(st, VStr(z3.Const(fresh_name("title"), StrS)))


def m_str_isdigit(eng, st, recv, args, kwargs):
    # non-empty and all ASCII digits (unicode digits are outside the model: A-STRDIGIT)
    s = recv.e
    return ok(st, VBool(z3.And(z3.Length(s) > 0, z3.InRe(s, z3.Plus(z3.Range("0", "9"))))))


def _str_fold(fname):
    """casefold / lower / upper: an uninterpreted total function on strings (all that is used: equal inputs give equal outputs;
    two different strings *may* fold to the same one)."""
    f = z3.Function("str_" + fname, StrS, StrS)

    def impl(eng, st, recv, args, kwargs):
        return ok(st, VStr(f(recv.e)))
    return impl


def m_bytes_startswith(eng, st, recv, args, kwargs):
    return ok(st, VBool(z3.PrefixOf(args[0].e, recv.e)))


def m_bytes_endswith(eng, st, recv, args, kwargs):
    return ok(st, VBool(z3.SuffixOf(args[0].e, recv.e)))


BYTES_METHODS.update({"startswith": m_bytes_startswith, "endswith": m_bytes_endswith})
STR_METHODS = {"casefold": _str_fold("casefold"), "lower": _str_fold("lower"), "upper": _str_fold("upper"), "endswith": m_str_endswith, "startswith": m_str_startswith, "removesuffix": m_str_removesuffix,
               "partition": m_str_partition, "join": m_str_join, "title": m_str_title, "isdigit": m_str_isdigit}


def m_list_append(eng, st, recv, args, kwargs):
    st.heap[recv.oid].f["items"] = st.heap[recv.oid].f["items"] + [args[0]]
    return ok(st, VNone)


def m_list_pop(eng, st, recv, args, kwargs):
    items = st.heap[recv.oid].f["items"]
    i = -1
    if args:
        e = simp(as_int(args[0]))
        if not z3.is_int_value(e):
            raise Unsupported("list.pop symbolic index")
        i = e.as_long()
    if not (-len(items) <= i < len(items)):
        return ok(st, eng.raise_py(st, IndexError, "pop from empty list" if not items else "pop index out of range"))
    items = list(items)
    v = items.pop(i)
    st.heap[recv.oid].f["items"] = items
    return ok(st, v)


def _seq_of_listlike(eng, st, v, elem=None):
    """z3 sequence term + element type of a list value (concrete list, symbolic list or VSeq)."""
    o = heap_obj(st, v)
    if o is not None and o.kind == "slist":
        return o.f["e"], o.f["elem"]
    if isinstance(v, VSeq):
        return v.e, v.elem
    items = eng.iter_concrete(v, st)
    if elem is None:
        raise Unsupported("element type of a concrete list is needed to make it symbolic")
    units = [z3.Unit(encode_elem(eng, st, eng.devalue(x, st), elem)) for x in items]
    srt = z3.SeqSort(elem_sort(eng, elem))
    return (z3.Empty(srt) if not units else (units[0] if len(units) == 1 else z3.Concat(*units))), elem


def m_list_extend(eng, st, recv, args, kwargs):
    oo = heap_obj(st, args[0])
    if (oo is not None and oo.kind == "slist") or isinstance(args[0], VSeq):
        # a concrete list extended by a symbolic-length one becomes a symbolic-length list (same object)
        e2, elem = _seq_of_listlike(eng, st, args[0])
        e1, _ = _seq_of_listlike(eng, st, recv, elem)
        st.heap[recv.oid] = HObj("slist", None, {"e": simp(z3.Concat(e1, e2)), "elem": elem})
        return ok(st, VNone)
    st.heap[recv.oid].f["items"] = st.heap[recv.oid].f["items"] + eng.iter_concrete(args[0], st)
    return ok(st, VNone)


def m_slist_extend(eng, st, recv, args, kwargs):
    o = st.heap[recv.oid]
    e2, _ = _seq_of_listlike(eng, st, args[0], o.f["elem"])
    o.f["e"] = simp(z3.Concat(o.f["e"], e2))
    return ok(st, VNone)


def m_list_copy(eng, st, recv, args, kwargs):
    return ok(st, VRef(st.alloc(HObj("list", None, {"items": list(st.heap[recv.oid].f["items"])}))))


def m_list_clear(eng, st, recv, args, kwargs):
    st.heap[recv.oid].f["items"] = []
    return ok(st, VNone)


def m_list_remove(eng, st, recv, args, kwargs):
    """list.remove(x): delete the first element equal to x, ValueError when there is none."""
    items = list(st.heap[recv.oid].f["items"])
    out = []
    cur = st
    for i, it in enumerate(items):
        eq = simp(eng.struct_eq(it, args[0], cur))
        nxt = None
        for s2, tv in eng.fork_bool(eq, cur, "list.remove-eq"):
            if tv:
                s2.heap[recv.oid].f["items"] = items[:i] + items[i + 1:]
                out.append((s2, VNone))
            else:
                nxt = s2
        if nxt is None:
            return out
        cur = nxt
    out.append((cur, eng.raise_py(cur, ValueError, "list.remove(x): x not in list")))
    return out


LIST_METHODS = {"remove": m_list_remove, "append": m_list_append, "pop": m_list_pop, "extend": m_list_extend, "copy": m_list_copy, "clear": m_list_clear}


def m_buf_append(eng, st, recv, args, kwargs):
    x = as_int(args[0])
    out = []
    for s2, tv in eng.fork_bool(z3.And(x >= 0, x <= 255), st, "bytearray.append-range"):
        if tv:
            o = s2.heap[recv.oid]
            o.f["e"] = simp(z3.Concat(o.f["e"], z3.Unit(x)))
            out.append((s2, VNone))
        else:
            out.append((s2, eng.raise_py(s2, ValueError, "byte must be in range(0, 256)")))
    return out


def m_buf_extend(eng, st, recv, args, kwargs):
    inplace_extend(eng, st, recv, args[0])
    return ok(st, VNone)


BUF_METHODS = {"append": m_buf_append, "extend": m_buf_extend}


def m_dict_get(eng, st, recv, args, kwargs):
    o = st.heap[recv.oid]
    k0 = args[0]
    if isinstance(k0, VFunc) and k0.kind in ("typeof", "symcls") and o.f["items"] and all(isinstance(k, VClass) for k, _ in o.f["items"].values()):
        # lookup by a symbolic class: the entry whose key is that class, else the default
        code = _class_key_of(k0)
        default = args[1] if len(args) > 1 else VNone
        alts, none_of = [], []
        for k, v in o.f["items"].values():
            alts.append((code == cls_code(k.py), v))
            none_of.append(code != cls_code(k.py))
        alts.append((z3.And(*none_of), default))
        return ok(st, mk_union(alts))
    kr = key_repr(eng, st, args[0])
    if kr in o.f["items"]:
        return ok(st, o.f["items"][kr][1])
    return ok(st, args[1] if len(args) > 1 else VNone)


def m_dict_pop(eng, st, recv, args, kwargs):
    o = st.heap[recv.oid]
    kr = key_repr(eng, st, args[0])
    if kr in o.f["items"]:
        v = o.f["items"].pop(kr)[1]
        return ok(st, v)
    if len(args) > 1:
        return ok(st, args[1])
    return ok(st, eng.raise_py(st, KeyError, str(kr)))


def m_dict_items(eng, st, recv, args, kwargs):
    return ok(st, VTuple([VTuple([k, v]) for k, v in st.heap[recv.oid].f["items"].values()]))


def m_dict_values(eng, st, recv, args, kwargs):
    return ok(st, VTuple([v for _, v in st.heap[recv.oid].f["items"].values()]))


def m_dict_keys(eng, st, recv, args, kwargs):
    return ok(st, VTuple([k for k, _ in st.heap[recv.oid].f["items"].values()]))


DICT_METHODS = {"get": m_dict_get, "pop": m_dict_pop, "items": m_dict_items, "values": m_dict_values, "keys": m_dict_keys}


def m_cset_add(eng, st, recv, args, kwargs):
    o = st.heap[recv.oid]
    new = make_set(eng, st, o.f["items"] + [args[0]])
    o.f["items"] = st.heap[new.oid].f["items"]
    del st.heap[new.oid]
    return ok(st, VNone)


def m_cset_discard(eng, st, recv, args, kwargs):
    o = st.heap[recv.oid]
    keep = []
    for x in o.f["items"]:
        c = simp(values_equal(x, args[0]))
        if z3.is_true(c):
            continue
        if not z3.is_false(c):
            raise Unsupported("set.discard with possibly-equal symbolic member")
        keep.append(x)
    o.f["items"] = keep
    return ok(st, VNone)


def m_cset_copy(eng, st, recv, args, kwargs):
    return ok(st, VRef(st.alloc(HObj("cset", None, {"items": list(st.heap[recv.oid].f["items"])}))))


def m_cset_clear(eng, st, recv, args, kwargs):
    st.heap[recv.oid].f["items"] = []
    return ok(st, VNone)


CSET_METHODS = {"add": m_cset_add, "discard": m_cset_discard, "copy": m_cset_copy, "clear": m_cset_clear}

SEQ_METHODS = {}


def m_slist_append(eng, st, recv, args, kwargs):
    """append on a symbolic-length list; for lists of bytes also records the defining fact of b"".join."""
    from .heapmodel import joinb_f
    o = st.heap[recv.oid]
    x = encode_elem(eng, st, eng.devalue(args[0], st), o.f["elem"])
    old = o.f["e"]
    new = simp(z3.Concat(old, z3.Unit(x)))
    if o.f["elem"].head == "bytes":
        st.fact(joinb_f(new) == z3.Concat(joinb_f(old), x))      # definition of join, instantiated here
    o.f["e"] = new
    bk = o.f.get("__backing__")
    if bk is not None:          # this list object is the value stored in a symbolic map: the map sees the mutation
        mo = st.heap[bk[0]]
        mo.f["val"] = z3.Store(mo.f["val"], bk[1], new)
    return ok(st, VNone)


def m_slist_pop(eng, st, recv, args, kwargs):
    """pop(0) / pop() on a symbolic-length list: IndexError when empty."""
    o = st.heap[recv.oid]
    e = o.f["e"]
    n = z3.Length(e)
    first = bool(args) and z3.is_int_value(simp(as_int(args[0]))) and simp(as_int(args[0])).as_long() == 0
    if args and not first:
        raise Unsupported("list.pop(i) on a symbolic list for i != 0")
    out = []
    for s2, tv in eng.fork_bool(n > 0, st, "pop"):
        if not tv:
            out.append((s2, eng.raise_py(s2, IndexError, "pop from empty list")))
            continue
        o2 = s2.heap[recv.oid]
        if first:
            val = decode_elem(eng, s2, e[0], o2.f["elem"])
            o2.f["e"] = z3.SubSeq(e, 1, n - 1)
        else:
            val = decode_elem(eng, s2, e[n - 1], o2.f["elem"])
            o2.f["e"] = z3.SubSeq(e, 0, n - 1)
        out.append((s2, val))
    return out


SLIST_METHODS = {"append": m_slist_append, "pop": m_slist_pop, "extend": m_slist_extend}


def m_sset_add(eng, st, recv, args, kwargs):
    from .heapmodel import box
    o = st.heap[recv.oid]
    o.f["e"] = z3.SetAdd(o.f["e"], box(eng, st, args[0]))
    return ok(st, VNone)


def m_sset_discard(eng, st, recv, args, kwargs):
    from .heapmodel import box
    o = st.heap[recv.oid]
    o.f["e"] = z3.SetDel(o.f["e"], box(eng, st, args[0]))
    return ok(st, VNone)


def m_sset_clear(eng, st, recv, args, kwargs):
    o = st.heap[recv.oid]
    o.f["e"] = z3.EmptySet(ObjS)
    return ok(st, VNone)


def m_sset_copy(eng, st, recv, args, kwargs):
    o = st.heap[recv.oid]
    return ok(st, VRef(st.alloc(HObj("sset", None, {"e": o.f["e"], "kind": o.f.get("kind")}))))


SSET_METHODS = {"add": m_sset_add, "discard": m_sset_discard, "clear": m_sset_clear, "copy": m_sset_copy}


# ---------------------------------------------------------------------------
# construction, spec functions, opaque calls, await, with, comprehensions : extension points
# ---------------------------------------------------------------------------
def construct(eng, st, cv: VClass, args, kwargs):
    h = eng.hooks.get("construct")
    if h is not None:
        r = h(eng, st, cv, args, kwargs)
        if r is not None:
            return r
    c = cv.py
    if isinstance(c, type) and issubclass(c, BaseException):
        return ok(st, eng.make_exc(st, c, args))
    if id(c) in eng.builtins:
        return eng.builtins[id(c)](eng, st, args, kwargs)
    if isinstance(c, type) and issubclass(c, enum.Enum):
        return enum_lookup(eng, st, c, args[0])
    raise Unsupported(f"construction of {getattr(c, '__name__', c)}")


def enum_lookup(eng, st, c, v):
    """EnumClass(value): member with that value, else ValueError."""
    x = as_int(v)
    codes = eng.enum_codes(c)
    values = [m.value for m in c]
    # distinct member values only (aliases resolve to the first)
    known = simp(z3.Or(*[x == val for val in values]))
    out = []
    for s2, tv in eng.fork_bool(known, st, f"{c.__name__}(v)"):
        if tv:
            out.append((s2, VEnum(c, x if codes == values else simp(_ite_chain(x, values, codes)))))
        else:
            out.append((s2, eng.raise_py(s2, ValueError, f"not a valid {c.__name__}")))
    return out


def _ite_chain(x, keys, vals):
    e = z3.IntVal(vals[-1])
    for k, v in reversed(list(zip(keys, vals))[:-1]):
        e = z3.If(x == k, z3.IntVal(v), e)
    return e


def call_opaque(eng, st, fv, args, kwargs):
    h = eng.hooks.get("call_opaque")
    if h is None:
        raise Unsupported(f"call of opaque callable {fv}")
    return h(eng, st, fv, args, kwargs)


def await_(eng, st, v):
    h = eng.hooks.get("await")
    if h is None:
        raise Unsupported("await without a concurrency model")
    return h(eng, st, v)


def exec_with(eng, n, st):
    h = eng.hooks.get("with")
    if h is None:
        raise Unsupported("with statement without a model")
    return h(eng, n, st)


def comprehension(eng, n, st, kind):
    """Comprehensions over concrete-length iterables are unrolled exactly."""
    if len(n.generators) != 1 or n.generators[0].is_async:
        raise Unsupported("nested/async comprehension")
    g = n.generators[0]
    out = []
    for s, it in eng.ev(g.iter, st):
        if isinstance(it, Raised):
            out.append((s, it))
            continue
        if not isinstance(it, (VSeq, VTuple, VRef, VBytes)):
            hk = eng.hooks.get("iter_to_seq")
            sq = hk(eng, s, it) if hk is not None else None
            if sq is not None:
                it = sq
        if isinstance(it, VSeq):
            h = eng.hooks.get("seq_comprehension")
            out.extend(h(eng, n, s, kind, it) if h is not None else seq_comprehension_map(eng, n, s, kind, it))
            continue
        items = eng.iter_concrete(it, s)
        eng.push_frame(s, s.frames[-1], None, "<comp>")
        paths = [(s, [])]
        for x in items:
            nxt = []
            for s1, acc in paths:
                if isinstance(acc, Raised):
                    nxt.append((s1, acc))
                    continue
                for s2, r in eng.assign(g.target, x, s1):
                    if isinstance(r, Raised):
                        nxt.append((s2, r))
                        continue
                    conds = [(s2, True)]
                    for cnd in g.ifs:
                        c2 = []
                        for s3, keep in conds:
                            if keep is not True:
                                c2.append((s3, keep))
                                continue
                            for s4, cv in eng.ev(cnd, s3):
                                if isinstance(cv, Raised):
                                    c2.append((s4, cv))
                                else:
                                    for s5, tv in eng.fork_bool(truth(cv, s4), s4, "comp-if"):
                                        c2.append((s5, tv))
                        conds = c2
                    for s3, keep in conds:
                        if isinstance(keep, Raised):
                            nxt.append((s3, keep))
                        elif keep is False:
                            nxt.append((s3, acc))
                        elif kind == "dict":
                            for s4, kv in eng.ev_list([n.key, n.value], s3):
                                nxt.append((s4, kv if isinstance(kv, Raised) else acc + [tuple(kv)]))
                        else:
                            for s4, ev in eng.ev(n.elt, s3):
                                nxt.append((s4, ev if isinstance(ev, Raised) else acc + [ev]))
            paths = nxt
        for s1, acc in paths:
            s1.frames.pop()
            if isinstance(acc, Raised):
                out.append((s1, acc))
            elif kind == "list":
                out.append((s1, VRef(s1.alloc(HObj("list", None, {"items": acc})))))
            elif kind == "set":
                out.append((s1, make_set(eng, s1, acc)))
            else:
                out.append((s1, make_dict(eng, s1, acc)))
    return out


def seq_comprehension_map(eng, n, st, kind, it):
    """`[elt for x in seq]` over a symbolic-length sequence, no filter: the element expression is evaluated once on an
    arbitrary element; if that evaluation has exactly one outcome, raises nothing and changes no state, the result is a list
    of the same length whose elements are left arbitrary (an over-approximation: callers learn the length only)."""
    g = n.generators[0]
    if kind != "list" or g.ifs:
        raise Unsupported("comprehension over a symbolic-length sequence (only an unfiltered list comprehension is modelled)")
    from .values import parse_ty
    probe = st.clone()
    eng.push_frame(probe, probe.frames[-1], None, "<comp>")
    x = decode_elem(eng, probe, z3.Const(fresh_name("comp_elem"), it.e.sort().basis()), it.elem)
    outs = []
    for s2, r in eng.assign(g.target, x, probe):
        if isinstance(r, Raised):
            outs.append((s2, r))
            continue
        outs.extend(eng.ev(n.elt, s2))
    if len(outs) != 1 or isinstance(outs[0][1], Raised):
        raise Unsupported("comprehension over a symbolic-length sequence whose element expression may raise or fork")
    res = z3.Const(fresh_name("comp"), z3.SeqSort(ObjS))
    st.fact(z3.Length(res) == z3.Length(it.e))
    return [(st, VRef(st.alloc(HObj("slist", None, {"e": res, "elem": parse_ty("obj[Any]")}))))]


# ---------------------------------------------------------------------------
# special forms of the contract / ghost language
# ---------------------------------------------------------------------------
def sf_old(eng, n, st):
    lbl = None
    if len(n.args) == 2:
        lbl = n.args[1].value
    if st.old is None and lbl is None:
        raise Unsupported("old() outside a postcondition")
    base = st.labels[lbl] if lbl else st.old
    scratch = base.clone()
    scratch.pc = list(st.pc)
    if scratch.old is None:
        scratch.old = base          # old(old(e)) == old(e)
    # evaluate in the old heap but with the old function frame
    r = eng.ev(n.args[0], scratch)
    if len(r) != 1 or isinstance(r[0][1], Raised):
        raise Unsupported("old(expr) must be a simple pure expression")
    v = r[0][1]
    return [(st, import_value(eng, v, scratch, st))]


def import_value(eng, v, src: State, dst: State):
    """Bring a value computed in a snapshot into the current state: heap refs become immutable value views."""
    if isinstance(v, VRef):
        o = src.heap[v.oid]
        if o.kind == "list":
            return VTuple([import_value(eng, x, src, dst) for x in o.f["items"]])
        if o.kind == "buf":
            return VBytes(o.f["e"], KIND_BYTEARRAY)
        if o.kind == "slist":
            return VSeq(o.f["e"], o.f["elem"])
        if o.kind == "cset":
            return VRef(dst.alloc(HObj("cset", None, {"items": [import_value(eng, x, src, dst) for x in o.f["items"]]})))
        if v.oid in dst.heap and dst.heap[v.oid].kind == o.kind and dst.heap[v.oid].cls is o.cls:
            return v            # identity of an object that still exists
        return VRef(dst.alloc(o.clone()))
    if isinstance(v, VTuple):
        return VTuple([import_value(eng, x, src, dst) for x in v.items])
    if isinstance(v, VUnion):
        return VUnion([(g, import_value(eng, a, src, dst)) for g, a in v.alts])
    return v


def sf_implies(eng, n, st):
    """implies(a, b): b is evaluated only under a (short-circuit, like `not a or b`)."""
    from .contracts import eval_clause
    a = eval_clause(eng, st, n.args[0])
    sc = st.clone()
    sc.assume(a)
    b = eval_clause(eng, sc, n.args[1]) if smt.feasible(sc.pc) else z3.BoolVal(True)
    for c in sc.pc:
        if c.get_id() in sc.facts and c.get_id() not in st.facts:
            st.fact(c)
    return [(st, VBool(simp(z3.Implies(a, b))))]


def sf_iff(eng, n, st):
    out = []
    for s, vals in eng.ev_list(n.args, st):
        if isinstance(vals, Raised):
            raise Unsupported("iff() operand raised")
        out.append((s, VBool(simp(truth(vals[0], s) == truth(vals[1], s)))))
    return out


def sf_unfold(eng, n, st):
    """unfold(f(args)): add the definitional instance of spec function f at these arguments."""
    call = n.args[0]
    if not (isinstance(call, ast.Call) and isinstance(call.func, ast.Name) and call.func.id in eng.spec_funcs):
        raise Unsupported("unfold() needs a spec function application")
    out = []
    for s, args in eng.ev_list(call.args, st):
        if isinstance(args, Raised):
            raise Unsupported("unfold argument raised")
        eng.contract_mod.unfold_spec(eng, s, eng.spec_funcs[call.func.id], args)
        out.append((s, VNone))
    return out


def sf_assume(eng, n, st):
    eng.assumptions_used.add("ASSUME:" + ast.unparse(n.args[0])[:80])
    out = []
    for s, v in eng.ev(n.args[0], st):
        s.assume(truth(v, s))
        out.append((s, VNone))
    return out


def ghost_assert(eng, n, st):
    """`assert e` in ghost code (lemmas, hints): prove e here (auxiliary obligation), then assume it."""
    out = []
    for s, v in eng.ev(n.test, st):
        if isinstance(v, Raised):
            raise Unsupported("assert expression raised")
        g = truth(v, s)
        eng.contract_mod.oblige(eng, s, g, "assert " + ast.unparse(n.test)[:100], kind="auxiliary")
        s.assume(g)
        out.append((s, None))
    return out


def sf_seqhints(eng, n, st):
    return [(st, VNone)]


SPECIAL_FORMS = {"old": sf_old, "implies": sf_implies, "iff": sf_iff, "unfold": sf_unfold, "assume_unchecked": sf_assume}


def call_spec(eng, st, spec, args, kwargs):
    return eng.contract_mod.apply_spec(eng, st, spec, args)

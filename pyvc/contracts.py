"""Contracts, spec functions, lemmas, loops, obligations; verification of one function against its contract."""
from __future__ import annotations

import ast
import os
import re
import time

import z3

from . import smt, source
from .obl import Obligation
from .ops import *  # noqa: F401,F403
from .state import HObj, State
from .values import *  # noqa: F401,F403


def _parse_expr(s: str):
    return ast.parse(s.strip(), mode="eval").body


def _parse_stmts(s):
    if not s:
        return []
    if isinstance(s, (list, tuple)):
        s = "\n".join(s)
    import textwrap
    return ast.parse(textwrap.dedent(s)).body


class Clause:
    """One named clause of a contract (a Python expression of the contract language)."""

    def __init__(self, name, text, kind="property", tags=None):
        self.name = name
        self.text = text
        self.node = _parse_expr(text)
        self.kind = kind
        self.tags = tags


def _clauses(x, default_kind, prefix):
    """Accept str | list[str | (name, str) | (name, str, kind)] | dict name->str."""
    if x is None:
        return []
    if isinstance(x, str):
        x = [x]
    if isinstance(x, dict):
        x = list(x.items())
    out = []
    for i, c in enumerate(x):
        if isinstance(c, Clause):
            out.append(c)
        elif isinstance(c, str):
            out.append(Clause(f"{prefix}{i + 1}", c, default_kind))
        elif len(c) == 2:
            out.append(Clause(c[0], c[1], default_kind))
        else:
            out.append(Clause(c[0], c[1], c[2]))
    return out


class Contract:
    def __init__(self, target, *, params=None, self_type=None, result=None, requires=None, ensures=None,
                 raises=None, modifies=None, loops=None, tags=(), kind="property", recursive_ok=False,
                 decreases=None, pre_hints=None, post_hints=None, entry=False, setup=None, ghost=None,
                 exc_hints=None, pure=False, havoc_self=False, cutpoints=None, assume_ensures_only=False, label=None,
                 ghost_params=None):
        self.label = label
        self.ghost_params = ghost_params or {}    # universally quantified ghost inputs: name -> type
        self.model = None
        self.target = target
        self.params = params or {}            # name -> type string (overrides annotations)
        self.self_type = self_type            # class spec name for `self`
        self.result = result                  # type string of the result (needed when applied at call sites)
        self.requires = _clauses(requires, "auxiliary", "pre")
        self.ensures = _clauses(ensures, kind, "post")
        # raises: {ExcClassName or python class: {"when": expr|None, "ensures": [...]} | expr-string | True}
        self.raises = raises or {}
        self.modifies = modifies              # None = pure / modifies nothing ; list of lvalue strings
        self.loops = loops or {}
        self.tags = list(tags)
        self.kind = kind
        self.recursive_ok = recursive_ok
        self.decreases = decreases
        self.pre_hints = _parse_stmts(pre_hints)
        self.post_hints = _parse_stmts(post_hints)
        self.exc_hints = _parse_stmts(exc_hints)
        self.entry = entry
        self.setup = setup                    # callable(engine, st) -> None : extra initial-state construction
        self.ghost = ghost or {}
        self.pure = pure
        self.cutpoints = cutpoints or {}


class SpecFunc:
    """Executable spec function: python source in /verif/specs, uninterpreted in SMT + definitional unfolding."""

    def __init__(self, name, modname, node, params, result):
        self.name = name
        self.modname = modname
        self.node = node
        self.params = params      # list[(name, Ty)]
        self.result = result      # Ty
        self.fdecl = None
        self.recursive = any(isinstance(x, ast.Call) and isinstance(x.func, ast.Name) and x.func.id == name for x in ast.walk(node))

    def decl(self, eng):
        if self.fdecl is None:
            from .builtins import elem_sort
            self.fdecl = z3.Function("spec_" + self.name, *[elem_sort(eng, t) for _, t in self.params], elem_sort(eng, self.result))
        return self.fdecl


def _ann_to_ty(node) -> Ty:
    s = ast.unparse(node)
    table = {"int": "int", "bytes": "bytes", "bool": "bool", "str": "str", "float": "real"}
    if s in table:
        return parse_ty(table[s])
    if s.startswith("'") or s.startswith('"'):
        return parse_ty(s[1:-1])
    raise Unsupported(f"spec annotation {s}")


def register_specs(eng, modname):
    """Every top-level function of a specs module becomes a spec function (signature from annotations)."""
    m = source.get_module(modname)
    for name, node in m.funcs.items():
        if "." in name or name.startswith("_"):
            continue
        params = [(a.arg, _ann_to_ty(a.annotation)) for a in node.args.args]
        eng.spec_funcs[name] = SpecFunc(name, modname, node, params, _ann_to_ty(node.returns))


def apply_spec(eng, st, spec: SpecFunc, args):
    from .builtins import encode_elem, decode_elem
    if not spec.recursive:
        return [(st, inline_spec(eng, st, spec, args))]
    f = spec.decl(eng)
    es = [encode_elem(eng, st, a, t) for a, (_, t) in zip(args, spec.params)]
    r = f(*es)
    return [(st, decode_elem(eng, st, r, spec.result))]


def inline_spec(eng, st, spec: SpecFunc, args):
    """Non-recursive spec functions are transparent: their body is evaluated in place (paths merged by ite).
    A path on which the body raises leaves the value unspecified there (fresh uninterpreted value)."""
    from .builtins import encode_elem, decode_elem, elem_sort
    try:
        ckey = (spec.name,) + tuple(encode_elem(eng, st, a, t).get_id() for a, (_, t) in zip(args, spec.params))
    except Exception:
        ckey = None
    cur_ids = None
    if ckey is not None and ckey in _INLINE_CACHE:
        cur_ids = {c.get_id() for c in st.pc}
        for pcids, val, facts, _keep in _INLINE_CACHE[ckey]:
            if pcids <= cur_ids:
                for c in facts:
                    if c.get_id() not in st.facts:
                        st.fact(c)
                return val
    scratch = st.clone()
    base_len = len(scratch.pc)
    eng.push_frame(scratch, None, spec.modname, spec.name)
    for (pname, _), a in zip(spec.params, args):
        scratch.env.f[pname] = a
    saved_nofeas = eng.nofeas
    eng.nofeas = True            # inside a transparent spec function both sides of every test are kept (no solver calls)
    try:
        res = eng.exec_block(spec.node.body, scratch)
    finally:
        eng.nofeas = saved_nofeas
    new_facts = []
    for s2, _ in res:
        for c in s2.pc[base_len:]:
            if c.get_id() in s2.facts:
                new_facts.append(c)
    for s2, _ in res:
        for c in s2.pc[base_len:]:
            if c.get_id() in s2.facts and c.get_id() not in st.facts:
                st.fact(c)
    srt = elem_sort(eng, spec.result)
    acc = z3.Const(fresh_name("unspec_" + spec.name), srt)
    for s2, o in reversed(res):
        if isinstance(o, Raised) or o is None or o[0] != "return":
            continue
        cond = [c for c in s2.pc[base_len:] if c.get_id() not in s2.facts]
        rhs = encode_elem(eng, s2, o[1], spec.result)
        acc = z3.If(z3.And(*cond), rhs, acc) if cond else rhs
    val = decode_elem(eng, st, simp(acc), spec.result)
    if ckey is not None:
        _INLINE_CACHE.setdefault(ckey, []).append(({c.get_id() for c in st.pc}, val, new_facts, (list(st.pc), args)))
    return val


_INLINE_CACHE: dict = {}


def unfold_spec(eng, st, spec: SpecFunc, args):
    """Assume  f(args) == body(args)  with inner spec calls left uninterpreted (one unfolding)."""
    from .builtins import encode_elem
    f = spec.decl(eng)
    es = [encode_elem(eng, st, a, t) for a, (_, t) in zip(args, spec.params)]
    lhs = f(*es)
    scratch = st.clone()
    scratch.pc = list(st.pc)
    base_len = len(scratch.pc)
    eng.push_frame(scratch, None, spec.modname, spec.name)
    for (pname, _), a in zip(spec.params, args):
        scratch.env.f[pname] = a
    saved = eng.current_target
    res = eng.exec_block(spec.node.body, scratch)
    axioms = []
    for s2, o in res:
        if isinstance(o, Raised):
            continue              # the spec leaves this case unspecified: no axiom
        if o is None or o[0] != "return":
            raise Unsupported(f"spec function {spec.name} fell through")
        for c in s2.pc[base_len:]:
            if c.get_id() in s2.facts and c.get_id() not in st.facts:
                st.fact(c)
        cond = [c for c in s2.pc[base_len:] if c.get_id() not in s2.facts]
        rhs = encode_elem(eng, s2, o[1], spec.result)
        axioms.append(z3.Implies(z3.And(*cond) if cond else z3.BoolVal(True), lhs == rhs))
    for a in axioms:
        st.fact(a)


# ---------------------------------------------------------------------------
# fresh symbolic values from type descriptors
# ---------------------------------------------------------------------------
def fresh(eng, st: State, ty, name: str) -> V:
    ty = parse_ty(ty)
    h = ty.head
    if h == "int":
        return VInt(z3.Int(fresh_name(name)))
    if h == "nat":
        e = z3.Int(fresh_name(name))
        st.assume(e >= 0)
        return VInt(e)
    if h == "bool":
        return VBool(z3.Bool(fresh_name(name)))
    if h == "real":
        return VReal(z3.Real(fresh_name(name)))
    if h == "str":
        return VStr(z3.String(fresh_name(name)))
    if h == "none":
        return VNone
    if h in ("bytes", "byteslike"):
        e = z3.Const(fresh_name(name), BytesS)
        # type invariant "every element is a byte" is instantiated at each index the code reads (builtins.index_)
        if h == "bytes":
            return VBytes(e, KIND_BYTES)
        k = z3.Int(fresh_name(name + "_kind"))
        st.assume(z3.And(k >= 0, k <= 2))
        return VBytes(e, k)
    if h == "opt":
        g = z3.Bool(fresh_name(name + "_isnone"))
        inner = fresh(eng, st, ty.args[0], name)
        return mk_union([(g, VNone), (z3.Not(g), inner)])
    if h == "enum":
        cls = eng.resolve_class(ty.args[0].head)
        e = z3.Int(fresh_name(name))
        st.assume(z3.Or(*[e == c for c in eng.enum_codes(cls)]))
        return VEnum(cls, e)
    if h == "tuple":
        return VTuple([fresh(eng, st, a, f"{name}_{i}") for i, a in enumerate(ty.args)])
    if h == "seq":
        from .builtins import elem_sort
        e = z3.Const(fresh_name(name), z3.SeqSort(elem_sort(eng, ty.args[0])))
        return VSeq(e, ty.args[0])
    if h == "obj":
        e = z3.Const(fresh_name(name), ObjS)
        st.fact(e != z3.Const("none-obj", ObjS))       # an object is not the boxed None
        return VObj(e, ty.args[0].head if ty.args else None)
    hk = eng.hooks.get("fresh")
    if hk is not None:
        v = hk(eng, st, ty, name)
        if v is not None:
            return v
    raise Unsupported(f"fresh value of type {ty}")


def ann_type(node) -> str | None:
    """Map a parameter annotation of the real code to a type string (A-TYPES); None if not understood."""
    if node is None:
        return None
    s = ast.unparse(node).replace(" ", "")
    simple = {"int": "int", "_int": "int", "int_": "int", "bool": "bool", "str": "str", "float": "real", "_float": "real",
              "bytes": "bytes", "_bytes": "bytes", "bytes|bytearray|memoryview": "byteslike",
              "str|None": "opt[str]", "int|None": "opt[int]", "float|None": "opt[real]", "bool|None": "opt[bool]",
              "bytes|None": "opt[bytes]", "None": "none"}
    return simple.get(s)


# ---------------------------------------------------------------------------
# obligations
# ---------------------------------------------------------------------------
class Ctx:
    """Per-target bookkeeping for obligation ids."""
    target = ""
    tags = ()
    input_syms = None   # list[(name, V)] for model printing
    both = False
    timeout_ms = None


CTX = Ctx()


def oblige(eng, st: State, goal, name: str, kind="property", tags=None, detail=""):
    """Discharge  pc => goal  now; record the result."""
    goal = simp(goal)
    extra = bit_axioms(list(st.pc) + [goal])
    t0 = time.time()
    if z3.is_true(goal):
        status, model, backend, ms, det = "discharged", None, "z3", 0.0, "trivial"
    else:
        status, model, backend, ms, det = smt.prove(list(st.pc) + extra, goal, timeout_ms=CTX.timeout_ms, both=CTX.both)
    if status == "refuted" and eng.spec_funcs and not getattr(CTX, "no_auto_unfold", False) and not os.environ.get("PYVC_NO_AUTO_UNFOLD"):
        # A counter-model may only exploit that a recursive spec function is uninterpreted where no hint unfolded it.  Before such a
        # refutation is believed, the definitions of the spec applications that occur in the query are instantiated automatically
        # (a few rounds); adding true definitional instances is sound, so `unsat` now is a proof and `sat` again a better candidate.
        try:
            pc2 = _auto_unfold(eng, st, goal, rounds=3)
            if pc2 is not None:
                st2, m2, b2, ms2, det2 = smt.prove(pc2 + bit_axioms(pc2 + [goal]), goal, timeout_ms=CTX.timeout_ms, both=False)
                ms += ms2
                if st2 == "discharged":
                    status, model, backend, det = "discharged", None, b2, "after automatic unfolding of the spec functions in the query"
                elif st2 == "refuted":
                    model = m2
                # (undecided with the extra instances: the original refutation stands)
        except Unsupported:
            pass
    if status == "unknown" and os.environ.get("PYVC_DUMP"):
        # development aid: the undecided query as SMT-LIB text
        sv = z3.Solver()
        for c_ in list(st.pc) + extra:
            sv.add(c_)
        sv.add(z3.Not(goal))
        with open(os.path.join(os.environ["PYVC_DUMP"], re.sub(r"[^A-Za-z0-9_.-]+", "_", name)[:80] + ".smt2"), "w") as f_:
            f_.write(sv.to_smt2())
    mdl = None
    witness = ""
    if status == "refuted" and model is not None:
        mdl = model_inputs(eng, model)
        witness = ";".join(f"{k}={v}" for k, v in sorted(mdl.items()))[:300]
    for tag in (tags or CTX.tags or ["-"]):
        ob = Obligation(
            id=f"{tag}/{CTX.target}/{name}", property=tag, kind=kind, status=status, backend=backend, ms=round(ms, 2),
            goal=name, function=CTX.target, path=" ".join(st.trace[-12:]), model=mdl, witness=witness, detail=(detail + " " + det).strip(),
        )
        eng.obligations.append(ob)
    return status


def _auto_unfold(eng, st, goal, rounds=3, cap=60):
    """Path condition extended with the definitional instances of the spec-function applications occurring in it and in the goal."""
    from .builtins import decode_elem
    by_decl = {}
    for sp in eng.spec_funcs.values():
        if sp.fdecl is not None:
            by_decl[sp.fdecl.name()] = sp
    if not by_decl:
        return None
    scratch = st.clone()
    scratch.pc = list(st.pc)
    done = set()
    total = 0
    for _ in range(rounds):
        apps = []
        seen = set()

        def walk(e):
            if e.get_id() in seen:
                return
            seen.add(e.get_id())
            if z3.is_app(e):
                if e.decl().name() in by_decl and e.get_id() not in done and all(not z3.is_var(a) for a in e.children()):
                    apps.append(e)
                for ch in e.children():
                    walk(ch)
            elif z3.is_quantifier(e):
                return
        for c in list(scratch.pc) + [goal]:
            walk(c)
        if not apps:
            break
        for e in apps[:cap]:
            done.add(e.get_id())
            sp = by_decl[e.decl().name()]
            args = [decode_elem(eng, scratch, e.arg(i), ty) for i, (_, ty) in enumerate(sp.params)]
            unfold_spec(eng, scratch, sp, args)
            total += 1
        if total >= cap:
            break
    return scratch.pc if total else None


def model_inputs(eng, model):
    from .smt import model_value
    out = {}
    for name, v in (CTX.input_syms or []):
        try:
            out[name] = value_in_model(eng, model, v)
        except Exception as e:  # pragma: no cover
            out[name] = f"<{e}>"
    return out


def value_in_model(eng, model, v):
    from .smt import model_value
    if isinstance(v, VNoneT):
        return None
    if isinstance(v, (VInt, VBool, VReal, VStr)):
        return model_value(model, v.e)
    if isinstance(v, VBytes):
        lst = model_value(model, v.e)
        k = model_value(model, v.kind)
        return {"bytes": lst, "kind": {0: "bytes", 1: "bytearray", 2: "memoryview"}.get(k, k)}
    if isinstance(v, VEnum):
        code = model_value(model, v.e)
        for m, c in zip(v.cls, eng.enum_codes(v.cls)):
            if c == code:
                return f"{v.cls.__name__}.{m.name}"
        return code
    if isinstance(v, VTuple):
        return [value_in_model(eng, model, x) for x in v.items]
    if isinstance(v, VUnion):
        for g, a in v.alts:
            if z3.is_true(model.eval(g, model_completion=True)):
                return value_in_model(eng, model, a)
        return "<no alternative>"
    if isinstance(v, VObj):
        return str(model.eval(v.e, model_completion=True))
    if isinstance(v, VSeq):
        return str(model.eval(v.e, model_completion=True))
    if isinstance(v, dict):
        return {k: value_in_model(eng, model, x) for k, x in v.items()}
    return repr(v)


# ---------------------------------------------------------------------------
# evaluating contract clauses
# ---------------------------------------------------------------------------
def eval_clause(eng, st: State, node, extra=None):
    """Evaluate a contract expression to a z3 Bool in the current frame (+ extra bindings).

    Evaluated on a scratch copy: clauses never change the state.  If evaluation forks (indexing, conditional
    expressions) the result is the disjunction of (fork condition & value); a fork that raises is false there.
    """
    sc = st.clone()
    eng.push_frame(sc, sc.frames[-1], None, "<contract>")
    for k, v in (extra or {}).items():
        sc.env.f[k] = v
    before = len(sc.pc)
    r = eng.ev(node, sc)
    disj = []
    for s2, v in r:
        new = s2.pc[before:]
        for c in new:
            if c.get_id() in s2.facts and c.get_id() not in st.facts:
                st.fact(c)          # always-true facts discovered while evaluating are kept
        if isinstance(v, Raised):
            continue
        disj.append(z3.And(*([c for c in new if c.get_id() not in s2.facts] + [truth(v, s2)])))
    return simp(z3.Or(*disj)) if disj else z3.BoolVal(False)


def run_hints(eng, st: State, stmts, extra=None):
    """Execute ghost statements (unfold / lemma calls / asserts); must not fork into several live paths."""
    if not stmts:
        return [st]
    eng.push_frame(st, st.frames[-1], None, "<ghost>")
    for k, v in (extra or {}).items():
        st.env.f[k] = v
    res = eng.exec_block(stmts, st)
    out = []
    for s2, o in res:
        if isinstance(o, Raised):
            raise Unsupported("ghost code raised")
        s2.frames.pop()
        out.append(s2)
    return out


# ---------------------------------------------------------------------------
# applying a contract at a call site
# ---------------------------------------------------------------------------
def havoc_lvalue(eng, st: State, text: str, frame_extra=None):
    h = eng.hooks.get("havoc")
    if h is None:
        raise Unsupported("modifies clause without a heap model")
    h(eng, st, text)


def apply_contract(eng, c: Contract, fv, args, kwargs, st: State):
    """Caller side: assert requires, havoc modifies, assume ensures; fork the declared exceptional exits."""
    eng.push_frame(st, None, fv.module, fv.qualname + "@contract")
    out = []
    for s, r in eng.bind_args(fv, args, kwargs, st):
        if isinstance(r, Raised):
            s.frames.pop()
            out.append((s, r))
            continue
        n_out0 = len(out)
        # universally quantified ghost inputs: the caller's variable of the same name if it has one, else arbitrary
        # arguments whose union has a single alternative left on this path (e.g. an Optional already tested against None)
        for pname, pv in list(s.env.f.items()):
            if isinstance(pv, VUnion):
                live = [(g_, a_) for g_, a_ in pv.alts if smt.feasible(s.pc, g_)]
                if len(live) == 1:
                    s.assume(live[0][0])
                    s.env.f[pname] = live[0][1]
        gconsts = []
        for gname, gty in c.ghost_params.items():
            gv = fresh(eng, s, gty, gname)
            s.env.f[gname] = gv
            ge = getattr(gv, "e", None) if not isinstance(gv, VFunc) else getattr(gv, "code", None)
            if ge is None or not z3.is_const(ge):
                raise Unsupported(f"ghost parameter {gname} of type {gty} cannot be generalised")
            gconsts.append(ge)
        # requires
        for cl in c.requires:
            g = eval_clause(eng, s, cl.node)
            oblige(eng, s, g, f"call:{fv.qualname}/{cl.name}", kind=cl.kind or "auxiliary", tags=cl.tags)
            s.assume(g)
        hk0 = eng.hooks.get("before_apply")
        if hk0 is not None:
            hk0(eng, c, s, fv)          # e.g. the data-structure invariant the callee's proof assumed at its entry
        if c.decreases is not None and eng.current_target == c.target:
            # recursive lemma call: measure must decrease and stay >= 0
            m_new = eval_int(eng, s, c.decreases_node())
            m_old = s.labels["__entry__"].env.f.get("__measure__")
            oblige(eng, s, z3.And(m_new >= 0, m_new < m_old.e), f"call:{fv.qualname}/decreases", kind="auxiliary")
        pre = s.clone()
        pre.old = None
        s_old, s.old = s.old, pre
        # havoc
        for lv in (c.modifies or []):
            havoc_lvalue(eng, s, lv)
        # exceptional exits
        for exc_name, spec in c.raises.items():
            cls = eng.resolve_class(exc_name) if isinstance(exc_name, str) else exc_name
            if spec is True:
                spec = {}
            if isinstance(spec, str):
                spec = {"when": spec}
            s_exc = s.clone()
            exc = eng.fresh_exception(s_exc, cls) if hasattr(eng, "fresh_exception") else eng.make_exc(s_exc, cls, [])
            if spec.get("when"):
                g = eval_clause(eng, s_exc, _parse_expr(spec["when"]), {"exc": exc})
                s_exc.assume(g)
            for e_txt in spec.get("ensures", []):
                if isinstance(e_txt, tuple):
                    if e_txt[0].startswith("own:"):
                        continue          # about the callee's own locals: an obligation there, not a fact for callers
                    e_txt = e_txt[1]
                g = eval_clause(eng, s_exc, _parse_expr(e_txt), {"exc": exc})
                used = [q for q in gconsts if _mentions(g, q)]
                s_exc.assume(z3.ForAll(used, g) if used else g)
            if smt.feasible(s_exc.pc):
                s_exc.frames.pop()
                s_exc.old = s_old
                hk = eng.hooks.get("after_apply")
                if hk is not None:
                    hk(eng, c, s_exc)
                s_exc.note(f"{fv.qualname}!{getattr(cls, '__name__', cls)}")
                out.append((s_exc, Raised(exc)))
        # normal exit
        if c.result is None:
            result = VNone
        else:
            result = fresh(eng, s, c.result, fv.qualname.split(".")[-1] + "_res")
        for cl in c.ensures:
            if getattr(cl, "own_only", False):
                continue
            g = eval_clause(eng, s, cl.node, {"result": result})
            used = [q for q in gconsts if _mentions(g, q)]
            # a clause about a universally quantified ghost input holds for every value of it
            s.assume(z3.ForAll(used, g) if used else g)
        for s3 in run_hints(eng, s, c.post_hints, {"result": result}) if False else [s]:
            s3.frames.pop()
            s3.old = s_old
            if c.raises.get("__never_returns__"):
                continue
            if smt.feasible(s3.pc):
                hk = eng.hooks.get("after_apply")
                if hk is not None:
                    hk(eng, c, s3)
                out.append((s3, result))
        if len(out) == n_out0 and not c.raises.get("__never_returns__") and smt.feasible(pre.pc, full=True):
            # vacuity guard: the callee's contract, assumed at this call site, contradicts the caller's state on every exit -
            # everything after the call would be proved vacuously.  (A contract error, or a callee that cannot return here.)
            eng.obligations.append(Obligation(
                id=f"{CTX.tags[0] if CTX.tags else '-'}/{CTX.target}/call:{fv.qualname}/vacuity", property=CTX.tags[0] if CTX.tags else "-",
                kind="auxiliary", status="refuted", backend="z3", goal="the callee's contract is satisfiable at this call site",
                function=CTX.target, path=" ".join(pre.trace[-12:]), detail="every exit of the assumed contract is infeasible in the caller's state"))
    return out


def _mentions(e, c):
    seen = set()

    def walk(x):
        if x.get_id() in seen:
            return False
        seen.add(x.get_id())
        if x.eq(c):
            return True
        return any(walk(ch) for ch in x.children())
    return walk(e)


def eval_int(eng, st, node):
    sc = st.clone()
    eng.push_frame(sc, sc.frames[-1], None, "<measure>")
    r = eng.ev(node, sc)
    if len(r) != 1 or isinstance(r[0][1], Raised):
        raise Unsupported("measure expression must be simple")
    return as_int(r[0][1])


Contract.decreases_node = lambda self: _parse_expr(self.decreases)


# ---------------------------------------------------------------------------
# loops
# ---------------------------------------------------------------------------
def loop_key(eng, st: State, n):
    """loop#k : ordinal of this loop among the loops of the enclosing function (source order)."""
    fn = st.env.f.get("__fnode__")
    if fn is None:
        oid = st.frames[-1]
        while oid is not None and fn is None:
            fn = st.heap[oid].f.get("__fnode__")
            oid = st.heap[oid].f.get("__parent__")
    if fn is None:
        return None
    loops = [x for x in ast.walk(fn) if isinstance(x, (ast.While, ast.For, ast.AsyncFor))]
    loops.sort(key=lambda x: (x.lineno, x.col_offset))
    if n not in loops:
        return None
    key = f"loop#{loops.index(n) + 1}"
    # a loop of an inlined callee is not "loop#k" of the function under contract: its key carries the callee's name, so that the
    # contract's loop specifications (written for its own function) are never applied to somebody else's loop
    c = eng.active_contract
    fname = getattr(fn, "name", None)
    own = c.target.split(".")[-1] if c is not None else None
    if c is not None and fname is not None and own is not None and fname != own:
        return f"{fname}.{key}"
    return key


def assigned_names(body):
    names = set()
    for stmt in body:
        for x in ast.walk(stmt):
            if isinstance(x, ast.Name) and isinstance(x.ctx, (ast.Store, ast.Del)):
                names.add(x.id)
            elif isinstance(x, ast.Call) and isinstance(x.func, ast.Attribute) and isinstance(x.func.value, ast.Name):
                names.add(x.func.value.id)       # receiver of a method call may be mutated in place
            elif isinstance(x, (ast.Subscript, ast.Attribute)) and isinstance(x.ctx, (ast.Store, ast.Del)) and isinstance(x.value, ast.Name):
                names.add(x.value.id)
            elif isinstance(x, (ast.FunctionDef, ast.AsyncFunctionDef)):
                names.add(x.name)
    return names


def exec_loop(eng, n, st: State):
    key = loop_key(eng, st, n)
    c = eng.active_contract
    spec = c.loops.get(key) if (c is not None and key) else None
    if spec is None and c is not None and "*" in c.loops and key:
        # a contract may give one invariant scheme for "every loop over a symbolic sequence" (written with `iterated_seq` and
        # old(x, 'loop-entry')), so that it does not depend on how many loops the function has or in which order: loops whose
        # iterable is concrete are still unrolled exactly
        saved, eng.bounded_unroll = eng.bounded_unroll, 0
        try:
            return exec_loop_unrolled(eng, n, st.clone())
        except Unsupported as e:
            if "needs an invariant" not in str(e) and "symbolic-length" not in str(e):
                raise
        finally:
            eng.bounded_unroll = saved
        return exec_loop_invariant(eng, n, st, key, c.loops["*"])
    if spec is None:
        return exec_loop_unrolled(eng, n, st)
    return exec_loop_invariant(eng, n, st, key, spec)


def exec_loop_unrolled(eng, n, st: State):
    """Exact unrolling: `for` over a concrete-length iterable, `while` with a concretely decidable guard."""
    out = []
    if isinstance(n, (ast.For, ast.AsyncFor)):
        for s, it in eng.ev(n.iter, st):
            if isinstance(it, Raised):
                out.append((s, it))
                continue
            for s1, it1 in eng.split_union(it, s):
                try:
                    items = eng.iter_concrete(it1, s1)
                except Unsupported:
                    h = eng.hooks.get("for_symbolic")
                    if h is not None:
                        r = h(eng, n, s1, it1)
                        if r is not None:
                            out.extend(r)
                            continue
                    sq = None
                    if isinstance(it1, VSeq):
                        sq = it1
                    elif isinstance(it1, VRef) and s1.heap[it1.oid].kind == "slist":
                        sq = VSeq(s1.heap[it1.oid].f["e"], s1.heap[it1.oid].f["elem"])
                    else:
                        hk = eng.hooks.get("iter_to_seq")
                        sq = hk(eng, s1, it1) if hk is not None else None
                    if sq is None or not eng.bounded_unroll:
                        raise Unsupported(f"loop over a symbolic iterable needs an invariant (function {st.env.f.get('__fname__')})")
                    # BOUNDED stand-in: no invariant is known for this loop, so it is executed exactly for every length up to
                    # the bound; longer inputs are not explored and the run is reported as bounded, never as proved
                    from .builtins import decode_elem
                    K = eng.bounded_unroll
                    eng.bounded_used.append(f"loop in {st.env.f.get('__fname__')}: symbolic sequence unrolled for lengths 0..{K} only")
                    for ln in range(K + 1):
                        s_len = s1.clone()
                        s_len.assume(z3.Length(sq.e) == ln)
                        if not smt.feasible(s_len.pc):
                            continue
                        s_len.note(f"bounded-len={ln}")
                        vals = [decode_elem(eng, s_len, sq.e[i], sq.elem) for i in range(ln)]
                        out.extend(_run_for_items(eng, n, s_len, vals))
                    continue
                if isinstance(it1, VRef) and s1.heap[it1.oid].kind in ("list", "dict", "cset"):
                    out.extend(_run_for_live(eng, n, s1, it1))
                else:
                    out.extend(_run_for_items(eng, n, s1, items))
        return out
    # while: unroll while the guard is concretely decidable or path-feasible, up to a limit
    paths = [(st, None)]
    for _ in range(64):
        nxt = []
        progressed = False
        for s, o in paths:
            if o is not None:
                out.append((s, None if (not isinstance(o, Raised) and o[0] == "break") else o))
                continue
            for s1, c in eng.ev(n.test, s):
                if isinstance(c, Raised):
                    out.append((s1, c))
                    continue
                for s2, tv in eng.fork_bool(truth(c, s1), s1, "while"):
                    if not tv:
                        out.append((s2, None))
                        continue
                    progressed = True
                    for s3, o3 in eng.exec_block(n.body, s2):
                        if o3 is not None and not isinstance(o3, Raised) and o3[0] == "continue":
                            o3 = None
                        nxt.append((s3, o3))
        paths = nxt
        if not paths:
            return out
    raise Unsupported("while loop needs an invariant (unrolling did not terminate)")


def _run_for_items(eng, n, s1, items):
    out = []
    paths = [(s1, None)]
    for x in items:
        nxt = []
        for s2, o in paths:
            if o is not None:
                nxt.append((s2, o))
                continue
            for s3, r in eng.assign(n.target, x, s2):
                if isinstance(r, Raised):
                    nxt.append((s3, r))
                    continue
                for s4, o4 in eng.exec_block(n.body, s3):
                    if o4 is not None and not isinstance(o4, Raised) and o4[0] == "continue":
                        o4 = None
                    nxt.append((s4, o4))
        paths = nxt
    for s2, o in paths:
        if o is not None and not isinstance(o, Raised) and o[0] == "break":
            out.append((s2, None))
        elif o is None and n.orelse:
            out.extend(eng.exec_block(n.orelse, s2))
        else:
            out.append((s2, o))
    return out


def _run_for_live(eng, n, s1, ref):
    """Python's iteration over a *live* container: a list iterator re-reads the list by index on every step (so a
    body that removes elements skips some, one that appends sees the new ones); dict and set iterators raise
    RuntimeError on the step after the size changed."""
    out = []
    kind = s1.heap[ref.oid].kind
    snap = None if kind == "list" else eng.iter_concrete(ref, s1)
    work = [(s1, None, 0)]
    steps = 0
    while work:
        s2, o, i = work.pop()
        steps += 1
        if steps > 4096:
            raise Unsupported("for loop over a live container did not terminate within 4096 steps")
        if o is not None:
            if not isinstance(o, Raised) and o[0] == "break":
                out.append((s2, None))
            else:
                out.append((s2, o))
            continue
        cur = eng.iter_concrete(ref, s2)
        if kind != "list" and len(cur) != len(snap):
            out.append((s2, eng.raise_py(s2, RuntimeError, f"{'dictionary' if kind == 'dict' else 'Set'} changed size during iteration")))
            continue
        seq = cur if kind == "list" else snap
        if i >= len(seq):
            if n.orelse:
                out.extend(eng.exec_block(n.orelse, s2))
            else:
                out.append((s2, None))
            continue
        for s3, r in eng.assign(n.target, seq[i], s2):
            if isinstance(r, Raised):
                out.append((s3, r))
                continue
            for s4, o4 in eng.exec_block(n.body, s3):
                if o4 is not None and not isinstance(o4, Raised) and o4[0] == "continue":
                    o4 = None
                work.append((s4, o4, i + 1))
    return out


def exec_loop_invariant(eng, n, st: State, key, spec):
    """Hoare rule: assert inv on entry; havoc; assume inv & guard; body; assert inv & variant decreases.

    spec keys: invariant (str | list), decreases (str), modifies (list of lvalues, heap), index (name of ghost
    index variable for `for x in seq` loops), head_hints, body_hints, exit_hints.
    """
    out = []
    invs = _clauses(spec.get("invariant"), "auxiliary", "inv")
    is_for = isinstance(n, (ast.For, ast.AsyncFor))
    idx = spec.get("index", "_i")
    seqv = None
    live_checks = {}
    start_paths = [(st, None)]
    if is_for:
        start_paths = []
        for s, it in eng.ev(n.iter, st):
            if isinstance(it, Raised):
                out.append((s, it))
                continue
            live = None
            if not isinstance(it, VSeq):
                lk = eng.hooks.get("live_iter")
                live = lk(eng, s, it) if lk is not None else None
                hk = eng.hooks.get("iter_to_seq")
                it = hk(eng, s, it) if hk is not None else None
            if not isinstance(it, VSeq):
                raise Unsupported("invariant-based for loop needs a symbolic sequence iterable")
            live_checks[id(it)] = live
            s.env.f[idx] = VInt(0)
            s.env.f["__seq_" + idx] = it
            s.env.f["iterated_seq"] = it          # ghost name for invariants: the sequence this loop walks (no local's name needed)
            start_paths.append((s, it))
    for s, it in start_paths:
        seqv = it
        # 1. invariant holds on entry
        entry_states = run_hints(eng, s, _parse_stmts(spec.get("entry_hints")))
        if len(entry_states) != 1:
            raise Unsupported("entry_hints must not fork")
        s = entry_states[0]
        s.labels = dict(s.labels)
        s.labels[key] = s.clone()
        s.labels["loop-entry"] = s.labels[key]
        for cl in invs:
            g = eval_clause(eng, s, cl.node)
            oblige(eng, s, g, f"{key}/{cl.name}/entry", kind="auxiliary")
        # 2. havoc everything the loop may assign
        mods = assigned_names(n.body) | ({idx} if is_for else set())
        if is_for:
            mods |= assigned_names([ast.Assign(targets=[n.target], value=ast.Constant(value=0))])
        stored = {x.id for stmt in n.body for x in ast.walk(stmt) if isinstance(x, ast.Name) and isinstance(x.ctx, (ast.Store, ast.Del))}
        for name in sorted(mods):
            if name in s.env.f or name in spec.get("types", {}):
                ty = spec.get("types", {}).get(name)
                old = s.env.f.get(name)
                if name not in stored and name != idx and not is_mutable_ref(s, old):
                    continue          # only read / method-called on an immutable value
                if name not in stored and isinstance(old, VRef) and s.heap[old.oid].kind in ("inst", "msg"):
                    continue          # instance fields are havocked through the loop's `modifies`
                s.env.f[name] = havoc_like(eng, s, old, name, ty)
            # variables first bound inside the loop are simply unbound at the head
        for lv in spec.get("modifies", []):
            havoc_lvalue(eng, s, lv)
        for cl in invs:
            s.assume(eval_clause(eng, s, cl.node))
        if is_for:
            s.assume(z3.And(as_int(s.env.f[idx]) >= 0, as_int(s.env.f[idx]) <= z3.Length(seqv.e)))
        head_list = run_hints(eng, s, _parse_stmts(spec.get("head_hints")))
        for head in head_list:
            # 3. guard
            if is_for:
                i_e = as_int(head.env.f[idx])
                guard_paths = [(hs, tv) for hs, tv in eng.fork_bool(i_e < z3.Length(seqv.e), head, key)]
            else:
                guard_paths = []
                for s1, cv in eng.ev(n.test, head):
                    if isinstance(cv, Raised):
                        out.append((s1, cv))
                        continue
                    guard_paths.extend(eng.fork_bool(truth(cv, s1), s1, key))
            for s2, tv in guard_paths:
                if not tv:
                    for s3 in run_hints(eng, s2, _parse_stmts(spec.get("exit_hints"))):
                        if n.orelse:
                            out.extend(eng.exec_block(n.orelse, s3))
                        else:
                            out.append((s3, None))
                    continue
                measure0 = eval_int(eng, s2, _parse_expr(spec["decreases"])) if spec.get("decreases") else None
                if is_for:
                    from .builtins import decode_elem
                    i_e = as_int(s2.env.f[idx])
                    elem = decode_elem(eng, s2, seqv.e[i_e], seqv.elem)
                    pre = eng.assign(n.target, elem, s2)
                else:
                    pre = [(s2, None)]
                body_res = []
                for s3, r in pre:
                    if isinstance(r, Raised):
                        out.append((s3, r))
                        continue
                    s3.labels = dict(s3.labels)
                    s3.labels[key + "/head"] = s3.clone()
                    for s4 in run_hints(eng, s3, _parse_stmts(spec.get("body_hints"))):
                        body_res.extend(eng.exec_block(n.body, s4))
                for s4, o4 in body_res:
                    if isinstance(o4, Raised) or (o4 is not None and o4[0] == "return"):
                        out.append((s4, o4))
                        continue
                    if o4 is not None and o4[0] == "break":
                        for s5 in run_hints(eng, s4, _parse_stmts(spec.get("break_hints"))):
                            out.append((s5, None))
                        continue
                    # fell through or continue: back edge
                    if is_for:
                        s4.env.f[idx] = VInt(simp(as_int(s4.env.f[idx]) + 1))
                        lv = live_checks.get(id(seqv))
                        if lv is not None:
                            # the loop is modelled as a walk over the contents at entry; Python instead raises
                            # RuntimeError (or skips / repeats members) when the live container changed meanwhile
                            oblige(eng, s4, lv(s4), f"{key}/iterated-container-unchanged", kind="property")
                    for s5 in run_hints(eng, s4, _parse_stmts(spec.get("end_hints"))):
                        for cl in invs:
                            g = eval_clause(eng, s5, cl.node)
                            oblige(eng, s5, g, f"{key}/{cl.name}/preserved", kind="auxiliary")
                        if measure0 is not None:
                            m1 = eval_int(eng, s5, _parse_expr(spec["decreases"]))
                            oblige(eng, s5, z3.And(measure0 >= 0, m1 < measure0), f"{key}/decreases", kind="auxiliary")
                    # path ends here (cut)
    return out


def is_mutable_ref(st, v):
    # (symbolic lists / sets are mutable objects too: a loop that extends one must have it havocked at the loop head)
    return isinstance(v, VRef) and st.heap[v.oid].kind in ("buf", "list", "dict", "cset", "inst", "msg", "slist", "sset", "imap")


def havoc_like(eng, st, old: V, name, ty=None):
    if ty is not None:
        nv = fresh(eng, st, ty, name)
        if isinstance(old, VRef) and isinstance(nv, VRef) and st.heap[old.oid].kind == "list" and st.heap[nv.oid].kind == "slist":
            # keep the identity of the list object: it becomes a symbolic-length list in place
            st.heap[old.oid] = st.heap.pop(nv.oid)
            from .heapmodel import joinb_f
            if st.heap[old.oid].f["elem"].head == "bytes":
                st.assume(joinb_f(z3.Empty(st.heap[old.oid].f["e"].sort())) == z3.Empty(BytesS))
            return old
        return nv
    if isinstance(old, VInt):
        return VInt(z3.Int(fresh_name(name)))
    if isinstance(old, VBool):
        return VBool(z3.Bool(fresh_name(name)))
    if isinstance(old, VReal):
        return VReal(z3.Real(fresh_name(name)))
    if isinstance(old, VStr):
        return VStr(z3.String(fresh_name(name)))
    if isinstance(old, VBytes):
        return fresh(eng, st, "bytes", name) if z3.is_int_value(simp(old.kind)) and simp(old.kind).as_long() == 0 else fresh(eng, st, "byteslike", name)
    if isinstance(old, VRef):
        o = st.heap[old.oid]
        if o.kind == "buf":
            # mutable buffer: havoc its content in place
            nb = fresh(eng, st, "bytes", name)
            o.f["e"] = nb.e
            return old
        if o.kind == "slist":
            o.f["e"] = z3.Const(fresh_name(name), o.f["e"].sort())
            return old
    if isinstance(old, VSeq):
        return VSeq(z3.Const(fresh_name(name), old.e.sort()), old.elem, old.is_tuple)
    if isinstance(old, VEnum):
        return fresh(eng, st, Ty("enum", [Ty(old.cls.__module__ + "." + old.cls.__qualname__)]), name)
    raise Unsupported(f"cannot havoc loop variable {name} (value {old}); give its type in loops[...]['types']")


# ---------------------------------------------------------------------------
# verifying one function against its contract
# ---------------------------------------------------------------------------
def param_types(eng, c: Contract, node, is_method):
    out = []
    a = node.args
    allp = a.posonlyargs + a.args + a.kwonlyargs
    for i, p in enumerate(allp):
        if i == 0 and is_method and p.arg in ("self", "cls"):
            continue
        ty = c.params.get(p.arg) or ann_type(p.annotation)
        if ty is None:
            raise Unsupported(f"no type for parameter {p.arg} of {c.target}")
        out.append((p.arg, ty))
    return out


def verify(eng, c: Contract, tags=None, timeout_ms=None, both=False):
    """Generate and discharge every obligation of contract c against the real source. Returns stats dict."""
    got = source.get_func(c.target)
    if got is None:
        raise Unsupported(f"contract target {c.target} not found in the source tree")
    msrc, node, qn = got
    CTX.target = c.target.replace("aioesphomeapi.", "") + (f"[{c.label}]" if c.label else "")
    CTX.tags = list(tags or c.tags)
    CTX.timeout_ms = timeout_ms
    CTX.both = both
    eng.current_target = c.target
    eng.active_contract = c
    n_before = len(eng.obligations)
    st = State()
    st.ghost_oid = st.alloc(HObj("cell", None, {}))
    eng.push_frame(st, None, msrc.modname, qn)
    st.env.f["__fnode__"] = node
    is_method = "." in qn and "<locals>" not in qn
    inputs = []
    hk = eng.hooks.get("init_ghost")
    if hk is not None:
        hk(eng, st, c)
    if is_method and node.args.args and node.args.args[0].arg == "self":
        if c.self_type is None:
            raise Unsupported(f"method contract {c.target} needs self_type")
        selfv = fresh(eng, st, c.self_type, "self")
        st.env.f["self"] = selfv
        inputs.append(("self", selfv))
    elif is_method and node.args.args and node.args.args[0].arg == "cls":
        st.env.f["cls"] = VClass(eng.resolve_class(c.self_type))
    for pname, ty in param_types(eng, c, node, is_method):
        v = fresh(eng, st, ty, pname)
        st.env.f[pname] = v
        inputs.append((pname, v))
    for gname, gty in c.ghost_params.items():
        v = fresh(eng, st, gty, gname)
        st.env.f[gname] = v
        inputs.append((gname, v))
    if c.setup is not None:
        c.setup(eng, st)
    hk = eng.hooks.get("describe_inputs")
    CTX.input_syms = hk(eng, st, inputs) if hk is not None else inputs
    # preconditions
    for cl in c.requires:
        st.assume(eval_clause(eng, st, cl.node))
    vac_ok = smt.feasible(st.pc, full=True)
    if not vac_ok:
        eng.obligations.append(Obligation(id=f"{CTX.tags[0] if CTX.tags else '-'}/{CTX.target}/vacuity", property=CTX.tags[0] if CTX.tags else "-",
                                          kind="auxiliary", status="refuted", backend="z3", goal="requires is satisfiable",
                                          function=CTX.target, detail="contradictory precondition"))
        return {"paths": 0}
    if c.decreases is not None:
        st.env.f["__measure__"] = VInt(eval_int(eng, st, c.decreases_node()))
    st.old = st.clone()
    st.labels["__entry__"] = st.old
    starts = run_hints(eng, st, c.pre_hints)
    terminals = []
    for s0 in starts:
        terminals.extend(eng.exec_block(node.body, s0))
    n_ret = n_exc = 0
    if not terminals and not getattr(c, "never_returns", False) and "__never_returns__" not in c.raises:
        # vacuity guard: a body none of whose paths reaches an exit generated no exit obligation at all
        eng.obligations.append(Obligation(id=f"{CTX.tags[0] if CTX.tags else '-'}/{CTX.target}/vacuity-exit", property=CTX.tags[0] if CTX.tags else "-",
                                          kind="auxiliary", status="refuted", backend="z3", goal="some path reaches an exit of the function",
                                          function=CTX.target, detail="no feasible path reaches a return or a raise (cut-point rule swallowed every path, or contradictory hints)"))
    for s, o in terminals:
        if isinstance(o, Raised):
            n_exc += 1
            check_exceptional_exit(eng, c, s, o)
            continue
        n_ret += 1
        result = VNone if o is None else o[1]
        if o is not None and o[0] != "return":
            raise Unsupported("break/continue escaped")
        for s2 in run_hints(eng, s, c.post_hints, {"result": result}):
            for cl in c.ensures:
                g = eval_clause(eng, s2, cl.node, {"result": result})
                oblige(eng, s2, g, cl.name, kind=cl.kind, tags=cl.tags)
            hk = eng.hooks.get("exit_checks")
            if hk is not None:
                hk(eng, c, s2, result, None)
    eng.current_target = None
    eng.active_contract = None
    return {"paths": len(terminals), "returns": n_ret, "raises": n_exc, "obligations": len(eng.obligations) - n_before}


def check_exceptional_exit(eng, c: Contract, s: State, o: Raised):
    """The raised exception must be covered by a `raises` entry whose `when` holds; its ensures are obligations."""
    matched_any = []
    for exc_name, spec in c.raises.items():
        if exc_name == "__never_returns__":
            continue
        cls = eng.resolve_class(exc_name) if isinstance(exc_name, str) else exc_name
        if spec is True:
            spec = {}
        if isinstance(spec, str):
            spec = {"when": spec}
        isinst = eng.exc_isinstance(o.exc, cls, s)
        matched_any.append(isinst)
        if not smt.feasible(s.pc, isinst):
            continue
        s2 = s.clone()
        s2.assume(isinst)
        nm = getattr(cls, "__name__", str(cls))
        for s3 in run_hints(eng, s2, c.exc_hints, {"exc": o.exc}):
            if spec.get("when"):
                g = eval_clause(eng, s3, _parse_expr(spec["when"]), {"exc": o.exc})
                oblige(eng, s3, g, f"raises:{nm}/when", kind=spec.get("kind", c.kind), tags=spec.get("tags"))
            for i, e_txt in enumerate(spec.get("ensures", [])):
                name = e_txt[0] if isinstance(e_txt, tuple) else f"post{i + 1}"
                txt = e_txt[1] if isinstance(e_txt, tuple) else e_txt
                g = eval_clause(eng, s3, _parse_expr(txt), {"exc": o.exc})
                oblige(eng, s3, g, f"raises:{nm}/{name}", kind=spec.get("kind", c.kind))
            hk = eng.hooks.get("exit_checks")
            if hk is not None:
                hk(eng, c, s3, None, o.exc)
    covered = simp(z3.Or(*matched_any)) if matched_any else z3.BoolVal(False)
    what = describe_exc(eng, s, o.exc)
    oblige(eng, s, covered, f"no-unlisted-exception[{what}]", kind=c.kind, detail=f"escaping exception: {what}")


def describe_exc(eng, st, exc):
    if isinstance(exc, VRef):
        o = st.heap[exc.oid]
        return getattr(o.cls, "__name__", str(o.cls))
    if isinstance(exc, VClass):
        return exc.py.__name__
    return "symbolic-exception"

"""pyvc - verification-condition generator for the real aioesphomeapi sources."""

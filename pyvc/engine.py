"""Symbolic executor for the Python subset used by the functions under contract.

exec/eval return lists of (State, outcome): every element is one path.  Expression
outcomes are a value `V` or `Raised`; statement outcomes are None (fell through),
('return', V), ('break',), ('continue',) or `Raised`.
An AST node or library call without a transfer function raises `Unsupported`.
"""
from __future__ import annotations

import ast
import enum
import types

import z3

from . import smt, source
from .ops import *  # noqa: F401,F403
from .state import HObj, State
from .values import *  # noqa: F401,F403

MAX_PATHS = 4000


class ModelClass:
    """A class written in /verif/models (python source executed symbolically); region=True: fields live in arrays."""

    def __init__(self, name, modsrc, node, region=False, fields=None, bases=()):
        self.__name__ = name
        self.name = name
        self.modsrc = modsrc
        self.node = node
        self.region = region
        self.fields = fields or {}      # field -> type string (region classes)
        self.bases = bases


class Engine:
    def __init__(self):
        self.contracts = {}             # qualified name -> Contract
        self.inline = set()             # qualified names that may be inlined without a contract
        self.class_specs = {}           # python class -> ClassSpec
        self.builtins = {}              # id(pyobj) -> impl
        self.spec_funcs = {}            # name -> SpecFunc
        self.obligations = []           # collected Obligation records (via self.oblige)
        self.current_target = None      # qualified name being verified (its own contract is not applied... unless recursive lemma)
        self.tags = []
        self.assumptions_used = set()
        self.paths = 0
        self.model_classes = {}
        self.hooks = {}                 # name -> callable(engine, st, ...) extension points (cut points, call-outs)
        self.active_contract = None
        self.nofeas = False
        self.class_aliases = {}
        self.ghost_types = {}
        self.auto_inline = True
        self.bounded_unroll = 3         # loops over symbolic sequences without an invariant: exact for lengths <= this, flagged bounded
        self.bounded_used = []
        self.func_kinds = {}            # VFunc.kind -> impl(engine, st, fv, args, kwargs) for sidecar-defined callables
        from . import heapmodel as _h
        _h.install(self)
        from . import builtins as _b
        _b.install(self)

    # ------------------------------------------------------------------ lifting live python objects
    def lift(self, obj, st: State) -> V:
        if obj is None:
            return VNone
        if isinstance(obj, bool):
            return VBool(obj)
        if isinstance(obj, enum.Enum):
            return VEnum(type(obj), self.enum_code(obj))
        if isinstance(obj, int):
            return VInt(obj)
        if isinstance(obj, float):
            return VReal(obj)
        if isinstance(obj, str):
            return VStr(obj)
        if isinstance(obj, bytes):
            return VBytes(obj)
        if isinstance(obj, tuple):
            return VTuple([self.lift(x, st) for x in obj])
        if isinstance(obj, type) or isinstance(obj, ModelClass):
            return VClass(obj)
        if isinstance(obj, types.ModuleType):
            return VModule(obj)
        if id(obj) in self.builtins:
            return VFunc("builtin", name=getattr(obj, "__name__", str(obj)), impl=self.builtins[id(obj)])
        if isinstance(obj, (types.FunctionType,)) or hasattr(obj, "__wrapped__"):
            fn = getattr(obj, "__wrapped__", obj)        # lru_cache wrapper -> wrapped function (A-CACHE)
            if hasattr(obj, "__wrapped__"):
                self.assumptions_used.add("A-CACHE")
            if id(fn) in self.builtins:
                return VFunc("builtin", name=fn.__name__, impl=self.builtins[id(fn)])
            key = source.func_source_key(fn)
            if key is not None:
                got = source.get_func(key)
                if got is not None:
                    m, node, qn = got
                    return VFunc("py", node=node, module=m.modname, qualname=qn, closure=None)
            raise Unsupported(f"function {obj!r} has no source in scope and no library model")
        if isinstance(obj, types.MethodType):
            f = self.lift(obj.__func__, st)
            return VFunc("bound", func=f, selfv=self.lift(obj.__self__, st))
        lifter = self.hooks.get("lift")
        if lifter is not None:
            v = lifter(self, obj, st)
            if v is not None:
                return v
        raise Unsupported(f"cannot lift live object {type(obj).__name__}: {obj!r:.80}")

    def enum_code(self, member):
        if isinstance(member.value, int) and not isinstance(member.value, bool):
            return member.value
        return list(type(member)).index(member)

    def enum_codes(self, cls):
        return [self.enum_code(m) for m in cls]

    def resolve_class(self, name):
        """Class named in a sidecar: dotted path, alias, builtin, or a class of the package's core modules."""
        if not isinstance(name, str):
            return name
        if name in self.class_aliases:
            return self.class_aliases[name]
        if name in self.model_classes:
            return self.model_classes[name]
        import builtins as pyb, asyncio, importlib
        if "." in name:
            mod, _, cn = name.rpartition(".")
            try:
                return getattr(source.import_live(mod) if mod.startswith("aioesphomeapi") else importlib.import_module(mod), cn)
            except (ImportError, AttributeError):
                pass
        if hasattr(pyb, name):
            return getattr(pyb, name)
        for modname in ("aioesphomeapi.core", "aioesphomeapi.connection", "aioesphomeapi.model", "aioesphomeapi.api_pb2",
                        "aioesphomeapi.client", "aioesphomeapi.reconnect_logic", "aioesphomeapi._frame_helper.noise", "asyncio"):
            m = source.import_live(modname) if modname.startswith("aioesphomeapi") else importlib.import_module(modname)
            if hasattr(m, name):
                return getattr(m, name)
        raise Unsupported(f"unknown class {name}")

    # ------------------------------------------------------------------ frames and names
    def push_frame(self, st: State, parent=None, module=None, fname=""):
        oid = st.alloc(HObj("env", None, {"__parent__": parent, "__module__": module, "__fname__": fname}))
        st.frames.append(oid)
        return oid

    def pop_frame(self, st: State):
        st.frames.pop()

    def lookup(self, name: str, st: State):
        oid = st.frames[-1]
        module = None
        while oid is not None:
            env = st.heap[oid]
            if name in env.f:
                return env.f[name]
            module = module or env.f.get("__module__")
            oid = env.f.get("__parent__")
        return self.lookup_global(name, module, st)

    def lookup_global(self, name, module, st):
        if name == "ghost":
            return VGhostNS()
        nd = self.hooks.get("names_dynamic")
        if nd is not None:
            v = nd(name, st)
            if v is not None:
                return v
        if name in self.spec_funcs:
            return VFunc("spec", name=name, spec=self.spec_funcs[name])
        extra = self.hooks.get("names", {})
        if name in extra:
            return extra[name]
        if module is not None:
            mc = self.model_classes.get(name)
            if mc is not None and mc.modsrc.modname == module:
                return VClass(mc)
            live = source.import_live(module) if not module.startswith("models") else None
            if live is not None and hasattr(live, name):
                return self.lift(getattr(live, name), st)
            msrc = source.get_module(module)
            if msrc is not None and name in msrc.funcs:
                return VFunc("py", node=msrc.funcs[name], module=module, qualname=name, closure=None)
        if name in self.model_classes:
            return VClass(self.model_classes[name])
        import builtins as pyb
        if hasattr(pyb, name):
            return self.lift(getattr(pyb, name), st)
        raise Unsupported(f"unbound name {name!r} (module {module})")

    def assign_name(self, name: str, v: V, st: State):
        # nonlocal cells
        env = st.env
        nl = env.f.get("__nonlocal__")
        if nl and name in nl:
            oid = env.f.get("__parent__")
            while oid is not None:
                e = st.heap[oid]
                if name in e.f:
                    e.f[name] = v
                    return
                oid = e.f.get("__parent__")
        env.f[name] = v

    # ------------------------------------------------------------------ path management
    def fork_bool(self, cond, st: State, label=""):
        """cond: z3 Bool. Returns [(state, True/False)] for the feasible sides."""
        cond = simp(cond)
        if z3.is_true(cond):
            return [(st, True)]
        if z3.is_false(cond):
            return [(st, False)]
        out = []
        if self.nofeas:
            t_ok = f_ok = True
        else:
            t_ok = smt.feasible(st.pc, cond)
            f_ok = smt.feasible(st.pc, z3.Not(cond))
        if t_ok and f_ok:
            s2 = st.clone()
            st.assume(cond)
            st.note(f"{label}:T")
            s2.assume(z3.Not(cond))
            s2.note(f"{label}:F")
            self.paths += 1
            if self.paths > MAX_PATHS:
                raise Unsupported("path explosion")
            return [(st, True), (s2, False)]
        if t_ok:
            st.assume(cond)
            return [(st, True)]
        if f_ok:
            st.assume(z3.Not(cond))
            return [(st, False)]
        return []          # infeasible path

    def split_union(self, v: V, st: State):
        """[(state, non-union value)] forking on the guards of a VUnion."""
        if not isinstance(v, VUnion):
            return [(st, v)]
        out = []
        feas = [(g, a) for g, a in v.alts if smt.feasible(st.pc, g)]
        for i, (g, a) in enumerate(feas):
            s = st if i == len(feas) - 1 else st.clone()
            s.assume(g)
            out.append((s, a))
        return out

    # ------------------------------------------------------------------ exceptions
    def make_exc(self, st: State, cls, args=()):
        oid = st.alloc(HObj("inst", cls, {"args": VTuple(list(args)), "__cause__": VNone}))
        return VRef(oid)

    def raise_py(self, st: State, cls, msg=""):
        return Raised(self.make_exc(st, cls, [VStr(msg)] if msg else []))

    def exc_isinstance(self, exc: V, cls, st: State):
        """z3 Bool: is exception value `exc` an instance of python class `cls`."""
        if isinstance(exc, VRef):
            o = st.heap[exc.oid]
            c = o.cls
            if isinstance(c, type):
                return z3.BoolVal(issubclass(c, cls))
            return z3.BoolVal(False)
        if isinstance(exc, VObj):
            from .builtins import sym_isinstance
            return sym_isinstance(self, exc, cls)
        if isinstance(exc, VClass):       # `raise SomeError` / set_exception(SomeError) with a class
            return z3.BoolVal(isinstance(exc.py, type) and issubclass(exc.py, cls))
        raise Unsupported(f"isinstance on exception value {exc}")

    # ------------------------------------------------------------------ expressions
    def ev(self, node, st: State):
        m = getattr(self, "ev_" + type(node).__name__, None)
        if m is None:
            raise Unsupported(f"expression {type(node).__name__}")
        return m(node, st)

    def ev_list(self, nodes, st: State):
        """Evaluate nodes left to right: [(state, [values]) | (state, Raised)]."""
        paths = [(st, [])]
        for n in nodes:
            nxt = []
            for s, vals in paths:
                if isinstance(vals, Raised):
                    nxt.append((s, vals))
                    continue
                if isinstance(n, ast.Starred):
                    for s2, v in self.ev(n.value, s):
                        if isinstance(v, Raised):
                            nxt.append((s2, v))
                        else:
                            nxt.append((s2, vals + self.iter_concrete(v, s2)))
                    continue
                for s2, v in self.ev(n, s):
                    nxt.append((s2, v if isinstance(v, Raised) else vals + [v]))
            paths = nxt
        return paths

    def ev_Constant(self, n, st):
        v = n.value
        if v is Ellipsis:
            return [(st, VNone)]
        return [(st, self.lift(v, st))]

    def ev_Name(self, n, st):
        return [(st, self.lookup(n.id, st))]

    def ev_Tuple(self, n, st):
        return [(s, v if isinstance(v, Raised) else VTuple(v)) for s, v in self.ev_list(n.elts, st)]

    def ev_List(self, n, st):
        out = []
        for s, v in self.ev_list(n.elts, st):
            if isinstance(v, Raised):
                out.append((s, v))
            else:
                out.append((s, VRef(s.alloc(HObj("list", None, {"items": v})))))
        return out

    def ev_Set(self, n, st):
        out = []
        for s, v in self.ev_list(n.elts, st):
            if isinstance(v, Raised):
                out.append((s, v))
            else:
                out.append((s, self.builtin_mod.make_set(self, s, v)))
        return out

    def ev_Dict(self, n, st):
        out = []
        if any(k is None for k in n.keys):
            raise Unsupported("dict unpacking in literal")
        for s, ks in self.ev_list(n.keys, st):
            if isinstance(ks, Raised):
                out.append((s, ks))
                continue
            for s2, vs in self.ev_list(n.values, s):
                if isinstance(vs, Raised):
                    out.append((s2, vs))
                    continue
                out.append((s2, self.builtin_mod.make_dict(self, s2, list(zip(ks, vs)))))
        return out

    def ev_JoinedStr(self, n, st):
        # f-strings only build log/error messages in scope: opaque string (extraction rule 4)
        self.assumptions_used.add("A-FSTRING")
        return [(st, VStr(z3.Const(fresh_name("fstr"), StrS)))]

    def ev_NamedExpr(self, n, st):
        out = []
        for s, v in self.ev(n.value, st):
            if not isinstance(v, Raised):
                self.assign_name(n.target.id, v, s)
            out.append((s, v))
        return out

    def ev_Lambda(self, n, st):
        return [(st, VFunc("py", node=n, module=self.cur_module(st), qualname="<lambda>", closure=st.frames[-1]))]

    def cur_module(self, st):
        oid = st.frames[-1]
        while oid is not None:
            env = st.heap[oid]
            if env.f.get("__module__"):
                return env.f["__module__"]
            oid = env.f.get("__parent__")
        return None

    def ev_UnaryOp(self, n, st):
        out = []
        for s, v in self.ev(n.operand, st):
            if isinstance(v, Raised):
                out.append((s, v))
            elif isinstance(n.op, ast.Not):
                out.append((s, VBool(simp(z3.Not(truth(v, s))))))
            elif isinstance(n.op, ast.USub):
                out.append((s, VReal(-v.e) if isinstance(v, VReal) else VInt(simp(-as_int(v)))))
            elif isinstance(n.op, ast.UAdd):
                out.append((s, v))
            else:
                raise Unsupported("unary ~")
        return out

    def ev_BoolOp(self, n, st):
        is_and = isinstance(n.op, ast.And)
        paths = None
        # Short-circuit: value of first falsy (and) / truthy (or) operand, else last.
        def go(i, s):
            res = []
            for s1, v in self.ev(n.values[i], s):
                if isinstance(v, Raised) or i == len(n.values) - 1:
                    res.append((s1, v))
                    continue
                pure = self.is_pure(n.values[i + 1:])
                t = simp(truth(v, s1))
                if pure and (z3.is_true(t) or z3.is_false(t)) is False:
                    # merge instead of forking when the rest has no side effects and evaluates on one path
                    rest = self.try_pure_eval(n.values[i + 1:], n.op, s1)
                    if rest is not None:
                        stop = z3.Not(t) if is_and else t
                        res.append((s1, merge_value(stop, v, rest)))
                        continue
                for s2, tv in self.fork_bool(t, s1, "boolop"):
                    stop = (not tv) if is_and else tv
                    if stop:
                        res.append((s2, v))
                    else:
                        res.extend(go(i + 1, s2))
            return res
        return go(0, st)

    def is_pure(self, nodes):
        for n in nodes:
            for x in ast.walk(n):
                if isinstance(x, (ast.Call, ast.NamedExpr, ast.Await, ast.Yield, ast.YieldFrom)):
                    if isinstance(x, ast.Call) and isinstance(x.func, ast.Name) and (x.func.id in self.PURE_CALLS or x.func.id in self.spec_funcs):
                        continue
                    return False
        return True

    PURE_CALLS = {"len", "isinstance", "old", "implies", "iff", "type", "bool", "int"}

    def try_pure_eval(self, nodes, op, st):
        """Evaluate `a op b op ...` of side-effect-free operands on a scratch copy; None if it forks or raises."""
        node = nodes[0] if len(nodes) == 1 else ast.BoolOp(op=op, values=list(nodes))
        scratch = st.clone()
        try:
            r = self.ev(node, scratch)
        except Unsupported:
            raise
        if len(r) != 1 or isinstance(r[0][1], Raised):
            return None
        if len(r[0][0].pc) != len(st.pc):
            return None
        return r[0][1]

    def ev_IfExp(self, n, st):
        out = []
        for s, c in self.ev(n.test, st):
            if isinstance(c, Raised):
                out.append((s, c))
                continue
            t = simp(truth(c, s))
            if not (z3.is_true(t) or z3.is_false(t)) and self.is_pure([n.body, n.orelse]):
                a = self.try_pure_eval([n.body], None, s)
                b = self.try_pure_eval([n.orelse], None, s)
                if a is not None and b is not None:
                    out.append((s, merge_value(t, a, b)))
                    continue
            for s2, tv in self.fork_bool(t, s, "ifexp"):
                out.extend(self.ev(n.body if tv else n.orelse, s2))
        return out

    def ev_Compare(self, n, st):
        out = []
        for s, vals in self.ev_list([n.left] + list(n.comparators), st):
            if isinstance(vals, Raised):
                out.append((s, vals))
                continue
            ordering = any(isinstance(op, (ast.Lt, ast.LtE, ast.Gt, ast.GtE)) for op in n.ops)
            combos = [(s, vals)]
            if ordering and any(isinstance(v, VUnion) for v in vals):
                combos = []
                def expand(i, s_, acc):
                    if i == len(vals):
                        combos.append((s_, acc))
                        return
                    for s2, v2 in self.split_union(vals[i], s_):
                        expand(i + 1, s2, acc + [v2])
                expand(0, s, [])
            for s1, vs in combos:
                if ordering and any(isinstance(v, VNoneT) for v in vs):
                    out.append((s1, self.raise_py(s1, TypeError, "ordering comparison with None")))
                    continue
                conj = []
                for op, a, b in zip(n.ops, vs, vs[1:]):
                    if isinstance(op, (ast.In, ast.NotIn)):
                        c = self.builtin_mod.contains(self, s1, b, a)
                        conj.append(c if isinstance(op, ast.In) else z3.Not(c))
                    else:
                        conj.append(self.compare_vals(op, a, b, s1))
                out.append((s1, VBool(simp(z3.And(*conj)) if len(conj) > 1 else simp(conj[0]))))
        return out

    def compare_vals(self, op, a, b, st):
        if isinstance(op, (ast.Eq, ast.NotEq)):
            r = self.struct_eq(a, b, st)
            return r if isinstance(op, ast.Eq) else z3.Not(r)
        import dataclasses as _dc
        if isinstance(a, VRef) and isinstance(b, VRef) and not isinstance(op, (ast.Is, ast.IsNot)):
            oa, ob = st.heap[a.oid], st.heap[b.oid]
            if oa.kind == "inst" and ob.kind == "inst" and oa.cls is ob.cls and isinstance(oa.cls, type) and _dc.is_dataclass(oa.cls):
                params = getattr(oa.cls, "__dataclass_params__", None)
                names = [f.name for f in _dc.fields(oa.cls) if f.compare]
                if params is not None and params.order:
                    self.assumptions_used.add("A-LIB(dataclasses): generated __eq__/ordering compare the field tuples")
                    return compare(op, VTuple([self.devalue(oa.f[n], st) for n in names]), VTuple([self.devalue(ob.f[n], st) for n in names]))
        if isinstance(op, (ast.Is, ast.IsNot)):
            r = self.identical(a, b, st)
            return r if isinstance(op, ast.Is) else z3.Not(r)
        a2, b2 = self.devalue(a, st), self.devalue(b, st)
        return compare(op, a2, b2)

    def identical(self, a, b, st):
        """Python `is`.  A heap object and an opaque object term may denote the same object (an exception built here and
        later read back from a future or a log): they are compared through the heap object's box term."""
        if isinstance(a, VUnion):
            return simp(z3.Or(*[z3.And(g, self.identical(x, b, st)) for g, x in a.alts]))
        if isinstance(b, VUnion):
            return simp(z3.Or(*[z3.And(g, self.identical(a, x, st)) for g, x in b.alts]))
        mixed = (isinstance(a, VObj) and isinstance(b, (VRef, VFunc, VClass))) or (isinstance(b, VObj) and isinstance(a, (VRef, VFunc, VClass)))
        if mixed:
            from .heapmodel import box
            return box(self, st, a) == box(self, st, b)
        self._no_untyped_opaque(a, b, "is")
        return values_identical(a, b)

    @staticmethod
    def _no_untyped_opaque(a, b, op):
        """An opaque object of unknown type compared with a value of another representation: the answer is not known
        (it may be a str, an int ...); never silently `False`."""
        for x, y in ((a, b), (b, a)):
            if isinstance(x, VObj) and x.cls in (None, "Any") and not isinstance(y, (VObj, VNoneT)):
                raise Unsupported(f"`{op}` between an untyped opaque object and {type(y).__name__}")

    def struct_eq(self, a, b, st):
        """Python == : structural for tuples/lists, dataclass instances and protobuf message records."""
        import dataclasses as _dc
        if isinstance(a, VUnion):
            return simp(z3.Or(*[z3.And(g, self.struct_eq(x, b, st)) for g, x in a.alts]))
        if isinstance(b, VUnion):
            return simp(z3.Or(*[z3.And(g, self.struct_eq(a, x, st)) for g, x in b.alts]))
        if isinstance(a, VRef) and isinstance(b, VRef):
            oa, ob = st.heap[a.oid], st.heap[b.oid]
            if oa.kind == "inst" and ob.kind == "inst" and oa.cls is ob.cls and isinstance(oa.cls, type) and _dc.is_dataclass(oa.cls):
                names = [f.name for f in _dc.fields(oa.cls) if f.compare]
                self.assumptions_used.add("A-LIB(dataclasses): generated __eq__/ordering compare the field tuples")
                return simp(z3.And(*[self.struct_eq(oa.f[n], ob.f[n], st) for n in names] or [z3.BoolVal(True)]))
            if oa.kind == "msg" and ob.kind == "msg":
                if oa.cls is not ob.cls:
                    return z3.BoolVal(False)
                return simp(z3.And(*[self.struct_eq(oa.f[k], ob.f[k], st) for k in oa.f if not k.startswith("__")] or [z3.BoolVal(True)]))
        for x, y in ((a, b), (b, a)):
            if isinstance(x, VObj) and isinstance(y, (VRef, VFunc, VClass)):
                o = st.heap[y.oid] if isinstance(y, VRef) else None
                if o is not None and (o.kind != "inst" or (isinstance(o.cls, type) and (_dc.is_dataclass(o.cls) or "__eq__" in o.cls.__dict__))):
                    raise Unsupported("== between an opaque object and a structured heap value")
                from .heapmodel import box
                return box(self, st, a) == box(self, st, b)         # objects without __eq__: == is identity
        self._no_untyped_opaque(a, b, "==")
        a2, b2 = self.devalue(a, st), self.devalue(b, st)
        if isinstance(a2, VTuple) and isinstance(b2, VTuple):
            if len(a2.items) != len(b2.items):
                return z3.BoolVal(False)
            return simp(z3.And(*[self.struct_eq(x, y, st) for x, y in zip(a2.items, b2.items)] or [z3.BoolVal(True)]))
        if isinstance(a2, VSeq) and isinstance(b2, VTuple):
            b2 = VSeq(self.builtin_mod.encode_elem(self, st, b2, Ty("seq", [a2.elem])), a2.elem)
        elif isinstance(b2, VSeq) and isinstance(a2, VTuple):
            a2 = VSeq(self.builtin_mod.encode_elem(self, st, a2, Ty("seq", [b2.elem])), b2.elem)
        return values_equal(a2, b2)

    def devalue(self, v, st):
        """For ==: replace references to list/bytearray objects by immutable value views."""
        if isinstance(v, VRef):
            o = st.heap[v.oid]
            if o.kind == "list":
                return VTuple([self.devalue(x, st) for x in o.f["items"]])
            if o.kind == "buf":
                return VBytes(o.f["e"], KIND_BYTEARRAY)
            if o.kind == "slist":
                return VSeq(o.f["e"], o.f["elem"])
        if isinstance(v, VTuple):
            return VTuple([self.devalue(x, st) for x in v.items])
        if isinstance(v, VUnion):
            return VUnion([(g, self.devalue(a, st)) for g, a in v.alts])
        return v

    def ev_BinOp(self, n, st):
        out = []
        for s, vals in self.ev_list([n.left, n.right], st):
            if isinstance(vals, Raised):
                out.append((s, vals))
                continue
            out.extend(self.binop(n.op, vals[0], vals[1], s))
        return out

    def binop(self, op, a, b, st):
        res = []
        for s1, a1 in self.split_union(a, st):
            for s2, b1 in self.split_union(b, s1):
                hk = self.hooks.get("binop")
                r = hk(self, s2, op, a1, b1) if hk is not None else None
                if r is not None:
                    res.append((s2, r))
                    continue
                res.append((s2, self.builtin_mod.binop(self, s2, op, a1, b1)))
        return res

    def ev_Attribute(self, n, st):
        out = []
        for s, v in self.ev(n.value, st):
            if isinstance(v, Raised):
                out.append((s, v))
                continue
            for s2, v2 in self.split_union(v, s):
                try:
                    out.append((s2, self.getattr(v2, n.attr, s2)))
                except self.builtin_mod.NoneAttr:
                    out.append((s2, self.raise_py(s2, AttributeError, f"'NoneType' object has no attribute '{n.attr}'")))
                except Exception as e:
                    if type(e).__name__ == "PropertyFork":
                        out.extend(self.call(e.func, [], {}, s2))
                        continue
                    if type(e).__name__ != "MessageAttrFork":
                        raise
                    # opaque message of undetermined class: one path per class that has the field, AttributeError otherwise
                    from .builtins import typeof_f, cls_code
                    for c in e.feas:
                        s3 = s2.clone()
                        s3.assume(typeof_f(e.v.e) == cls_code(c))
                        s3.note(f"{n.attr}@{c.__name__}")
                        out.append((s3, self.msg_field_value(s3, c, n.attr, e.v.e)))
                    if e.other:
                        s3 = s2.clone()
                        for c in e.feas:
                            s3.assume(typeof_f(e.v.e) != cls_code(c))
                        out.append((s3, self.raise_py(s3, AttributeError, f"message has no field {n.attr}")))
        return out

    def getattr(self, v: V, name: str, st: State):
        return self.builtin_mod.getattr_(self, st, v, name)

    def ev_Subscript(self, n, st):
        out = []
        if isinstance(n.slice, ast.Slice):
            parts = [n.value] + [x if x is not None else ast.Constant(value=None) for x in (n.slice.lower, n.slice.upper, n.slice.step)]
            for s, vals in self.ev_list(parts, st):
                if isinstance(vals, Raised):
                    out.append((s, vals))
                    continue
                for s2, base in self.split_union(vals[0], s):
                    out.append((s2, self.builtin_mod.slice_(self, s2, base, vals[1], vals[2], vals[3])))
            return out
        for s, vals in self.ev_list([n.value, n.slice], st):
            if isinstance(vals, Raised):
                out.append((s, vals))
                continue
            for s2, base in self.split_union(vals[0], s):
                out.extend(self.builtin_mod.index_(self, s2, base, vals[1]))
        return out

    def ev_Call(self, n, st):
        # special forms of the contract language
        if isinstance(n.func, ast.Name):
            sp = self.builtin_mod.SPECIAL_FORMS.get(n.func.id)
            if sp is not None and not self.shadowed(n.func.id, st):
                return sp(self, n, st)
        out = []
        for s, fv in self.ev(n.func, st):
            if isinstance(fv, Raised):
                out.append((s, fv))
                continue
            for s1, args in self.ev_list(n.args, s):
                if isinstance(args, Raised):
                    out.append((s1, args))
                    continue
                for s2, kvals in self.ev_list([k.value for k in n.keywords], s1):
                    if isinstance(kvals, Raised):
                        out.append((s2, kvals))
                        continue
                    kwargs = {}
                    dup = None
                    for k, v in zip(n.keywords, kvals):
                        if k.arg is not None:
                            dup = dup or (k.arg if k.arg in kwargs else None)
                            kwargs[k.arg] = v
                            continue
                        # **mapping: a dict with concrete string keys (in insertion order)
                        o = s2.heap.get(v.oid) if isinstance(v, VRef) else None
                        if o is None or o.kind != "dict":
                            raise Unsupported("**kwargs at a call site from a value that is not a concrete-keyed dict")
                        for kk, vv in o.f["items"].values():
                            ks = z3.simplify(kk.e) if isinstance(kk, VStr) else None
                            if ks is None or not z3.is_string_value(ks):
                                raise Unsupported("**kwargs with a non-constant key")
                            name = ks.as_string()
                            dup = dup or (name if name in kwargs else None)
                            kwargs[name] = vv
                    if dup is not None:
                        out.append((s2, self.raise_py(s2, TypeError, f"got multiple values for keyword argument {dup!r}")))
                        continue
                    for s3, f3 in self.split_union(fv, s2):
                        out.extend(self.call(f3, args, kwargs, s3))
        return out

    def shadowed(self, name, st):
        oid = st.frames[-1]
        while oid is not None:
            env = st.heap[oid]
            if name in env.f:
                return True
            oid = env.f.get("__parent__")
        return False

    def ev_Await(self, n, st):
        out = []
        for s, v in self.ev(n.value, st):
            if isinstance(v, Raised):
                out.append((s, v))
                continue
            self.cur_await_node = n
            if isinstance(v, VFunc) and v.kind == "coro":
                for s2, r2 in self.call_py(v.fv, v.args, v.kwargs, s, run_coro=True):
                    out.append((s2, r2))
                continue
            out.extend(self.builtin_mod.await_(self, s, v))
        return out

    def ev_ListComp(self, n, st):
        return self.builtin_mod.comprehension(self, n, st, "list")

    def ev_GeneratorExp(self, n, st):
        return self.builtin_mod.comprehension(self, n, st, "list")

    def ev_SetComp(self, n, st):
        return self.builtin_mod.comprehension(self, n, st, "set")

    def ev_DictComp(self, n, st):
        return self.builtin_mod.comprehension(self, n, st, "dict")

    # ------------------------------------------------------------------ iteration over concrete-length things
    def iter_concrete(self, v: V, st: State):
        if isinstance(v, VTuple):
            return list(v.items)
        if isinstance(v, VRef):
            o = st.heap[v.oid]
            if o.kind == "list":
                return list(o.f["items"])
            if o.kind == "dict":
                return [k for k, _ in o.f["items"].values()]
            if o.kind == "cset":
                return list(o.f["items"])
        if isinstance(v, VBytes):
            e = simp(v.e)
            lst = smt._seq_to_list(e)
            if lst is not None:
                return [VInt(x) for x in lst]
        raise Unsupported(f"iteration over symbolic-length value {v}")

    # ------------------------------------------------------------------ calls
    def call(self, fv: V, args, kwargs, st: State):
        """[(state, V | Raised)]"""
        if isinstance(fv, VFunc):
            k = fv.kind
            if k == "builtin":
                return fv.impl(self, st, args, kwargs)
            if k == "bmeth":
                return fv.impl(self, st, fv.recv, args, kwargs)
            if k == "bound":
                return self.call(fv.func, [fv.selfv] + list(args), kwargs, st)
            if k == "partial":
                kw = dict(fv.kwargs)
                kw.update(kwargs)
                return self.call(fv.func, list(fv.args) + list(args), kw, st)
            if k == "spec":
                return self.builtin_mod.call_spec(self, st, fv.spec, args, kwargs)
            if k == "py":
                return self.call_py(fv, args, kwargs, st)
            if k == "opaque":
                return self.builtin_mod.call_opaque(self, st, fv, args, kwargs)
            fk = self.func_kinds.get(k)
            if fk is not None:
                return fk(self, st, fv, args, kwargs)
        if isinstance(fv, VClass):
            return self.builtin_mod.construct(self, st, fv, args, kwargs)
        if isinstance(fv, VObj):
            return self.builtin_mod.call_opaque(self, st, fv, args, kwargs)
        if isinstance(fv, VLive):
            return self.builtin_mod.call_live(self, st, fv, args, kwargs)
        raise Unsupported(f"call of {fv}")

    def full_name(self, fv: VFunc):
        return f"{fv.module}.{fv.qualname}"

    def call_py(self, fv: VFunc, args, kwargs, st: State, run_coro=False):
        if isinstance(fv.node, ast.AsyncFunctionDef) and not run_coro:
            # calling an `async def` only creates the coroutine object; its body runs where it is awaited
            return [(st, VFunc("coro", fv=fv, args=list(args), kwargs=dict(kwargs), name=fv.qualname))]
        name = self.full_name(fv)
        c = self.contracts.get(name)
        if c is not None and getattr(c, "model", None) is not None and (self.current_target != name or getattr(c, "model_on_recursion", False)):
            return c.model(self, st, fv, args, kwargs)
        if c is not None and not (self.current_target == name and not c.recursive_ok):
            return self.contract_mod.apply_contract(self, c, fv, args, kwargs, st)
        if c is not None or name in self.inline or fv.qualname == "<lambda>" or fv.closure is not None \
                or fv.module.startswith("models") or fv.module.startswith("specs") or fv.module.startswith("contracts"):
            return self.inline_call(fv, args, kwargs, st)
        if self.auto_inline and fv.module.startswith("aioesphomeapi") and (not isinstance(fv.node, ast.AsyncFunctionDef) or "await" in self.hooks):
            # a synchronous function of the package without a contract: executing its real body in place is exact
            # (a helper extracted by a refactoring must not make the caller 'unsupported')
            self.assumptions_used.add(f"inlined (no contract): {name}")
            return self.inline_call(fv, args, kwargs, st)
        raise Unsupported(f"call of {name}: no contract and not on the inline whitelist")

    def bind_args(self, fv: VFunc, args, kwargs, st: State):
        """Bind arguments into the current (fresh) frame. Returns list of (state, None|Raised)."""
        a = fv.node.args
        params = [p.arg for p in a.posonlyargs + a.args]
        env = st.env
        args = list(args)
        if len(args) > len(params) and a.vararg is None:
            return [(st, self.raise_py(st, TypeError, "too many positional arguments"))]
        for p, v in zip(params, args):
            env.f[p] = v
        if a.vararg is not None:
            env.f[a.vararg.arg] = VTuple(args[len(params):])
        given = set(params[: len(args)])
        kwonly = [p.arg for p in a.kwonlyargs]
        for k, v in kwargs.items():
            if k in given:
                return [(st, self.raise_py(st, TypeError, f"multiple values for {k}"))]
            if k in params or k in kwonly:
                env.f[k] = v
                given.add(k)
            elif a.kwarg is not None:
                raise Unsupported("**kwargs parameter")
            else:
                return [(st, self.raise_py(st, TypeError, f"unexpected keyword {k}"))]
        # defaults
        paths = [(st, None)]
        defaults = list(zip(params[len(params) - len(a.defaults):], a.defaults)) + [
            (p, d) for p, d in zip(kwonly, a.kw_defaults) if d is not None
        ]
        for p, d in defaults:
            if p in given:
                continue
            nxt = []
            for s, r in paths:
                if isinstance(r, Raised):
                    nxt.append((s, r))
                    continue
                # defaults are evaluated in the defining module scope; they are constants in scope
                fr = self.push_frame(s, None, fv.module, "<default>")
                for s2, v in self.ev(d, s):
                    s2.frames.pop()
                    if isinstance(v, Raised):
                        nxt.append((s2, v))
                    else:
                        s2.env.f[p] = v
                        nxt.append((s2, None))
            paths = nxt
            given.add(p)
        missing = [p for p in params + kwonly if p not in given]
        if missing:
            return [(s, self.raise_py(s, TypeError, f"missing argument {missing}")) for s, _ in paths]
        return paths

    def inline_call(self, fv: VFunc, args, kwargs, st: State):
        st.depth += 1
        if st.depth > 40:
            raise Unsupported("inline depth exceeded")
        self.push_frame(st, fv.closure, fv.module, fv.qualname)
        out = []
        for s, r in self.bind_args(fv, args, kwargs, st):
            if isinstance(r, Raised):
                s.frames.pop()
                s.depth -= 1
                out.append((s, r))
                continue
            if isinstance(fv.node, ast.Lambda):
                res = [(s2, ("return", v) if not isinstance(v, Raised) else v) for s2, v in self.ev(fv.node.body, s)]
            else:
                res = self.exec_block(fv.node.body, s)
            for s2, o in res:
                s2.frames.pop()
                s2.depth -= 1
                if isinstance(o, Raised):
                    out.append((s2, o))
                elif o is None:
                    out.append((s2, VNone))
                elif o[0] == "return":
                    out.append((s2, o[1]))
                else:
                    raise Unsupported("break/continue escaped function body")
        return out

    # ------------------------------------------------------------------ statements
    def exec_block(self, stmts, st: State):
        paths = [(st, None)]
        for stmt in stmts:
            nxt = []
            for s, o in paths:
                if o is not None:
                    nxt.append((s, o))
                else:
                    nxt.extend(self.exec_stmt(stmt, s))
            paths = nxt
            if not paths:
                break
        return paths

    def exec_stmt(self, n, st: State):
        m = getattr(self, "ex_" + type(n).__name__, None)
        if m is None:
            raise Unsupported(f"statement {type(n).__name__}")
        return m(n, st)

    def ex_Pass(self, n, st):
        return [(st, None)]

    def ex_Break(self, n, st):
        return [(st, ("break",))]

    def ex_Continue(self, n, st):
        return [(st, ("continue",))]

    def ex_Global(self, n, st):
        raise Unsupported("global statement")

    def ex_Nonlocal(self, n, st):
        st.env.f.setdefault("__nonlocal__", set())
        st.env.f["__nonlocal__"] = set(st.env.f["__nonlocal__"]) | set(n.names)
        return [(st, None)]

    def ex_Import(self, n, st):
        raise Unsupported("import inside function")

    def ex_Expr(self, n, st):
        if isinstance(n.value, ast.Constant):
            return [(st, None)]          # docstring
        if self.is_log_call(n.value):
            self.assumptions_used.add("A-LOG")
            return [(st, None)]
        return [(s, v if isinstance(v, Raised) else None) for s, v in self.ev(n.value, st)]

    def is_log_call(self, e):
        return (
            isinstance(e, ast.Call)
            and isinstance(e.func, ast.Attribute)
            and isinstance(e.func.value, ast.Name)
            and e.func.value.id == "_LOGGER"
            and e.func.attr in ("debug", "info", "warning", "error", "exception", "critical", "log")
        )

    def ex_Return(self, n, st):
        if n.value is None:
            return [(st, ("return", VNone))]
        return [(s, v if isinstance(v, Raised) else ("return", v)) for s, v in self.ev(n.value, st)]

    def ex_Assert(self, n, st):
        # in real code: `assert` only appears under TYPE_CHECKING (dropped); in ghost code it is prove-then-assume
        return self.builtin_mod.ghost_assert(self, n, st)

    def ex_FunctionDef(self, n, st):
        st.env.f[n.name] = VFunc("py", node=n, module=self.cur_module(st),
                                 qualname=f"{st.env.f.get('__fname__','')}.<locals>.{n.name}", closure=st.frames[-1])
        return [(st, None)]

    ex_AsyncFunctionDef = ex_FunctionDef

    def ex_AnnAssign(self, n, st):
        if n.value is None:
            return [(st, None)]
        return self.ex_Assign(ast.Assign(targets=[n.target], value=n.value), st)

    def ex_Assign(self, n, st):
        out = []
        for s, v in self.ev(n.value, st):
            if isinstance(v, Raised):
                out.append((s, v))
                continue
            paths = [(s, None)]
            for tgt in n.targets:
                nxt = []
                for s1, r in paths:
                    if isinstance(r, Raised):
                        nxt.append((s1, r))
                    else:
                        nxt.extend(self.assign(tgt, v, s1))
                paths = nxt
            out.extend(paths)
        return out

    def assign(self, tgt, v: V, st: State):
        if isinstance(tgt, ast.Name):
            self.assign_name(tgt.id, v, st)
            return [(st, None)]
        if isinstance(tgt, (ast.Tuple, ast.List)):
            out = []
            for s, v1 in self.split_union(v, st):
                if isinstance(v1, VRef) and s.heap[v1.oid].kind == "slist":
                    v1 = VSeq(s.heap[v1.oid].f["e"], s.heap[v1.oid].f["elem"])
                try:
                    items = self.iter_concrete(v1, s)
                except Unsupported:
                    if isinstance(v1, VSeq) and not any(isinstance(e, ast.Starred) for e in tgt.elts):
                        # destructuring a symbolic-length sequence: ValueError unless the length matches
                        out.extend(self.builtin_mod.destructure_seq(self, s, tgt, v1))
                        continue
                    raise
                if any(isinstance(e, ast.Starred) for e in tgt.elts):
                    raise Unsupported("starred assignment target")
                if len(items) != len(tgt.elts):
                    out.append((s, self.raise_py(s, ValueError, "unpack length mismatch")))
                    continue
                paths = [(s, None)]
                for t, x in zip(tgt.elts, items):
                    nxt = []
                    for s1, r in paths:
                        nxt.extend(self.assign(t, x, s1) if r is None else [(s1, r)])
                    paths = nxt
                out.extend(paths)
            return out
        if isinstance(tgt, ast.Attribute):
            out = []
            for s, base in self.ev(tgt.value, st):
                if isinstance(base, Raised):
                    out.append((s, base))
                    continue
                for s2, b2 in self.split_union(base, s):
                    out.extend(self.builtin_mod.setattr_(self, s2, b2, tgt.attr, v))
            return out
        if isinstance(tgt, ast.Subscript):
            out = []
            for s, vals in self.ev_list([tgt.value, tgt.slice], st):
                if isinstance(vals, Raised):
                    out.append((s, vals))
                    continue
                for s2, b2 in self.split_union(vals[0], s):
                    out.extend(self.builtin_mod.setitem_(self, s2, b2, vals[1], v))
            return out
        raise Unsupported(f"assignment target {type(tgt).__name__}")

    def ex_AugAssign(self, n, st):
        load = _as_load(n.target)
        out = []
        for s, vals in self.ev_list([load, n.value], st):
            if isinstance(vals, Raised):
                out.append((s, vals))
                continue
            for s2, r in self.binop(n.op, vals[0], vals[1], s):
                if isinstance(r, Raised):
                    out.append((s2, r))
                else:
                    # in-place += on a heap list / bytearray mutates the object
                    if isinstance(vals[0], VRef) and s2.heap[vals[0].oid].kind in ("list", "buf") and isinstance(n.op, ast.Add):
                        self.builtin_mod.inplace_extend(self, s2, vals[0], vals[1])
                        out.append((s2, None))
                    else:
                        out.extend(self.assign(n.target, r, s2))
        return out

    def ex_Delete(self, n, st):
        paths = [(st, None)]
        for t in n.targets:
            nxt = []
            for s, r in paths:
                if r is not None:
                    nxt.append((s, r))
                    continue
                if isinstance(t, ast.Subscript):
                    for s1, vals in self.ev_list([t.value, t.slice], s):
                        if isinstance(vals, Raised):
                            nxt.append((s1, vals))
                        else:
                            nxt.extend(self.builtin_mod.delitem_(self, s1, vals[0], vals[1]))
                else:
                    raise Unsupported("del of a non-subscript")
            paths = nxt
        return paths

    def ex_Raise(self, n, st):
        if n.exc is None:
            cur = st.env.f.get("__exc__")
            if cur is None:
                raise Unsupported("bare raise outside except")
            return [(st, Raised(cur))]
        out = []
        evs = []
        for s0, v0 in self.ev(n.exc, st):
            if isinstance(v0, VUnion):
                evs.extend(self.split_union(v0, s0))
            else:
                evs.append((s0, v0))
        for s, v in evs:
            if isinstance(v, Raised):
                out.append((s, v))
                continue
            if isinstance(v, VNoneT):
                out.append((s, self.raise_py(s, TypeError, "exceptions must derive from BaseException")))
                continue
            if isinstance(v, VClass):
                res = self.call(v, [], {}, s)
            else:
                res = [(s, v)]
            for s2, ev in res:
                if isinstance(ev, Raised):
                    out.append((s2, ev))
                    continue
                if n.cause is not None:
                    for s3, c in self.ev(n.cause, s2):
                        if isinstance(c, Raised):
                            out.append((s3, c))
                        else:
                            if isinstance(ev, VRef):
                                s3.heap[ev.oid].f["__cause__"] = c
                            out.append((s3, Raised(ev)))
                else:
                    out.append((s2, Raised(ev)))
        return out

    def ex_If(self, n, st):
        if self.is_type_checking(n.test):
            return self.exec_block(n.orelse, st) if n.orelse else [(st, None)]
        if self.only_logging(n.body) and not n.orelse and self.is_pure([n.test]):
            self.assumptions_used.add("A-LOG")
            return [(st, None)]
        out = []
        for s, c in self.ev(n.test, st):
            if isinstance(c, Raised):
                out.append((s, c))
                continue
            t = simp(truth(c, s))
            branches = self.fork_bool(t, s, f"if@{getattr(n, 'lineno', '?')}")
            if len(branches) == 2:
                (sa, _), (sb, _) = branches
                ra = self.exec_block(n.body, sa)
                rb = self.exec_block(n.orelse, sb) if n.orelse else [(sb, None)]
                merged = self.try_merge(t, ra, rb, s)
                if merged is not None:
                    out.append(merged)
                else:
                    out.extend(ra)
                    out.extend(rb)
            else:
                for s2, tv in branches:
                    out.extend(self.exec_block(n.body if tv else n.orelse, s2) if (tv or n.orelse) else [(s2, None)])
        return out

    def is_type_checking(self, test):
        return isinstance(test, ast.Name) and test.id == "TYPE_CHECKING"

    def only_logging(self, body):
        return all(isinstance(b, ast.Expr) and self.is_log_call(b.value) for b in body)

    def try_merge(self, cond, ra, rb, base: State):
        """Join two single fall-through paths into one state with ite values (keeps path counts linear)."""
        if len(ra) != 1 or len(rb) != 1 or ra[0][1] is not None or rb[0][1] is not None:
            return None
        if getattr(self.active_contract, "no_merge", False):
            return None          # keep the paths apart: each query stays free of if-then-else over sequences
        sa, sb = ra[0][0], rb[0][0]
        if sa.frames != sb.frames or sa.events != sb.events and len(sa.events) != len(sb.events):
            return None
        if len(sa.events) != len(sb.events) or any(x is not y for x, y in zip(sa.events, sb.events)):
            return None
        try:
            return (self.merge_states(cond, sa, sb, base), None)
        except MergeFail:
            return None

    def merge_states(self, cond, sa: State, sb: State, base: State) -> State:
        n0 = len(base.pc) - 0
        # base.pc was extended in place for one side by fork_bool; find common prefix
        k = 0
        while k < len(sa.pc) and k < len(sb.pc) and sa.pc[k] is sb.pc[k]:
            k += 1
        m = sa.clone()
        m.pc = sa.pc[:k]
        ea = sa.pc[k:]
        eb = sb.pc[k:]
        m.pc.append(simp(z3.Or(z3.And(*ea) if ea else z3.BoolVal(True), z3.And(*eb) if eb else z3.BoolVal(True))))
        m.trace = sa.trace[: min(len(sa.trace), len(sb.trace))]
        m.trace = [t for t, u in zip(sa.trace, sb.trace) if t == u]
        m.next_oid = max(sa.next_oid, sb.next_oid)
        for oid in set(sa.heap) | set(sb.heap):
            oa, ob = sa.heap.get(oid), sb.heap.get(oid)
            if oa is None or ob is None:
                # allocated on one side only: unreachable from the other side's values unless merged via union
                m.heap[oid] = (oa or ob).clone()
                continue
            if oa.kind != ob.kind or oa.cls is not ob.cls:
                raise MergeFail()
            mo = oa.clone()
            if oa.kind == "list":
                la, lb = oa.f["items"], ob.f["items"]
                if len(la) != len(lb):
                    raise MergeFail()
                mo.f["items"] = [merge_value(cond, x, y) for x, y in zip(la, lb)]
            elif oa.kind == "dict":
                if oa.f["items"].keys() != ob.f["items"].keys():
                    raise MergeFail()
                mo.f["items"] = {kk: (oa.f["items"][kk][0], merge_value(cond, oa.f["items"][kk][1], ob.f["items"][kk][1])) for kk in oa.f["items"]}
            else:
                keys = set(oa.f) | set(ob.f)
                for kk in keys:
                    if kk not in oa.f or kk not in ob.f:
                        if oa.kind == "env":
                            # variable bound on one side only: unbound on the other -> keep out (use raises Unsupported later)
                            mo.f.pop(kk, None)
                            continue
                        raise MergeFail()
                    x, y = oa.f[kk], ob.f[kk]
                    if isinstance(x, V) and isinstance(y, V):
                        mo.f[kk] = merge_value(cond, x, y)
                    elif z3.is_expr(x) and z3.is_expr(y):
                        mo.f[kk] = x if x.eq(y) else simp(z3.If(cond, x, y))
                    elif x is y or x == y:
                        mo.f[kk] = x
                    else:
                        raise MergeFail()
            m.heap[oid] = mo
        for r in set(sa.regions) | set(sb.regions):
            x, y = sa.regions.get(r), sb.regions.get(r)
            if x is None or y is None:
                raise MergeFail()
            m.regions[r] = x if x.eq(y) else simp(z3.If(cond, x, y))
        return m

    def ex_While(self, n, st):
        return self.contract_mod.exec_loop(self, n, st)

    def ex_For(self, n, st):
        return self.contract_mod.exec_loop(self, n, st)

    ex_AsyncFor = ex_For

    def ex_With(self, n, st):
        return self.builtin_mod.exec_with(self, n, st)

    ex_AsyncWith = ex_With

    def ex_Try(self, n, st):
        out = []
        body_res = self.exec_block(n.body, st)
        after = []
        for s, o in body_res:
            if isinstance(o, Raised):
                after.extend(self.dispatch_handlers(n, s, o))
            elif o is None and n.orelse:
                after.extend(self.exec_block(n.orelse, s))
            else:
                after.append((s, o))
        if not n.finalbody:
            return after
        for s, o in after:
            for s2, o2 in self.exec_block(n.finalbody, s):
                out.append((s2, o2 if o2 is not None else o))
        return out

    def dispatch_handlers(self, n, st, raised: Raised):
        """Try the except clauses in order on path `st` for exception `raised`."""
        out = []
        cur = [st]
        for h in n.handlers:
            nxt = []
            for s in cur:
                if h.type is None:
                    match = z3.BoolVal(True)
                    classes = None
                else:
                    tv = self.ev(h.type, s)
                    if len(tv) != 1 or isinstance(tv[0][1], Raised):
                        raise Unsupported("complex except clause")
                    tval = tv[0][1]
                    classes = [c.py for c in (tval.items if isinstance(tval, VTuple) else [tval])]
                    match = simp(z3.Or(*[self.exc_isinstance(raised.exc, c, s) for c in classes]))
                for s2, tvb in self.fork_bool(match, s, f"except:{getattr(h.type, 'id', '')}"):
                    if not tvb:
                        nxt.append(s2)
                        continue
                    prev = s2.env.f.get("__exc__")
                    s2.env.f["__exc__"] = raised.exc
                    if h.name:
                        s2.env.f[h.name] = raised.exc
                    for s3, o3 in self.exec_block(h.body, s2):
                        if prev is None:
                            s3.env.f.pop("__exc__", None)
                        else:
                            s3.env.f["__exc__"] = prev
                        out.append((s3, o3))
            cur = nxt
        for s in cur:
            out.append((s, raised))
        return out


def _as_load(t):
    import copy
    t2 = copy.copy(t)
    t2.ctx = ast.Load()
    return t2

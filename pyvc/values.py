"""Symbolic values of the executor and the little type language used by sidecar specs."""
from __future__ import annotations

import itertools
import z3

IntS = z3.IntSort()
BoolS = z3.BoolSort()
RealS = z3.RealSort()
StrS = z3.StringSort()
BytesS = z3.SeqSort(IntS)
ObjS = z3.DeclareSort("Obj")          # opaque references (futures, timers, callbacks, sockets ...)
ObjSeqS = z3.SeqSort(ObjS)
ObjSetS = z3.SetSort(ObjS)

KIND_BYTES, KIND_BYTEARRAY, KIND_MEMORYVIEW = 0, 1, 2

_counter = itertools.count()


def fresh_name(base: str) -> str:
    return f"{base}!{next(_counter)}"


class V:
    """Base class of symbolic values."""


class VNoneT(V):
    def __repr__(self):
        return "None"


VNone = VNoneT()


class VInt(V):
    def __init__(self, e):
        self.e = z3.IntVal(e) if isinstance(e, int) else e

    def __repr__(self):
        return f"VInt({self.e})"


class VBool(V):
    def __init__(self, e):
        self.e = z3.BoolVal(e) if isinstance(e, bool) else e

    def __repr__(self):
        return f"VBool({self.e})"


class VReal(V):
    """A Python float treated as a mathematical real (assumption A-FLOAT)."""

    def __init__(self, e):
        if isinstance(e, (int, float)):
            e = z3.RealVal(repr(e) if isinstance(e, float) else e)
        self.e = e

    def __repr__(self):
        return f"VReal({self.e})"


class VStr(V):
    def __init__(self, e):
        self.e = z3.StringVal(e) if isinstance(e, str) else e

    def __repr__(self):
        return f"VStr({self.e})"


class VBytes(V):
    """bytes-like value: a sequence of ints in 0..255 plus a kind tag (bytes/bytearray/memoryview)."""

    def __init__(self, e, kind=KIND_BYTES):
        if isinstance(e, (bytes, bytearray)):
            e = bytes_val(bytes(e))
        self.e = e
        self.kind = z3.IntVal(kind) if isinstance(kind, int) else kind

    def __repr__(self):
        return f"VBytes({self.e}, kind={self.kind})"


def bytes_val(b: bytes):
    if len(b) == 0:
        return z3.Empty(BytesS)
    units = [z3.Unit(z3.IntVal(x)) for x in b]
    return units[0] if len(units) == 1 else z3.Concat(*units)


class VTuple(V):
    def __init__(self, items):
        self.items = list(items)

    def __repr__(self):
        return f"VTuple({self.items})"


class VRef(V):
    """Reference to a heap object with concrete identity on this path."""

    def __init__(self, oid: int):
        self.oid = oid

    def __repr__(self):
        return f"VRef({self.oid})"


class VObj(V):
    """Opaque object of sort Obj; `cls` names a region class (fields in heap arrays) or is None."""

    def __init__(self, e, cls=None):
        self.e = e
        self.cls = cls

    def __repr__(self):
        return f"VObj({self.e}:{self.cls})"


class VClass(V):
    """A class: a real Python class object, or a model class (ModelClass)."""

    def __init__(self, py):
        self.py = py

    def __repr__(self):
        return f"VClass({getattr(self.py, '__name__', self.py)})"


class VEnum(V):
    """Member of a Python Enum; e is the member's integer code (its .value when all values are ints)."""

    def __init__(self, cls, e):
        self.cls = cls
        self.e = z3.IntVal(e) if isinstance(e, int) else e

    def __repr__(self):
        return f"VEnum({self.cls.__name__},{self.e})"


class VFunc(V):
    """Callable value.

    kind: 'py'      real function: node (ast.FunctionDef/Lambda), module name, qualname, closure (env oid|None)
          'bound'   method bound to self: func (VFunc) + selfv
          'partial' functools.partial: func + args + kwargs
          'builtin' engine-implemented: name, impl(engine, st, args, kwargs) -> [(st, V|Raised)]
          'bmeth'   builtin method bound to a receiver: name + recv
    """

    def __init__(self, kind, **kw):
        self.kind = kind
        self.__dict__.update(kw)

    def __repr__(self):
        return f"VFunc({self.kind},{self.__dict__.get('qualname') or self.__dict__.get('name')})"


class VUnion(V):
    """Guarded alternatives: exactly one guard holds (guards partition the path condition)."""

    def __init__(self, alts):
        self.alts = alts  # list[(z3 Bool, V)]

    def __repr__(self):
        return f"VUnion({self.alts})"


class VSeq(V):
    """Immutable symbolic sequence (list/tuple of unknown length) of structured elements.

    e: z3 Seq term; elem: a type descriptor (see Ty) describing the elements.
    """

    def __init__(self, e, elem, is_tuple=False):
        self.e = e
        self.elem = elem
        self.is_tuple = is_tuple

    def __repr__(self):
        return f"VSeq({self.e})"


class VModule(V):
    def __init__(self, py):
        self.py = py


class VLive(V):
    """An immutable library object read from the live module (a dataclasses.Field, its metadata mapping, ...): attribute
    reads and calls with constant arguments are evaluated concretely on it (A-LIB: these objects are never mutated)."""

    def __init__(self, obj):
        self.obj = obj

    def __repr__(self):
        return f"VLive({self.obj!r:.60})"


class VGhostNS(V):
    """The `ghost` namespace object."""


class Raised:
    """Outcome of an expression/statement that raised: exc is a V (VRef to exception object or VObj)."""

    def __init__(self, exc):
        self.exc = exc

    def __repr__(self):
        return f"Raised({self.exc})"


# ---------------------------------------------------------------------------
# type descriptors for fresh symbolic values  (sidecar "type language")
#   int  bool  real  str  bytes  byteslike  none  obj  obj[Kind]  opt[T]
#   enum[module.Class]  tuple[T1,T2]  seq[T]   (seq: symbolic-length immutable sequence)
#   msg[ClassName]  (protobuf message with symbolic fields)   ref[ClassSpecName]
# ---------------------------------------------------------------------------

class Ty:
    def __init__(self, head, args=()):
        self.head = head
        self.args = tuple(args)

    def __repr__(self):
        return self.head + ("[" + ",".join(map(repr, self.args)) + "]" if self.args else "")


def parse_ty(s) -> Ty:
    if isinstance(s, Ty):
        return s
    s = s.strip()
    pos = 0

    def parse():
        nonlocal pos
        start = pos
        while pos < len(s) and (s[pos].isalnum() or s[pos] in "._?"):
            pos += 1
        head = s[start:pos]
        args = []
        if pos < len(s) and s[pos] == "[":
            pos += 1
            while True:
                while s[pos] == " ":
                    pos += 1
                args.append(parse())
                while s[pos] == " ":
                    pos += 1
                if s[pos] == ",":
                    pos += 1
                    continue
                if s[pos] == "]":
                    pos += 1
                    break
                raise ValueError(f"bad type {s!r}")
        if head.endswith("?"):
            return Ty("opt", [Ty(head[:-1], args)])
        return Ty(head, args)

    t = parse()
    if pos != len(s):
        raise ValueError(f"bad type {s!r}")
    return t

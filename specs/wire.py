"""Executable spec functions for the wire format (api.proto lines 70-85; base-128 little-endian varints).

Each function is ordinary Python (run natively by replays and cross-checks) and is also read by pyvc,
which treats it as an uninterpreted SMT function plus one definitional unfolding wherever `unfold(...)` asks.
All recursion is structural, never index-quantified (DESIGN 3.8).
"""


def enc_varuint(v: int) -> bytes:
    """Minimal base-128 little-endian encoding of v >= 0."""
    if v < 128:
        return bytes((v,))
    return bytes((v % 128 + 128,)) + enc_varuint(v // 128)


def vscan(s: bytes) -> int:
    """Offset of the first byte < 128 (the varint terminator), or -1 if there is none."""
    if len(s) == 0:
        return -1
    if s[0] < 128:
        return 0
    r = vscan(s[1:])
    if r == -1:
        return -1
    return r + 1


def varval(s: bytes, k: int) -> int:
    """Value of the first k bytes of s read as varint groups: sum (s[i] mod 128) * 128**i."""
    if k <= 0:
        return 0
    return varval(s, k - 1) + (s[k - 1] % 128) * p128(k - 1)


def p128(k: int) -> int:
    if k <= 0:
        return 1
    return 128 * p128(k - 1)


def plain_frames(P: "seq[tuple[int,bytes]]", k: int) -> bytes:
    """Wire bytes of the first k packets (type, payload) in plaintext framing (api.proto lines 70-85)."""
    if k <= 0:
        return b""
    return plain_frames(P, k - 1) + b"\x00" + enc_varuint(len(P[k - 1][1])) + enc_varuint(P[k - 1][0]) + P[k - 1][1]


def types_nonneg(P: "seq[tuple[int,bytes]]", k: int) -> bool:
    """Every one of the first k packets has a type number >= 0."""
    if k <= 0:
        return True
    return types_nonneg(P, k - 1) and P[k - 1][0] >= 0


def be16(n: int) -> bytes:
    """16-bit big-endian field; defined only for 0 <= n < 65536."""
    return bytes((n // 256, n % 256))


def fits16(P: "seq[tuple[int,bytes]]", k: int) -> bool:
    """Types, payload lengths and ciphertext lengths (payload + 4 header + 16 tag) of the first k packets fit 16 bits."""
    if k <= 0:
        return True
    return fits16(P, k - 1) and 0 <= P[k - 1][0] < 65536 and len(P[k - 1][1]) + 20 < 65536


# ---------------------------------------------------------------------------------------------------------
# decoding side (C01): everything is defined from vscan / varacc by structural recursion
# ---------------------------------------------------------------------------------------------------------
def varacc(s: bytes, k: int) -> int:
    """Value accumulated from the first k bytes of s as 7-bit groups, least significant group first
    (the standard varint value: group i is shifted left by 7*i and OR-ed in)."""
    if k <= 0:
        return 0
    return varacc(s, k - 1) | ((s[k - 1] & 0x7F) << (7 * (k - 1)))


def vlen(s: bytes) -> int:
    """Number of bytes of the varint at the front of s, or 0 if s holds no complete varint."""
    return vscan(s) + 1


def vval(s: bytes) -> int:
    """Value of the varint at the front of s (-1 if incomplete) - what a varint reader must return."""
    if vscan(s) < 0:
        return -1
    return varacc(s, vscan(s) + 1)


def pf_o1(b: bytes) -> int:
    """Offset of the length varint (= size of the preamble varint)."""
    return vlen(b[0:])


def pf_o2(b: bytes) -> int:
    """Offset of the type varint."""
    return pf_o1(b) + vlen(b[pf_o1(b):])


def pf_hdr(b: bytes) -> int:
    """Offset of the payload (= header length: preamble + length varint + type varint)."""
    return pf_o2(b) + vlen(b[pf_o2(b):])


def pf_len(b: bytes) -> int:
    return vval(b[pf_o1(b):])


def pf_type(b: bytes) -> int:
    return vval(b[pf_o2(b):])


def pf_status(b: bytes) -> int:
    """Front of a non-empty plaintext buffer: 0 = one complete frame, 1 = incomplete (wait), 2 = bad preamble.
    (The preamble is read as a varint and must have the value 0, as api.proto's 'a zero byte' is implemented.)"""
    if vval(b[0:]) != 0:
        return 2
    if pf_len(b) == -1:
        return 1
    if pf_type(b) == -1:
        return 1
    if len(b) < pf_hdr(b) + pf_len(b):
        return 1
    return 0


def pf_payload(b: bytes) -> bytes:
    return b[pf_hdr(b):pf_hdr(b) + pf_len(b)]


def pf_rest(b: bytes) -> bytes:
    return b[pf_hdr(b) + pf_len(b):]


def pf_msgs(b: bytes) -> "seq[tuple[int,bytes]]":
    """All complete frames at the front of b, greedily, as (type, payload) pairs."""
    if len(b) == 0 or pf_status(b) != 0:
        return ()
    return ((pf_type(b), pf_payload(b)),) + pf_msgs(pf_rest(b))


def pf_tail(b: bytes) -> bytes:
    """What remains of b after all complete frames at its front (the retained partial frame)."""
    if len(b) == 0 or pf_status(b) != 0:
        return b
    return pf_tail(pf_rest(b))


def pf_bad(b: bytes) -> bool:
    """True iff greedy parsing of b stops at a bad preamble."""
    if len(b) == 0:
        return False
    if pf_status(b) == 2:
        return True
    if pf_status(b) == 1:
        return False
    return pf_bad(pf_rest(b))


# ---- the receive side over a whole stream of chunks (C01): the per-call contract of data_received, iterated ---------
def cat_chunks(chunks: "seq[bytes]", k: int) -> bytes:
    """The byte stream formed by the first k received chunks."""
    if k <= 0:
        return b""
    return cat_chunks(chunks, k - 1) + chunks[k - 1]


def run_view(chunks: "seq[bytes]", k: int) -> bytes:
    """Buffer contents after k calls of data_received, as its contract states them (retains-exactly-the-partial-tail)."""
    if k <= 0:
        return b""
    return pf_tail(run_view(chunks, k - 1) + chunks[k - 1])


def run_msgs(chunks: "seq[bytes]", k: int) -> "seq[tuple[int,bytes]]":
    """Packets handed to the connection by the first k calls, as the contract states them (delivers-exactly-the-complete-frames)."""
    if k <= 0:
        return ()
    return run_msgs(chunks, k - 1) + pf_msgs(run_view(chunks, k - 1) + chunks[k - 1])


# ---------------------------------------------------------------------------------------------------------
# Noise framing (C03/C04): 0x01, 16-bit big-endian length, that many bytes
# ---------------------------------------------------------------------------------------------------------
def nf_len(b: bytes) -> int:
    """The 16-bit big-endian length field of the frame at the front of b (defined for len(b) >= 3)."""
    return (b[1] << 8) | b[2]


def nf_status(b: bytes) -> int:
    """Front of a non-empty Noise buffer: 0 = one complete frame, 1 = incomplete (wait), 2 = bad marker byte."""
    if len(b) < 3:
        return 1
    if b[0] != 1:
        return 2
    if len(b) < 3 + nf_len(b):
        return 1
    return 0


def nf_frame(b: bytes) -> bytes:
    return b[3:3 + nf_len(b)]


def nf_rest(b: bytes) -> bytes:
    return b[3 + nf_len(b):]


def nf_frames(b: bytes) -> "seq[bytes]":
    """All complete frames at the front of b, greedily."""
    if len(b) == 0 or nf_status(b) != 0:
        return ()
    return (nf_frame(b),) + nf_frames(nf_rest(b))


def nf_tail(b: bytes) -> bytes:
    if len(b) == 0 or nf_status(b) != 0:
        return b
    return nf_tail(nf_rest(b))


def nf_bad(b: bytes) -> bool:
    if len(b) == 0:
        return False
    if nf_status(b) == 2:
        return True
    if nf_status(b) == 1:
        return False
    return nf_bad(nf_rest(b))


def noise_frames(P: "seq[tuple[int,bytes]]", k: int, key: "obj", n0: int) -> bytes:
    """Wire bytes of the first k packets in Noise framing: 0x01, 16-bit BE ciphertext length, AEAD(key, n0 + i, 16-bit type ++ 16-bit length ++ payload)."""
    if k <= 0:
        return b""
    return noise_frames(P, k - 1, key, n0) + b"\x01" + be16(len(P[k - 1][1]) + 20) + aead_enc(key, n0 + k - 1, be16(P[k - 1][0]) + be16(len(P[k - 1][1])) + P[k - 1][1])

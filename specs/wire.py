"""Executable spec functions for the wire format (api.proto lines 70-85; base-128 little-endian varints).

Each function is ordinary Python (run natively by replays and cross-checks) and is also read by pyvc,
which treats it as an uninterpreted SMT function plus one definitional unfolding wherever `unfold(...)` asks.
All recursion is structural, never index-quantified (DESIGN 3.8).
"""


def enc_varuint(v: int) -> bytes:
    """Minimal base-128 little-endian encoding of v >= 0."""
    if v < 128:
        return bytes((v,))
    return bytes((v % 128 + 128,)) + enc_varuint(v // 128)


def vscan(s: bytes) -> int:
    """Offset of the first byte < 128 (the varint terminator), or -1 if there is none."""
    if len(s) == 0:
        return -1
    if s[0] < 128:
        return 0
    r = vscan(s[1:])
    if r == -1:
        return -1
    return r + 1


def varval(s: bytes, k: int) -> int:
    """Value of the first k bytes of s read as varint groups: sum (s[i] mod 128) * 128**i."""
    if k <= 0:
        return 0
    return varval(s, k - 1) + (s[k - 1] % 128) * p128(k - 1)


def p128(k: int) -> int:
    if k <= 0:
        return 1
    return 128 * p128(k - 1)

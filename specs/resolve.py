"""Executable spec functions for address resolution (C20).  The oracles mdns / osres / lit / is_literal / *_fails are uninterpreted
in SMT (contracts/c20.py); natively they are supplied by the replay harness."""


def is_local_name(h: str) -> bool:
    """Bare names (no dot, no colon) and names ending in .local (with an optional trailing dot) are looked up via mDNS first."""
    return ("." not in h and ":" not in h) or (h[:len(h) - 1] if h.endswith(".") else h).endswith(".local")


def first_label(h: str) -> str:
    return h.partition(".")[0]


def pre_os(h: str) -> "seq[obj]":
    """What is known for host h before the OS resolver is consulted: the mDNS answer for local names, the literal itself for IP literals."""
    if is_local_name(h):
        if mdns_fails(first_label(h)):
            return ()
        return mdns(first_label(h))
    if is_literal(h):
        return (lit(h),)
    return ()


def resolved_one(h: str) -> "seq[obj]":
    if len(pre_os(h)) > 0:
        return pre_os(h)
    return osres(h)


def resolved(hosts: "seq[str]", port: int, k: int) -> "seq[obj]":
    """Addresses for the first k configured hosts, in the order of the configuration."""
    if k <= 0:
        return ()
    return resolved(hosts, port, k - 1) + resolved_one(hosts[k - 1])


def mdns_asked(hosts: "seq[str]", k: int) -> "seq[str]":
    if k <= 0:
        return ()
    if is_local_name(hosts[k - 1]):
        return mdns_asked(hosts, k - 1) + (first_label(hosts[k - 1]),)
    return mdns_asked(hosts, k - 1)


def os_asked(hosts: "seq[str]", port: int, k: int) -> "seq[str]":
    if k <= 0:
        return ()
    if len(pre_os(hosts[k - 1])) == 0:
        return os_asked(hosts, port, k - 1) + (hosts[k - 1],)
    return os_asked(hosts, port, k - 1)


def addrs_of(ips: "seq[obj]", port: int, k: int) -> "seq[obj]":
    """The AddrInfo entries for the first k IP addresses of a list, in order (one per address)."""
    if k <= 0:
        return ()
    return addrs_of(ips, port, k - 1) + (addr_of(ips[k - 1], port),)

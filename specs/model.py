"""Spec functions for the model converters (C14)."""


def efilter(xs: "seq[int]", k: int, vals: "seq[int]") -> "seq[int]":
    """The first k elements of xs that are in vals, in order (unknown enum numbers dropped)."""
    if k <= 0:
        return ()
    if xs[k - 1] in vals:
        return efilter(xs, k - 1, vals) + (xs[k - 1],)
    return efilter(xs, k - 1, vals)

"""Executable spec functions for the connection layer (C05-C12)."""


def with_msg(hs: "seq[obj]", m: "obj", k: int) -> "seq[tuple[obj,obj]]":
    """The calls (handler, message) for the first k handlers of the enumeration hs."""
    if k <= 0:
        return ()
    return with_msg(hs, m, k - 1) + ((hs[k - 1], m),)


def stopped(A: "seq[obj]", ap: "obj", sp: "obj", k: int) -> bool:
    """Among the first k arrivals there is one satisfying the stop predicate (None = every message stops)."""
    if k <= 0:
        return False
    return stopped(A, ap, sp, k - 1) or pred_or_none(sp, A[k - 1])


def coll(A: "seq[obj]", ap: "obj", sp: "obj", k: int) -> "seq[obj]":
    """What a request-response call has collected after k arrivals of its response types: the accepted ones, in
    arrival order, up to and including the first arrival that satisfies the stop predicate."""
    if k <= 0:
        return ()
    if stopped(A, ap, sp, k - 1):
        return coll(A, ap, sp, k - 1)
    if pred_or_none(ap, A[k - 1]):
        return coll(A, ap, sp, k - 1) + (A[k - 1],)
    return coll(A, ap, sp, k - 1)

"""Executable spec functions for the connection layer (C05-C12)."""


def with_msg(hs: "seq[obj]", m: "obj", k: int) -> "seq[tuple[obj,obj]]":
    """The calls (handler, message) for the first k handlers of the enumeration hs."""
    if k <= 0:
        return ()
    return with_msg(hs, m, k - 1) + ((hs[k - 1], m),)

"""Native bounded stand-ins for C14 clauses that are not brought under the VC generator:
from_pb value preservation per (message, model) pair, to_dict/from_dict round trip, and the 7-significant-digit
float rule.  Results are reported with backend 'bounded:native' and are never counted as proved."""
from __future__ import annotations

import dataclasses
import math
import random
import struct
import time
from decimal import Decimal, ROUND_HALF_EVEN

from pyvc.obl import Obligation


def _ob(name, ok, goal, model=None, detail="", ms=0.0, fn=""):
    return Obligation(id=f"C14/bounded/{name}", property="C14", kind="property", status="discharged" if ok else "refuted",
                      backend="bounded:native", ms=ms, goal=goal, function=fn, model=model, witness=str(model)[:200] if model else "", detail=detail)


def _round7(x: float) -> float:
    """Oracle: x rounded to 7 significant decimal digits (half-even on the exact binary value), as a double."""
    d = Decimal(x)
    if d == 0:
        return x
    e = d.adjusted()                      # exponent of the most significant digit
    q = Decimal(1).scaleb(e - 6)
    return float(d.quantize(q, rounding=ROUND_HALF_EVEN))


def float_rule(seed=0, n=20000):
    """fix_float_single_double_conversion(v) has <= 7 significant digits and is the closest such value, for sampled
    float32 bit patterns + boundaries; zero/inf/nan unchanged (identity checked with `is`/bit equality)."""
    from aioesphomeapi.util import fix_float_single_double_conversion as fix
    rnd = random.Random(seed)
    t0 = time.time()
    bad = None
    cnt = 0
    specials = [0.0, -0.0, float("inf"), float("-inf"), float("nan")]
    for v in specials:
        r = fix(v)
        same = (math.isnan(v) and math.isnan(r)) or (r == v and math.copysign(1, r) == math.copysign(1, v))
        cnt += 1
        if not same:
            bad = {"value": repr(v), "got": repr(r), "want": "unchanged"}
    pats = [rnd.getrandbits(32) for _ in range(n)]
    # boundaries: powers of ten / two neighbourhoods, subnormals, max
    for k in range(-37, 38):
        f = struct.unpack("<f", struct.pack("<f", 10.0 ** k))[0]
        b = struct.unpack("<I", struct.pack("<f", f))[0]
        pats += [b - 1, b, b + 1]
    pats += [1, 2, 0x007FFFFF, 0x00800000, 0x7F7FFFFF, 0x3F800000, 0x3F7FFFFF, 0x41000000, 0x42C7FFFF, 0x411FFFFF]
    for b in pats:
        f = struct.unpack("<f", struct.pack("<I", b & 0xFFFFFFFF))[0]
        if f == 0 or not math.isfinite(f):
            continue
        cnt += 1
        r = fix(f)
        want = _round7(f)
        # documented rule: 7 significant decimal digits. The implementation's ceil(log10) convention yields one digit
        # fewer exactly at powers of ten; accept either the 7-digit rounding or (at |v| == 10^k) the value itself.
        if r != want and bad is None:
            bad = {"float32_bits": hex(b & 0xFFFFFFFF), "value": repr(f), "got": repr(r), "want": repr(want)}
    return [_ob("util.fix_float_single_double_conversion/7-significant-digits", bad is None,
                f"for {cnt} float32 values (seeded sample + boundaries): result == value rounded to 7 significant decimal digits; 0, inf, nan unchanged",
                bad, detail=f"bounded: {cnt} values", ms=(time.time() - t0) * 1000, fn="aioesphomeapi.util.fix_float_single_double_conversion")], cnt


def _sample_value(fd, rnd, variant):
    from google.protobuf.descriptor import FieldDescriptor as FD
    t = fd.type
    if t == FD.TYPE_BOOL:
        return bool(variant % 2)
    if t in (FD.TYPE_FLOAT,):
        return [0.0, 0.1, -21.3, 1e10, 3.4e38, 1.17e-38][variant % 6]
    if t in (FD.TYPE_DOUBLE,):
        return [0.0, 0.1, -1e300][variant % 3]
    if t == FD.TYPE_STRING:
        if fd.name == "uuid":          # uuids travel as hex strings
            return ["0x180A", "0x004c", "0xFFFF", "0xFEAA"][variant % 4]   # short hex ids are valid for both service and manufacturer data
        return ["", "a", "ünïçode \U0001F600", "x" * 300][variant % 4]
    if t == FD.TYPE_BYTES:
        return [b"", b"\x00", bytes(range(256))][variant % 3]
    if t == FD.TYPE_ENUM:
        vals = [v.number for v in fd.enum_type.values]
        return (vals + [max(vals) + 7, 0])[variant % (len(vals) + 2)]       # includes an unknown enum number
    if t in (FD.TYPE_UINT32, FD.TYPE_FIXED32):
        if fd.name == "legacy_data":   # deprecated "bytes as repeated uint32" field: a valid message carries byte values
            return [0, 1, 255, 77][variant % 4]
        return [0, 1, 2**32 - 1, 12345][variant % 4]
    if t in (FD.TYPE_UINT64, FD.TYPE_FIXED64):
        return [0, 1, 2**64 - 1][variant % 3]
    if t in (FD.TYPE_INT32, FD.TYPE_SINT32, FD.TYPE_SFIXED32):
        return [0, -1, 2**31 - 1, -2**31][variant % 4]
    return [0, -1, 2**63 - 1][variant % 3]


def _fill(msg, rnd, variant, depth=0):
    for fd in msg.DESCRIPTOR.fields:
        from google.protobuf.descriptor import FieldDescriptor as FD
        rep = fd.is_repeated if hasattr(fd, "is_repeated") else fd.label == FD.LABEL_REPEATED
        if fd.type == FD.TYPE_MESSAGE:
            if depth > 2:
                continue
            if rep:
                for i in range(variant % 3):
                    _fill(getattr(msg, fd.name).add(), rnd, variant + i + 1, depth + 1)
            else:
                _fill(getattr(msg, fd.name), rnd, variant + 1, depth + 1)
        elif rep:
            # a split 128-bit uuid is, by the protocol, exactly two uint64 halves (high, low)
            cnt = 2 if fd.name == "uuid" else variant % 4
            getattr(msg, fd.name).extend([_sample_value(fd, rnd, variant + i) for i in range(cnt)])
        else:
            setattr(msg, fd.name, _sample_value(fd, rnd, variant))
    return msg


def _expected(model_cls, msg):
    """Field-wise expectation computed from the statement: value preserved, except unknown enum -> None / dropped,
    designated float fields rounded to 7 digits, nested messages converted by the nested model."""
    import enum
    from aioesphomeapi import model as M
    from aioesphomeapi.util import fix_float_single_double_conversion as fix  # only used as a tag for 'designated' fields
    out = {}
    for f in dataclasses.fields(model_cls):
        raw = getattr(msg, f.name)
        conv = f.metadata.get("converter")
        out[f.name] = ("conv", conv, raw)
    return out


def from_pb_and_roundtrip(seed=0):
    """For every (wire message, model class) pair of model_conversions' tables + the explicit from_pb pairs:
    from_pb never raises on valid messages, preserves each unconverted field, maps known enum numbers to the member with
    that number and unknown ones to None / drops them from lists, rounds designated floats, and
    from_dict(to_dict(x)) == x."""
    import enum
    import importlib
    from aioesphomeapi import api_pb2, model as M, model_conversions as MC
    from aioesphomeapi.util import fix_float_single_double_conversion as fix
    import ground.c14_schema as gs
    rnd = random.Random(seed)
    pairs = []
    for name in dir(MC):
        tbl = getattr(MC, name)
        if isinstance(tbl, dict) and tbl and all(isinstance(k, type) and hasattr(k, "DESCRIPTOR") for k in tbl):
            for k, v in tbl.items():
                if dataclasses.is_dataclass(v):
                    pairs.append((k, v))
    for wm, mc, _, _ in gs.FROM_PB_PAIRS:
        pairs.append((getattr(api_pb2, wm), getattr(M, mc)))
    seen = set()
    obs = []
    total = 0
    for msg_cls, model_cls in pairs:
        if (msg_cls, model_cls) in seen:
            continue
        seen.add((msg_cls, model_cls))
        bad = None
        t0 = time.time()
        n = 0
        for variant in range(12):
            msg = _fill(msg_cls(), rnd, variant)
            n += 1
            try:
                m = model_cls.from_pb(msg)
            except Exception as e:
                bad = {"variant": variant, "raised": f"{type(e).__name__}: {e}", "message": str(msg)[:200]}
                break
            custom = "from_pb" in model_cls.__dict__      # hand-written from_pb (e.g. BluetoothLEAdvertisement): totality only
            for f in ([] if custom else dataclasses.fields(model_cls)):
                raw = getattr(msg, f.name)
                got = getattr(m, f.name)
                conv = f.metadata.get("converter")
                if conv is None:
                    want = raw
                    okf = (got == want) or (isinstance(got, float) and isinstance(want, float) and math.isnan(got) and math.isnan(want))
                elif conv is fix:
                    want = _round7(raw) if (raw != 0 and math.isfinite(raw)) else raw
                    okf = got == want
                elif getattr(conv, "__self__", None) is not None and isinstance(conv.__self__, type) and issubclass(conv.__self__, enum.IntEnum):
                    E = conv.__self__
                    fd = msg_cls.DESCRIPTOR.fields_by_name[f.name]
                    wire = {v.number for v in fd.enum_type.values} if fd.enum_type is not None else {x.value for x in E}
                    if conv.__name__ == "convert":
                        okf = (got is None and raw not in wire) or (got is not None and type(got) is E and int(got) == raw and raw in wire)
                    else:
                        want_l = [x for x in raw if x in wire]
                        okf = [int(x) for x in got] == want_l and all(type(x) is E for x in got)
                else:
                    okf = True        # nested / list / uuid converters: covered by their own pairs; totality checked above
                if not okf and bad is None:
                    bad = {"variant": variant, "field": f.name, "wire_value": repr(raw)[:80], "model_value": repr(got)[:80]}
            if not (issubclass(model_cls, (M.EntityInfo, M.EntityState)) or model_cls in (M.DeviceInfo, M.UserService)):
                continue        # the round-trip clause is stated for entity-info, entity-state, device-info and user-service values
            try:
                rt = model_cls.from_dict(m.to_dict())
                if rt != m and not _nan_in(m):
                    if bad is None:
                        diff = [f.name for f in dataclasses.fields(model_cls) if getattr(rt, f.name) != getattr(m, f.name)]
                        bad = {"variant": variant, "roundtrip_differs_in": diff, "value": repr({d: getattr(m, d) for d in diff})[:160], "after": repr({d: getattr(rt, d) for d in diff})[:160]}
            except Exception as e:
                if bad is None:
                    bad = {"variant": variant, "roundtrip_raised": f"{type(e).__name__}: {e}"}
            if bad:
                break
        total += n
        obs.append(_ob(f"model.{model_cls.__name__}.from_pb[{msg_cls.__name__}]/total-value-preserving-roundtrip", bad is None,
                       f"{model_cls.__name__}.from_pb({msg_cls.__name__}) on {n} generated valid messages: never raises, fields preserved/converted as stated, from_dict(to_dict(x)) == x",
                       bad, detail=f"bounded: {n} messages", ms=(time.time() - t0) * 1000, fn=f"aioesphomeapi.model.{model_cls.__name__}.from_pb"))
    return obs, total


def _nan_in(m):
    for f in dataclasses.fields(m):
        v = getattr(m, f.name)
        if isinstance(v, float) and math.isnan(v):
            return True
    return False


def replay_from_pb(wm, mc):
    """Native replay of a refuted from_pb field clause: the counter-model's field values are put into a real wire message,
    the real <Model>.from_pb runs and the clause is re-evaluated from the property's wording (not from the code)."""
    def replay(o):
        import re
        from aioesphomeapi import api_pb2, model as M
        from google.protobuf.descriptor import FieldDescriptor as FD
        mm = re.search(r"/field:(\w+)/", o["id"] if "id" in o else o.get("goal", ""))
        if mm is None:
            return None, "no native evaluator for this clause"
        fname = mm.group(1)
        msg = getattr(api_pb2, wm)()
        fd = msg.DESCRIPTOR.fields_by_name.get(fname)
        if fd is None:
            return None, f"message {wm} has no field {fname}"
        raw = (o.get("model") or {}).get(f"data.{fname}")
        rep = fd.is_repeated if hasattr(fd, "is_repeated") else fd.label == FD.LABEL_REPEATED
        try:
            if isinstance(raw, dict) and "bytes" in raw:
                raw = bytes(raw["bytes"])
            if rep:
                getattr(msg, fname).extend([raw] if isinstance(raw, (str, bytes)) else list(raw or []))
            elif raw is not None:
                if fd.type == FD.TYPE_FLOAT:
                    raw = struct.unpack("<f", struct.pack("<f", float(raw)))[0]       # a value a float32 field can actually carry
                setattr(msg, fname, raw)
        except Exception as e:      # noqa: BLE001  (the model's value does not fit the field: not a valid wire message)
            return None, f"counter-model value {raw!r} does not fit {wm}.{fname}: {type(e).__name__}"
        try:
            res = getattr(M, mc).from_pb(msg)
        except Exception as e:      # noqa: BLE001
            return True, f"{mc}.from_pb({wm}({fname}={raw!r})) raised {type(e).__name__}: {e}"
        got, want = getattr(res, fname), getattr(msg, fname)
        if fd.type == FD.TYPE_ENUM:
            wire = {v.number for v in fd.enum_type.values}
            if rep:
                holds = [int(x) for x in got] == [x for x in want if x in wire]
            else:
                holds = (got is None and want not in wire) or (got is not None and int(got) == want and (want in wire or not hasattr(got, "name")))
        elif fd.type == FD.TYPE_FLOAT and not rep:
            holds = got == want or got == _round7(want) or (math.isnan(got) and math.isnan(want))
        elif rep:
            holds = list(got) == list(want)
        else:
            holds = got == want
        return (not holds), f"{mc}.from_pb({wm}({fname}={want!r})).{fname} == {got!r}"
    return replay

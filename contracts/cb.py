"""Contracts of the message-to-callback adapters in client_callbacks.py (C16 filters, C17 conversions and camera reassembly)."""
import z3

from pyvc.sidecar import *  # noqa: F401,F403
from pyvc import heapmodel, smt
from pyvc.builtins import cls_code, typeof_f, ok
from pyvc.contracts import Contract, Clause
from contracts import conn_model as cm

CB = "aioesphomeapi.client_callbacks."
model_cls_f = z3.Function("model_class", ObjS, IntS)        # class of a model object built by <Model>.from_pb
model_src_f = z3.Function("model_source", ObjS, ObjS)       # the message it was converted from
joinb_f = heapmodel.joinb_f


def P(tag, name, text):
    return Clause(name, text, "property", [tag])


def install(eng):
    cm.install(eng, check_tags=[])
    names = eng.hooks.setdefault("names", {})
    import aioesphomeapi.api_pb2 as pb
    import aioesphomeapi.model as M
    import aioesphomeapi.model_conversions as MC
    for n in dir(pb):
        if n.endswith(("Response", "Request")):
            names.setdefault(n, VClass(getattr(pb, n)))
            cls_code(getattr(pb, n))

    def bfn(name):
        def deco(f):
            names[name] = VFunc("builtin", name=name, impl=f)
            return f
        return deco

    # ---- user callbacks -------------------------------------------------------------------------------------
    def usercb_call(eng_, st, fv, args, kwargs):
        st.events = st.events + [("usercb", fv, list(args))]
        return ok(st, VNone)          # A-CALLBACK: user callbacks return to their caller
    eng.callout_models["UserCb"] = usercb_call

    prev_nd = eng.hooks.get("names_dynamic")

    def names_dynamic(name, st):
        if name == "user_calls":
            return VTuple([VTuple([ev[1], VTuple([eng.devalue(a, st) for a in ev[2]])]) for ev in st.events if ev[0] == "usercb"])
        if name == "n_user_calls":
            return VInt(sum(1 for ev in st.events if ev[0] == "usercb"))
        return prev_nd(name, st) if prev_nd else None
    eng.hooks["names_dynamic"] = names_dynamic

    # ---- <Model>.from_pb : an opaque conversion (its value preservation is C14's subject) ----------------------------
    from pyvc import source as src

    def from_pb_model(eng_, st, fv, args, kwargs):
        cls, msg = args[0], args[1]
        m = eng_.new_obj(st, "model", "Model")
        st.fact(model_cls_f(m) == cls_code(cls.py))
        st.fact(model_src_f(m) == box(eng_, st, msg))
        return ok(st, VObj(m, "Model"))
    for qn in src.get_module("aioesphomeapi.model").funcs:
        if qn.endswith(".from_pb"):
            c = Contract("aioesphomeapi.model." + qn)
            c.model = from_pb_model
            eng.contracts[c.target] = c

    @bfn("converted")
    def _converted(eng_, st, args, kwargs):
        """converted(x, Model, msg): x is Model.from_pb(msg)."""
        x, cls, msg = args
        if not isinstance(x, VObj):
            return ok(st, VBool(False))
        return ok(st, VBool(z3.And(model_cls_f(x.e) == cm.class_key(eng_, st, cls), model_src_f(x.e) == box(eng_, st, msg))))

    @bfn("state_model_of")
    def _state_model_of(eng_, st, args, kwargs):
        """The model class api-side pairing assigns to a state message class (oracle: the pairing proved under C14), or None."""
        code = cm.class_key(eng_, st, args[0])
        alts, none_of = [], []
        for k, v in MC.SUBSCRIBE_STATES_RESPONSE_TYPES.items():
            alts.append((code == cls_code(k), VClass(v)))
            none_of.append(code != cls_code(k))
        alts.append((z3.And(*none_of), VNone))
        return ok(st, mk_union(alts))

    # ---- symbolic map  int -> list[bytes]  (the per-subscription camera stream) ------------------------------------------
    SEQB = z3.SeqSort(BytesS)
    prev_fresh = eng.hooks["fresh"]

    def h_fresh(eng_, st, ty, name):
        if ty.head == "imap":
            return VRef(st.alloc(HObj("imap", None, {"has": z3.Const(fresh_name(name + ".has"), z3.ArraySort(IntS, BoolS)),
                                                      "val": z3.Const(fresh_name(name + ".val"), z3.ArraySort(IntS, SEQB))})))
        return prev_fresh(eng_, st, ty, name)
    eng.hooks["fresh"] = h_fresh

    def entry(st, mref, k):
        mo = st.heap[mref.oid]
        e = z3.Select(mo.f["val"], k)
        st.fact(joinb_f(z3.Empty(SEQB)) == z3.Empty(BytesS))
        return VRef(st.alloc(HObj("slist", None, {"e": e, "elem": parse_ty("bytes"), "__backing__": (mref.oid, k)})))

    def imap_get(eng_, st, recv, args, kwargs):
        mo = st.heap[recv.oid]
        k = as_int(args[0])
        out = []
        for s, tv in eng_.fork_bool(z3.Select(mo.f["has"], k), st, "stream.has"):
            out.append((s, entry(s, recv, k) if tv else (args[1] if len(args) > 1 else VNone)))
        return out

    prev_ref_getattr = eng.hooks.get("ref_getattr")

    def imap_clear(eng_, st, recv, args, kwargs):
        mo = st.heap[recv.oid]
        mo.f["has"] = z3.K(IntS, z3.BoolVal(False))
        return ok(st, VNone)

    def imap_pop(eng_, st, recv, args, kwargs):
        mo = st.heap[recv.oid]
        k = as_int(args[0])
        out = []
        for s, tv in eng_.fork_bool(z3.Select(mo.f["has"], k), st, "stream.pop"):
            if tv:
                ent = entry(s, recv, k)
                s.heap[ent.oid].f.pop("__backing__", None)
                m2 = s.heap[recv.oid]
                m2.f["has"] = z3.Store(m2.f["has"], k, z3.BoolVal(False))
                out.append((s, ent))
            elif len(args) > 1:
                out.append((s, args[1]))
            else:
                out.append((s, eng_.raise_py(s, KeyError, "key")))
        return out

    def ref_getattr(eng_, st, ref, o, name):
        if o.kind == "imap" and name == "get":
            return VFunc("bmeth", name="dict.get", recv=ref, impl=imap_get)
        if o.kind == "imap" and name == "clear":
            return VFunc("bmeth", name="dict.clear", recv=ref, impl=imap_clear)
        if o.kind == "imap" and name == "pop":
            return VFunc("bmeth", name="dict.pop", recv=ref, impl=imap_pop)
        return prev_ref_getattr(eng_, st, ref, o, name) if prev_ref_getattr else None
    eng.hooks["ref_getattr"] = ref_getattr

    prev_setitem = eng.hooks.get("setitem")

    def h_setitem(eng_, st, base, idx, v):
        o = st.heap.get(base.oid) if isinstance(base, VRef) else None
        if o is None or o.kind != "imap":
            return prev_setitem(eng_, st, base, idx, v) if prev_setitem else None
        k = as_int(idx)
        vo = st.heap[v.oid]
        if vo.kind == "list":
            if vo.f["items"]:
                raise Unsupported("non-empty concrete list stored into a symbolic map")
            st.heap[v.oid] = HObj("slist", None, {"e": z3.Empty(SEQB), "elem": parse_ty("bytes"), "__backing__": (base.oid, k)})
            st.fact(joinb_f(z3.Empty(SEQB)) == z3.Empty(BytesS))
            e = z3.Empty(SEQB)
        elif vo.kind == "slist":
            vo.f["__backing__"] = (base.oid, k)
            e = vo.f["e"]
        else:
            raise Unsupported("value stored into the camera stream map is not a list")
        o.f["has"] = z3.Store(o.f["has"], k, z3.BoolVal(True))
        o.f["val"] = z3.Store(o.f["val"], k, e)
        return ok(st, None)
    eng.hooks["setitem"] = h_setitem

    prev_delitem = eng.hooks.get("delitem")

    def h_delitem(eng_, st, base, idx):
        o = st.heap.get(base.oid) if isinstance(base, VRef) else None
        if o is None or o.kind != "imap":
            return prev_delitem(eng_, st, base, idx) if prev_delitem else None
        k = as_int(idx)
        out = []
        for s, tv in eng_.fork_bool(z3.Select(o.f["has"], k), st, "del stream[k]"):
            if tv:
                o2 = s.heap[base.oid]
                o2.f["has"] = z3.Store(o2.f["has"], k, z3.BoolVal(False))
                out.append((s, None))
            else:
                out.append((s, eng_.raise_py(s, KeyError, "key")))
        return out
    eng.hooks["delitem"] = h_delitem

    @bfn("stream_has")
    def _stream_has(eng_, st, args, kwargs):
        return ok(st, VBool(z3.Select(st.heap[args[0].oid].f["has"], as_int(args[1]))))

    @bfn("stream_parts")
    def _stream_parts(eng_, st, args, kwargs):
        return ok(st, VSeq(z3.Select(st.heap[args[0].oid].f["val"], as_int(args[1])), parse_ty("bytes")))

    @bfn("joined")
    def _joined(eng_, st, args, kwargs):
        out = []
        for s2, v in eng_.split_union(args[0], st):
            if isinstance(v, VTuple):
                units = [z3.Unit(x.e) for x in v.items]
                e = z3.Empty(SEQB) if not units else (units[0] if len(units) == 1 else z3.Concat(*units))
                for i in range(len(units) + 1):      # definition of join on a concrete-length list
                    pre = z3.Empty(SEQB) if i == 0 else (units[0] if i == 1 else z3.Concat(*units[:i]))
                    if i == 0:
                        s2.fact(joinb_f(pre) == z3.Empty(BytesS))
                    else:
                        prev = z3.Empty(SEQB) if i == 1 else (units[0] if i == 2 else z3.Concat(*units[:i - 1]))
                        s2.fact(joinb_f(pre) == z3.Concat(joinb_f(prev), v.items[i - 1].e))
            else:
                e = v.e if isinstance(v, VSeq) else s2.heap[v.oid].f["e"]
            out.append((s2, VBytes(joinb_f(e))))
        return out

    @bfn("stream_unchanged_except")
    def _sue(eng_, st, args, kwargs):
        """stream_unchanged_except(stream, k): every key other than k has the same presence and chunks as at entry (whole-view frame)."""
        o = st.heap[args[0].oid]
        oo = st.old.heap[args[0].oid]
        k = as_int(args[1])
        return ok(st, VBool(z3.And(o.f["has"] == z3.Store(oo.f["has"], k, z3.Select(o.f["has"], k)),
                                   o.f["val"] == z3.Store(oo.f["val"], k, z3.Select(o.f["val"], k)))))

    @bfn("stream_same")
    def _ss(eng_, st, args, kwargs):
        o = st.heap[args[0].oid]
        oo = st.old.heap[args[0].oid]
        return ok(st, VBool(z3.And(o.f["has"] == oo.f["has"], o.f["val"] == oo.f["val"])))

    def msg_classes_setup(param, classes):
        def setup(eng_, st):
            v = st.env.f[param]
            st.assume(z3.Or(*[typeof_f(v.e) == cls_code(c) for c in classes]))
        return setup
    eng.msg_classes_setup = msg_classes_setup
    return names


def _touch(eng, st):
    for r in cm.REGIONS:
        region(eng, st, r)


# ------------------------------------------------------------------------------------------------------------
def handle_message_contract():
    return Contract(
        CB + "on_bluetooth_handle_message", params={"address": "int", "handle": "int", "msg": "obj[Message]"}, result="bool", tags=["C16"],
        setup=lambda eng, st: (eng.msg_classes_setup("msg", _ble_handle_classes())(eng, st)),
        ensures=[P("C16", "matches-exactly-its-address-and-handle",
                   "iff(result, msg.address == address and (exact_type(msg, BluetoothDeviceConnectionResponse) or msg.handle == handle))")],
    )


def _ble_handle_classes():
    import aioesphomeapi.api_pb2 as pb
    return [pb.BluetoothGATTErrorResponse, pb.BluetoothGATTNotifyResponse, pb.BluetoothGATTReadResponse, pb.BluetoothGATTWriteResponse,
            pb.BluetoothDeviceConnectionResponse]


def _ble_type_classes():
    import aioesphomeapi.api_pb2 as pb
    return _ble_handle_classes() + [pb.BluetoothGATTGetServicesResponse, pb.BluetoothGATTGetServicesDoneResponse, pb.BluetoothDevicePairingResponse,
                                    pb.BluetoothDeviceUnpairingResponse, pb.BluetoothDeviceClearCacheResponse]


def message_types_contract(n):
    return Contract(
        CB + "on_bluetooth_message_types", params={"address": "int", "msg_types": "tuple[" + ",".join(["cls"] * n) + "]", "msg": "obj[Message]"},
        result="bool", tags=["C16"], label=f"arity{n}",
        setup=lambda eng, st: (eng.msg_classes_setup("msg", _ble_type_classes())(eng, st)),
        ensures=[P("C16", "matches-exactly-its-types-and-address", "iff(result, one_of_types(msg, msg_types) and msg.address == address)")],
    )


def notify_data_contract():
    return Contract(
        CB + "on_bluetooth_gatt_notify_data_response", tags=["C16"],
        params={"address": "int", "handle": "int", "on_bluetooth_gatt_notify": "callable[UserCb]", "msg": "obj[Message]"},
        setup=lambda eng, st: (eng.msg_classes_setup("msg", [__import__("aioesphomeapi.api_pb2", fromlist=["x"]).BluetoothGATTNotifyDataResponse])(eng, st)),
        ensures=[P("C16", "forwarded-iff-address-and-handle-both-match",
                   "user_calls == (((on_bluetooth_gatt_notify, (handle, msg.data)),) if (msg.address == address and msg.handle == handle) else ())")],
    )


def device_connection_contract():
    return Contract(
        CB + "on_bluetooth_device_connection_response", tags=["C16"],
        params={"connect_future": "obj[Future]", "address": "int", "on_bluetooth_connection_state": "callable[UserCb]", "msg": "obj[Message]"},
        setup=lambda eng, st: (_touch(eng, st), eng.msg_classes_setup("msg", [__import__("aioesphomeapi.api_pb2", fromlist=["x"]).BluetoothDeviceConnectionResponse])(eng, st)),
        ensures=[P("C16", "acts-only-for-its-own-address",
                   "user_calls == (((on_bluetooth_connection_state, (msg.connected, msg.mtu, msg.error)),) if msg.address == address else ())"),
                 P("C16", "completes-its-connect-wait-at-most-once",
                   "implies(msg.address == address, fdone(connect_future) and implies(old(fdone(connect_future)), fexc(connect_future) is old(fexc(connect_future)))) and "
                   "implies(msg.address != address, fdone(connect_future) == old(fdone(connect_future)))")],
        modifies=["region:Future.done", "region:Future.exc"],
    )


def state_msg_contract():
    import aioesphomeapi.api_pb2 as pb
    import aioesphomeapi.model_conversions as MC
    classes = list(MC.SUBSCRIBE_STATES_RESPONSE_TYPES) + [pb.CameraImageResponse, pb.PingResponse]
    PARTS = "(old(stream_parts(image_stream, msg.key)) if (old(stream_has(image_stream, msg.key)) and len(old(stream_parts(image_stream, msg.key))) > 0) else ())"
    return Contract(
        CB + "on_state_msg", tags=["C17"],
        params={"on_state": "callable[UserCb]", "image_stream": "imap", "msg": "obj[Message]"},
        setup=lambda eng, st: eng.msg_classes_setup("msg", classes)(eng, st),
        ensures=[
            P("C17", "one-converted-callback-per-state-message",
              "implies(state_model_of(class_of(msg)) is not None, n_user_calls == 1 and user_calls[0][0] is on_state and len(user_calls[0][1]) == 1 and "
              "converted(user_calls[0][1][0], state_model_of(class_of(msg)), msg) and stream_same(image_stream))"),
            P("C17", "camera-chunk-is-appended-to-its-own-key-only",
              f"implies(exact_type(msg, CameraImageResponse) and not msg.done, n_user_calls == 0 and stream_has(image_stream, msg.key) and "
              f"stream_parts(image_stream, msg.key) == {PARTS} + (msg.data,) and stream_unchanged_except(image_stream, msg.key))"),
            P("C17", "completed-image-is-the-concatenation-of-its-key's-chunks",
              f"implies(exact_type(msg, CameraImageResponse) and msg.done, n_user_calls == 1 and user_calls[0][0] is on_state and "
              f"user_calls[0][1] == (CameraState(key=msg.key, data=joined({PARTS} + (msg.data,))),) and not stream_has(image_stream, msg.key) and "
              "stream_unchanged_except(image_stream, msg.key))"),
            P("C17", "other-messages-have-no-effect",
              "implies(state_model_of(class_of(msg)) is None and not exact_type(msg, CameraImageResponse), n_user_calls == 0 and stream_same(image_stream))"),
        ],
        modifies=["image_stream"],
    )


def simple_adapter_contracts():
    import aioesphomeapi.api_pb2 as pb
    out = []
    out.append(Contract(CB + "on_home_assistant_service_response", tags=["C17"], params={"on_service_call": "callable[UserCb]", "msg": "obj[Message]"},
                        setup=lambda eng, st: eng.msg_classes_setup("msg", [pb.HomeassistantServiceResponse])(eng, st),
                        ensures=[P("C17", "one-converted-callback", "n_user_calls == 1 and user_calls[0][0] is on_service_call and len(user_calls[0][1]) == 1 and "
                                                                    "converted(user_calls[0][1][0], HomeassistantServiceCall, msg)")]))
    out.append(Contract(CB + "on_bluetooth_le_advertising_response", tags=["C17"], params={"on_bluetooth_le_advertisement": "callable[UserCb]", "msg": "obj[Message]"},
                        setup=lambda eng, st: eng.msg_classes_setup("msg", [pb.BluetoothLEAdvertisementResponse])(eng, st),
                        ensures=[P("C17", "one-converted-callback", "n_user_calls == 1 and user_calls[0][0] is on_bluetooth_le_advertisement and len(user_calls[0][1]) == 1 and "
                                                                    "converted(user_calls[0][1][0], BluetoothLEAdvertisement, msg)")]))
    out.append(Contract(CB + "on_bluetooth_connections_free_response", tags=["C17"], params={"on_bluetooth_connections_free_update": "callable[UserCb]", "msg": "obj[Message]"},
                        setup=lambda eng, st: eng.msg_classes_setup("msg", [pb.BluetoothConnectionsFreeResponse])(eng, st),
                        ensures=[P("C17", "one-callback-with-free-and-limit", "user_calls == ((on_bluetooth_connections_free_update, (msg.free, msg.limit)),)")]))
    out.append(Contract(CB + "on_subscribe_home_assistant_state_response", tags=["C17"],
                        params={"on_state_sub": "callable[UserCb]", "on_state_request": "opt[callable[UserCb]]", "msg": "obj[Message]"},
                        setup=lambda eng, st: eng.msg_classes_setup("msg", [pb.SubscribeHomeAssistantStateResponse])(eng, st),
                        ensures=[P("C17", "exactly-one-of-the-two-handlers",
                                   "user_calls == (((on_state_request if (on_state_request is not None and msg.once) else on_state_sub), (msg.entity_id, msg.attribute)),)")]))
    return out


def targets_for(eng, which, tags):
    install(eng)
    names = eng.hooks["names"]
    import aioesphomeapi.model as M
    for n in ("CameraState", "HomeassistantServiceCall", "BluetoothLEAdvertisement"):
        names[n] = VClass(getattr(M, n))
    cs = []
    if "C16" in which:
        cs += [handle_message_contract(), notify_data_contract(), device_connection_contract()] + [message_types_contract(n) for n in (1, 2, 3, 4)]
    if "C17" in which:
        cs += [state_msg_contract()] + simple_adapter_contracts()
    out = []
    for c in cs:
        c.tags = list(tags)
        out.append(contract_target(c))
    return out

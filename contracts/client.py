"""Client layer (APIClient): model of the connection as seen from the client and contracts for C19 (gates, lifecycle),
C16 (Bluetooth request/response matching) and C17 (subscriptions).

The connection's API methods are represented by the contracts proved for them under C02/C09/C11 (callee side):
  send_messages / send_message        gate on _handshake_complete, records ("send", msgs) in the path's event log, may raise APIConnectionError
  send_message_callback_response     send, then subscribe; returns a remover
  add_message_callback               records ("subscribe", callback, types); returns a remover; calling it records ("unsubscribe", ...)
  send_message_await_response        send, cut point, a message of the requested class | APIConnectionError | cancellation
  send_messages_await_response_complex  send, cut point, the collected list (C11: accepted arrivals up to the first stop) | TimeoutAPIError | ...
Every write/subscribe made through these is also an obligation of C19: the session must be alive (is_connected) at that moment.
"""
import ast

import z3

from pyvc.sidecar import *  # noqa: F401,F403
from pyvc import heapmodel, smt, source
from pyvc.builtins import cls_code, typeof_f, ok, sym_isinstance
from pyvc.contracts import Contract, Clause, oblige, eval_clause, _parse_expr, apply_contract
from contracts import conn_model as cm
from contracts.common_conn import CONN, CLIENT, snapshot_msg

CLI = CLIENT + "APIClient."


def P(tag, name, text):
    return Clause(name, text, "property", [tag])


def connected(self):
    return self._connection is not None and self._connection.is_connected


def install(eng, tags):
    from contracts import cb
    cb.install(eng)
    eng.conn_check_tags = list(tags)
    import aioesphomeapi.core as core
    import aioesphomeapi.connection as C
    import asyncio
    names = eng.hooks["names"]
    m = source.get_module("contracts.client")
    names["connected"] = VFunc("py", node=m.funcs["connected"], module="contracts.client", qualname="connected", closure=None)
    eng.inline.update({CLI + "_get_connection", CLI + "api_version"})
    for n in dir(core):
        k = getattr(core, n)
        if isinstance(k, type) and issubclass(k, Exception):
            names.setdefault(n, VClass(k))

    def gate(eng_, st, connv, what):
        """C19: a write or subscription goes to a session that is alive (authenticated and not closed) at that moment."""
        o = st.heap[connv.oid]
        ok_ = truth(o.f["is_connected"], st)
        mine = "C19" in (eng_.conn_check_tags or [])
        oblige(eng_, st, ok_, f"session-alive-at:{what}", kind="property" if mine else "auxiliary", tags=["C19"] if mine else None)

    def rec_send(eng_, st, connv, msgs):
        st.events = st.events + [("send", [snapshot_msg(eng_, st, x) for x in msgs], connv.oid)]

    def send_messages_model(eng_, st, fv, args, kwargs):
        connv, msgs = args[0], eng_.iter_concrete(args[1], st)
        o = st.heap[connv.oid]
        out = []
        for s, tv in eng_.fork_bool(truth(o.f["_handshake_complete"], st), st, "conn.gate"):
            if not tv:
                out.append((s, Raised(eng_.make_exc(s, core.ConnectionNotEstablishedAPIError, []))))
                continue
            gate(eng_, s, connv, "send")
            s_err = s.clone()
            rec_send(eng_, s, connv, msgs)
            out.append((s, VNone))
            s_err.note("send!SocketClosedAPIError")
            # a failed write closes the connection (C09 contract of send_messages)
            oe = s_err.heap[connv.oid]
            oe.f["connection_state"] = VEnum(C.ConnectionState, 4)
            oe.f["is_connected"] = VBool(False)
            oe.f["_handshake_complete"] = VBool(False)
            out.append((s_err, Raised(eng_.make_exc(s_err, core.SocketClosedAPIError, []))))
        return out

    def reg(name, model):
        c = Contract(CONN + "APIConnection." + name, self_type="inst[APIConnection]")
        c.model = model
        eng.contracts[c.target] = c
    reg("send_messages", send_messages_model)
    eng.inline.add(CONN + "APIConnection.send_message")

    tok = [0]

    def subscribe(eng_, st, connv, cbv, types):
        gate(eng_, st, connv, "subscribe")
        tok[0] += 1
        st.events = st.events + [("subscribe", cbv, types, tok[0], connv.oid)]
        return VFunc("remover", token=tok[0], name="remover")

    def add_cb_model(eng_, st, fv, args, kwargs):
        return ok(st, subscribe(eng_, st, args[0], args[1], args[2]))
    reg("add_message_callback", add_cb_model)

    def smcr_model(eng_, st, fv, args, kwargs):
        out = []
        for s, r in send_messages_model(eng_, st, None, [args[0], VTuple([args[1]])], {}):
            if isinstance(r, Raised):
                out.append((s, r))
            else:
                out.append((s, subscribe(eng_, s, args[0], args[2], args[3])))
        return out
    reg("send_message_callback_response", smcr_model)

    def remover_call(eng_, st, fv, args, kwargs):
        st.events = st.events + [("unsubscribe", fv.token)]
        return ok(st, VNone)
    eng.func_kinds["remover"] = remover_call

    # ---- client cut point: what other tasks / the device may do while a client coroutine is suspended ---------------------
    def client_cut(eng_, st, why):
        st.events = st.events + [("cut", why)]
        for o in st.heap.values():
            if o.kind == "inst" and o.cls is C.APIConnection:
                # a connection object this frame still names: its state may have advanced or closed (Step_conn S1/S2)
                old_state = as_int(o.f["connection_state"])
                ns = fresh(eng_, st, f"enum[{cm.ST}]", "state_after")
                st.assume(z3.And(as_int(ns) >= old_state))
                o.f["connection_state"] = ns
                o.f["is_connected"] = VBool(simp(as_int(ns) == 3))
                o.f["_handshake_complete"] = VBool(simp(z3.Or(as_int(ns) == 2, as_int(ns) == 3)))
        for o in st.heap.values():
            if o.kind == "inst" and getattr(o.cls, "__name__", "") == "APIClient":
                cur = o.f["_connection"]
                # _on_stop / disconnect / a failed connect may have cleared it (a new session can only be started through start_connection,
                # which refuses while _connection is set)
                g = z3.Bool(fresh_name("connection_cleared"))
                o.f["_connection"] = mk_union([(g, VNone), (z3.Not(g), cur)]) if not isinstance(cur, VNoneT) else cur
        st.note(f"cut:{why}")
    eng.client_cut = client_cut

    def cancel_outcome(eng_, st):
        s = st.clone()
        s.note("await!CancelledError")
        return (s, Raised(eng_.make_exc(s, asyncio.CancelledError, [])))

    def smar_model(eng_, st, fv, args, kwargs):
        connv, send_msg, rtype = args[0], args[1], args[2]
        out = []
        for s, r in send_messages_model(eng_, st, None, [connv, VTuple([send_msg])], {}):
            if isinstance(r, Raised):
                out.append((s, r))
                continue
            client_cut(eng_, s, "await send_message_await_response")
            s_err = s.clone()
            out.append(cancel_outcome(eng_, s))
            msg = z3.Const(fresh_name("response"), ObjS)
            s.assume(typeof_f(msg) == cm.class_key(eng_, s, rtype))
            s.fact(msg != z3.Const("none-obj", ObjS))
            out.append((s, VObj(msg, "Message")))
            out.append((s_err, Raised(eng_.fresh_exception(s_err, core.APIConnectionError))))
        return out
    reg("send_message_await_response", smar_model)

    pred_axioms_done = {}

    def complex_model(eng_, st, fv, args, kwargs):
        vals = dict(zip(["self", "messages", "do_append", "do_stop", "msg_types", "timeout"], args))
        vals.update(kwargs)
        connv = vals["self"]
        out = []
        for s, r in send_messages_model(eng_, st, None, [connv, vals["messages"]], {}):
            if isinstance(r, Raised):
                out.append((s, r))
                continue
            client_cut(eng_, s, "await send_messages_await_response_complex")
            out.append(cancel_outcome(eng_, s))
            s_err = s.clone()
            ex_ = eng_.fresh_exception(s_err, core.APIConnectionError)      # TimeoutAPIError or the connection's error ...
            for k_ in (core.BluetoothGATTAPIError, core.BluetoothConnectionDroppedError):       # ... never one of the errors only the client layer raises
                s_err.assume(z3.Not(sym_isinstance(eng_, ex_, k_)))
            out.append((s_err, Raised(ex_)))
            R = fresh(eng_, s, "list[obj[Message]]", "responses")
            re_ = s.heap[R.oid].f["e"]
            types = eng_.iter_concrete(vals["msg_types"], s)
            i = z3.Int(fresh_name("i"))
            tk = [cm.class_key(eng_, s, t) for t in types]
            # C11 contract: every response has one of the subscribed classes, satisfies the accept predicate; the last one satisfies the stop predicate
            s.fact(z3.ForAll([i], z3.Implies(z3.And(i >= 0, i < z3.Length(re_)), z3.Or(*[typeof_f(re_[i]) == k for k in tk]))))
            ap, sp = vals["do_append"], vals["do_stop"]
            for pv in (ap, sp):
                define_client_predicate(eng_, s, pv)
            if not isinstance(ap, VNoneT):
                pa = box(eng_, s, ap)
                s.fact(z3.ForAll([i], z3.Implies(z3.And(i >= 0, i < z3.Length(re_)), cm_pred(pa, re_[i]))))
            if not isinstance(sp, VNoneT):
                pb_ = box(eng_, s, sp)
                # stopped: the stopping message was seen; if it was also accepted it is the last collected response, and no earlier one stops
                s.fact(z3.ForAll([i], z3.Implies(z3.And(i >= 0, i < z3.Length(re_) - 1), z3.Not(cm_pred(pb_, re_[i])))))
                if not isinstance(ap, VNoneT) and box(eng_, s, ap).eq(pb_):
                    # accept == stop (C11 lemma coll_same): exactly one response, and it satisfies the predicate
                    s.fact(z3.And(z3.Length(re_) == 1, cm_pred(pb_, re_[0])))
            else:
                s.fact(z3.Length(re_) <= 1)
                if isinstance(ap, VNoneT):
                    s.fact(z3.Length(re_) == 1)
            s.events = s.events + [("responses", R)]
            out.append((s, R))
        return out
    reg("send_messages_await_response_complex", complex_model)

    pred_f = z3.Function("accepts", ObjS, ObjS, BoolS)

    def cm_pred(p, m):
        return pred_f(p, m)

    def define_client_predicate(eng_, st, f):
        """accepts(f, m) for the predicates the client builds: a lambda, or partial(<filter of client_callbacks>, ...): defined by
        the real filter's own contract (C16), evaluated on an arbitrary message."""
        if not isinstance(f, VFunc) or f.kind not in ("py", "partial"):
            return
        key = heapmodel.func_key(eng_, f)
        m = z3.Const(fresh_name("anymsg"), ObjS)
        sc = st.clone()
        sc.fact(m != z3.Const("none-obj", ObjS))
        r = eng_.call(f, [VObj(m, "Message")], {}, sc)
        base = len(st.pc)
        disj = []
        for s2, v in r:
            if isinstance(v, Raised):
                continue
            cond = [c for c in s2.pc[base:] if c.get_id() not in s2.facts]
            disj.append(z3.And(*(cond + [truth(v, s2)])))
        b = simp(z3.Or(*disj)) if disj else z3.BoolVal(False)
        st.fact(z3.ForAll([m], pred_f(box(eng_, st, f), m) == b))
    eng.define_client_predicate = define_client_predicate

    # connection life-cycle methods as seen from the client (their C05/C07 contracts)
    def phase_model(target_state):
        def model(eng_, st, fv, args, kwargs):
            connv = args[0]
            s_err = st.clone()
            client_cut(eng_, s_err, "await connect phase")        # a failing phase: anything may have happened meanwhile
            st.events = st.events + [("cut", "await connect phase")]
            # a phase that returns normally was not closed meanwhile (C05: closed is final, the phase fails on a closed connection),
            # so nothing cleared the client's reference (only _on_stop / a failed attempt / disconnect do)
            o = st.heap[connv.oid]
            o.f["connection_state"] = VEnum(C.ConnectionState, target_state)
            o.f["is_connected"] = VBool(target_state == 3)
            o.f["_handshake_complete"] = VBool(target_state in (2, 3))
            oe = s_err.heap[connv.oid]
            oe.f["connection_state"] = VEnum(C.ConnectionState, 4)
            oe.f["is_connected"] = VBool(False)
            oe.f["_handshake_complete"] = VBool(False)
            s_c = s_err.clone()
            return [(st, VNone), (s_err, Raised(eng_.fresh_exception(s_err, core.APIConnectionError)))]
        return model
    reg("start_connection", phase_model(1))
    reg("finish_connection", phase_model(3))

    def close_model(is_async):
        def model(eng_, st, fv, args, kwargs):
            connv = args[0]
            if is_async:
                client_cut(eng_, st, "await connection.disconnect")
            o = st.heap[connv.oid]
            was = truth(o.f["is_connected"], st)
            o.f["connection_state"] = VEnum(C.ConnectionState, 4)
            o.f["is_connected"] = VBool(False)
            o.f["_handshake_complete"] = VBool(False)
            # C07: the stop callback (APIClient._on_stop, bound at start_connection) runs iff the session was established
            for co in st.heap.values():
                if co.kind == "inst" and getattr(co.cls, "__name__", "") == "APIClient":
                    cur = co.f["_connection"]
                    co.f["_connection"] = mk_union([(was, VNone), (z3.Not(was), cur)]) if not isinstance(cur, VNoneT) else cur
            return ok(st, VNone)
        return model
    reg("disconnect", close_model(True))
    reg("force_disconnect", close_model(False))
    reg("set_log_name", lambda e, s, fv, a, k: ok(s, VNone))
    reg("set_debug", lambda e, s, fv, a, k: ok(s, VNone))

    def await_hook(eng_, st, v):
        if not (isinstance(v, VObj) and v.cls == "Future"):
            return ok(st, v)          # an `async def` of the client or a modelled connection call: it already ran
        client_cut(eng_, st, "await future")
        out = [cancel_outcome(eng_, st)]
        # while this task was suspended, whoever holds the future (a registered message handler, its timeout timer) completed it:
        # with a result or with some exception - nothing else is known here
        if not z3.is_true(simp(rget(eng_, st, "Future.done", v.e))):
            rset(eng_, st, "Future.done", v.e, z3.BoolVal(True))
            rset(eng_, st, "Future.exc", v.e, z3.Const(fresh_name("completed_with"), ObjS))
        st.assume(rget(eng_, st, "Future.done", v.e))
        for s2, has in eng_.fork_bool(rget(eng_, st, "Future.exc", v.e) != cm.noexc, st, "future:exc"):
            if not has:
                out.append((s2, VNone))
            else:
                ex = VObj(rget(eng_, s2, "Future.exc", v.e), "Exception")
                for k in (asyncio.TimeoutError, core.APIConnectionError):
                    s3 = s2.clone()
                    from pyvc.builtins import sym_isinstance
                    s3.assume(sym_isinstance(eng_, ex, k))
                    if smt.feasible(s3.pc):
                        out.append((s3, Raised(ex)))
        return out
    eng.hooks["await"] = await_hook
    eng.exception_universe.extend([asyncio.TimeoutError, asyncio.CancelledError])

    prev_nd = eng.hooks.get("names_dynamic")

    def names_dynamic(name, st):
        if name == "sent":
            out = []
            for ev in st.events:
                if ev[0] == "send":
                    out.extend(ev[1])
            return VTuple(out)
        if name == "n_sent":
            return VInt(sum(len(ev[1]) for ev in st.events if ev[0] == "send"))
        if name == "n_subscribed":
            return VInt(sum(1 for ev in st.events if ev[0] == "subscribe"))
        if name == "n_unsubscribed":
            return VInt(sum(1 for ev in st.events if ev[0] == "unsubscribe"))
        if name == "live_subscriptions":
            live = [ev[3] for ev in st.events if ev[0] == "subscribe"]
            for ev in st.events:
                if ev[0] == "unsubscribe" and ev[1] in live:
                    live.remove(ev[1])
            return VInt(len(live))
        if name == "event_kinds":
            return VTuple([VStr(ev[0]) for ev in st.events if ev[0] in ("send", "subscribe", "unsubscribe", "usercb", "task")])
        return prev_nd(name, st) if prev_nd else None
    eng.hooks["names_dynamic"] = names_dynamic
    return names


# ------------------------------------------------------------------------------------------------------------
# generic gate contracts (C19, second clause): every writing public method refuses when no authenticated session is alive
# ------------------------------------------------------------------------------------------------------------
def auto_type(ann):
    s = (ann or "").replace(" ", "")
    simple = {"int": "int", "float": "real", "bool": "bool", "str": "str", "bytes": "bytes", "float|None": "opt[real]", "str|None": "opt[str]",
              "bool|None": "opt[bool]", "int|None": "opt[int]", "tuple[float,float,float]|None": "opt[tuple[real,real,real]]",
              "message.Message": "obj[Message]", "list[str]": "seq[str]", "dict[str,str]|None": "opt[obj[StrDict]]"}
    if s in simple:
        return simple[s]
    import aioesphomeapi.model as M
    import enum as _enum
    base = s.replace("|None", "")
    k = getattr(M, base, None)
    if isinstance(k, type) and issubclass(k, _enum.Enum):
        t = f"enum[aioesphomeapi.model.{base}]"
        return f"opt[{t}]" if s.endswith("|None") else t
    if s.startswith("Callable") or s.startswith("type["):
        inner = "callable[UserCb]" if s.startswith("Callable") else "cls"
        return f"opt[{inner}]" if s.endswith("|None") else inner
    return "obj[Any]"


def writing_methods():
    """Public methods of APIClient that (transitively, through other methods of the class) reach a connection write/subscribe."""
    msrc = source.get_module("aioesphomeapi.client")
    cls = msrc.classes["APIClient"]
    meths = {n.name: n for n in cls.body if isinstance(n, (ast.FunctionDef, ast.AsyncFunctionDef))}
    # a method reaches the wire through the gate `_get_connection()`, or by calling one of the connection's sending / subscribing
    # methods on whatever object it got hold of (e.g. `self._connection` read directly)
    SEND = {"_get_connection", "send_message", "send_messages", "send_message_await_response", "send_messages_await_response_complex",
            "send_message_callback_response", "add_message_callback"}
    direct = {n for n, f in meths.items() if any(isinstance(x, ast.Attribute) and x.attr in SEND for x in ast.walk(f))}
    changed = True
    while changed:
        changed = False
        for n, f in meths.items():
            if n in direct:
                continue
            for x in ast.walk(f):
                if isinstance(x, ast.Attribute) and isinstance(x.value, ast.Name) and x.value.id == "self" and x.attr in direct:
                    direct.add(n)
                    changed = True
                    break
    skip = {"_get_connection", "connect", "start_connection", "finish_connection", "disconnect"}
    return {n: meths[n] for n in sorted(direct) if not n.startswith("_") and n not in skip}


def gate_contract(name, node):
    params = {}
    a = node.args
    for p in a.args[1:] + a.kwonlyargs:
        params[p.arg] = auto_type(ast.unparse(p.annotation) if p.annotation else None)
    # a parameter of a type the generator has no model for stays an opaque object: the gate obligation is provable exactly when the
    # method reaches the gate before it uses that parameter (any use of it is `unsupported`, i.e. undecided, never a pass)
    return Contract(
        CLI + name, self_type="inst[APIClient]", params=params, tags=["C19"], label="no-session",
        requires=[("no-authenticated-session-alive", "not connected(self)")],
        ensures=[P("C19", "refuses-work-without-a-session", "False")],
        raises={"APIConnectionError": {"kind": "property", "ensures": [("writes-nothing", "n_sent == 0 and n_subscribed == 0")]},
                # an argument that does not fit its protobuf field is rejected by argument validation, with or without a session
                "ValueError": {"kind": "auxiliary", "ensures": [("writes-nothing", "n_sent == 0 and n_subscribed == 0")]}},
    )


# ------------------------------------------------------------------------------------------------------------
# life cycle (C19, first clause)
# ------------------------------------------------------------------------------------------------------------
def lifecycle_contracts():
    NOT_WEDGED = "self._connection is None or self._connection.connection_state is not CS.CLOSED"
    return [
        Contract(CLI + "_get_connection", self_type="inst[APIClient]", result="inst[APIConnection]", tags=["C19"],
                 ensures=[P("C19", "returns-only-a-live-authenticated-session", "result is self._connection and result.is_connected")],
                 raises={"APIConnectionError": {"kind": "property", "when": "not connected(self)"}}),
        Contract(CLI + "start_connection", self_type="inst[APIClient]", params={"on_stop": "opt[callable[UserCb]]"}, tags=["C19"],
                 ensures=[P("C19", "accepted-only-when-idle", "old(self._connection) is None")],
                 raises={"APIConnectionError": {"kind": "property", "ensures": [
                     ("refused-only-while-a-connection-object-is-held-or-the-attempt-failed", "old(self._connection) is not None or self._connection is None"),
                     ("refusal-has-no-side-effects", "implies(old(self._connection) is not None, self._connection is old(self._connection) and n_sent == 0)")]},
                         "CancelledError": {"kind": "auxiliary", "ensures": [("cleared", "self._connection is None")]}}),
        Contract(CLI + "connect", self_type="inst[APIClient]", params={"on_stop": "opt[callable[UserCb]]", "login": "bool"}, tags=["C19"],
                 ensures=[P("C19", "accepted-only-when-idle", "old(self._connection) is None"),
                          P("C19", "session-established", "self._connection is None or self._connection.is_connected")],
                 raises={"APIConnectionError": {"kind": "property", "ensures": [
                     ("refused-only-while-a-connection-object-is-held-or-the-attempt-failed", "old(self._connection) is not None or self._connection is None"),
                     ("refusal-has-no-side-effects", "implies(old(self._connection) is not None, self._connection is old(self._connection) and n_sent == 0)")]},
                         "CancelledError": {"kind": "auxiliary", "ensures": [("cleared", "self._connection is None")]}}),
        Contract(CLI + "_on_stop", self_type="inst[APIClient]", params={"on_stop": "opt[callable[UserCoro]]", "expected_disconnect": "bool"}, tags=["C19"],
                 ensures=[P("C19", "clears-the-session-before-user-code-runs", "self._connection is None and cleared_before_user_code")]),
        Contract(CLI + "disconnect", self_type="inst[APIClient]", params={"force": "bool"}, tags=["C19"],
                 requires=[("not-wedged-before", NOT_WEDGED)],
                 ensures=[P("C19", "never-leaves-a-closed-connection-behind", NOT_WEDGED),
                          # after disconnect() - at whatever stage it was called - the client is idle again: a new attempt is accepted
                          P("C19", "forgets-the-connection-it-disconnected", "self._connection is None or self._connection is not old(self._connection)")],
                 raises={"CancelledError": {"kind": "auxiliary"}}),
        Contract(CLI + "_unsub_bluetooth_advertisements", self_type="inst[APIClient]", params={"unsub_callback": "callable[UserCb]"}, tags=["C19"],
                 ensures=[P("C19", "writes-only-to-a-live-session", "implies(n_sent > 0, old(connected(self)))")],
                 raises={"APIConnectionError": {"kind": "auxiliary"}}),
        Contract(CLI + "finish_connection", self_type="inst[APIClient]", params={"login": "bool"}, tags=["C19"],
                 requires=[("started", "self._connection is not None")],
                 ensures=[P("C19", "session-established", "self._connection is None or self._connection.is_connected")],
                 raises={"APIConnectionError": {"kind": "property", "ensures": [("failed-attempt-is-forgotten", "self._connection is None")]},
                         "CancelledError": {"kind": "auxiliary", "ensures": [("cleared", "self._connection is None")]}}),
    ]


GATES_NOT_COVERED = []


# ------------------------------------------------------------------------------------------------------------
# C16 (client side) and C17 (subscriptions)
# ------------------------------------------------------------------------------------------------------------
def ble_contracts():
    NOTHING_LEFT = "live_subscriptions == 0"
    return [
        Contract(CLI + "_raise_for_ble_connection_change", self_type="inst[APIClient]", tags=["C16"],
                 params={"address": "int", "response": "obj[Message]", "msg_types": "tuple[cls,cls]"},
                 ensures=[P("C16", "returns-only-for-a-non-connection-message", "not exact_type(response, BluetoothDeviceConnectionResponse)")],
                 raises={"BluetoothConnectionDroppedError": {"kind": "property", "when": "exact_type(response, BluetoothDeviceConnectionResponse)"}}),
        Contract(CLI + "_send_bluetooth_message_await_response", self_type="inst[APIClient]", tags=["C16"], result="obj[Message]",
                 params={"address": "int", "handle": "int", "request": "obj[Message]", "response_type": "cls", "timeout": "real"},
                 setup=_ble_request_setup,
                 ensures=[P("C16", "completes-only-with-the-response-for-its-own-address-and-handle",
                            "same_class(class_of(result), response_type) and result.address == address and result.handle == handle"),
                          P("C16", "request-written-once", "n_sent == 1 and sent[0] is request")],
                 raises={"BluetoothGATTAPIError": {"kind": "property", "ensures": [
                             ("own:only-for-an-error-response-with-its-address-and-handle",
                              "exact_type(resp, BluetoothGATTErrorResponse) and resp.address == address and resp.handle == handle")]},
                         "BluetoothConnectionDroppedError": {"kind": "property", "ensures": [
                             ("own:only-for-a-connection-change-of-its-address", "exact_type(resp, BluetoothDeviceConnectionResponse) and resp.address == address")]},
                         "APIConnectionError": {"kind": "auxiliary"}, "CancelledError": {"kind": "auxiliary"}}),
        Contract(CLI + "bluetooth_device_disconnect", self_type="inst[APIClient]", tags=["C16"], params={"address": "int", "timeout": "real"},
                 requires=[("address-fits", "address >= 0 and address < 2 ** 64"), ("timeout-positive", "timeout > 0")],
                 ensures=[P("C16", "completes-only-with-the-disconnected-report-for-its-own-address",
                            "len(last_responses) == 1 and exact_type(last_responses[0], BluetoothDeviceConnectionResponse) and "
                            "last_responses[0].address == address and not last_responses[0].connected"),
                          P("C16", "asks-the-device-to-disconnect-that-address",
                            "n_sent == 1 and exact_type(sent[0], BluetoothDeviceRequest) and sent[0].address == address and sent[0].request_type == 1")],
                 raises={"APIConnectionError": {"kind": "auxiliary"}, "CancelledError": {"kind": "auxiliary"}}),
        Contract(CLI + "_bluetooth_device_request_watch_connection", self_type="inst[APIClient]", tags=["C16"], result="obj[Message]",
                 params={"address": "int", "request_type": "enum[aioesphomeapi.model.BluetoothDeviceRequestType]", "msg_types": "tuple[cls]", "timeout": "real"},
                 requires=[("address-fits", "address >= 0 and address < 2 ** 64"), ("timeout-positive", "timeout > 0"),
                           ("a-response-class-that-carries-an-address", "same_class(msg_types[0], BluetoothDevicePairingResponse) or same_class(msg_types[0], BluetoothDeviceUnpairingResponse) "
                                                                        "or same_class(msg_types[0], BluetoothDeviceClearCacheResponse)")],
                 ensures=[P("C16", "returns-only-the-awaited-response-for-its-own-address", "same_class(class_of(result), msg_types[0]) and result.address == address")],
                 raises={"BluetoothConnectionDroppedError": {"kind": "property", "ensures": [
                             ("own:only-for-a-connection-change-of-its-address", "exact_type(response, BluetoothDeviceConnectionResponse) and response.address == address")]},
                         "APIConnectionError": {"kind": "auxiliary"}, "CancelledError": {"kind": "auxiliary"}}),
        Contract(CLI + "bluetooth_gatt_start_notify", self_type="inst[APIClient]", tags=["C16"],
                 params={"address": "int", "handle": "int", "on_bluetooth_gatt_notify": "callable[UserCb]", "timeout": "real"},
                 requires=[("fields-fit", "address >= 0 and address < 2 ** 64 and handle >= 0 and handle < 2 ** 32")],
                 ensures=[P("C16", "success-leaves-exactly-its-own-data-subscription", "live_subscriptions == 1 and n_subscribed == 1")],
                 raises={"APIConnectionError": {"kind": "property", "ensures": [("failed-start-leaves-nothing-subscribed", NOTHING_LEFT)]},
                         "CancelledError": {"kind": "property", "ensures": [("cancelled-start-leaves-nothing-subscribed", NOTHING_LEFT)]}}),
        Contract(CLI + "bluetooth_device_connect", self_type="inst[APIClient]", tags=["C16"],
                 params={"address": "int", "on_bluetooth_connection_state": "callable[UserCb]", "timeout": "real", "disconnect_timeout": "real",
                         "feature_flags": "int", "has_cache": "bool", "address_type": "opt[int]"},
                 setup=lambda eng, st: [region(eng, st, r) for r in cm.REGIONS],
                 requires=[("timeouts-positive", "timeout > 0 and disconnect_timeout >= 0"), ("address-fits", "address >= 0 and address < 2 ** 64"),
                           ("flags-nonneg", "feature_flags >= 0"), ("address-type-fits", "implies(address_type is not None, address_type >= 0 and address_type < 2 ** 32)")],
                 ensures=[P("C16", "success-leaves-only-the-returned-subscription", "live_subscriptions == 1 and not armed(timeout_handle)")],
                 raises={"TimeoutAPIError": {"kind": "property", "ensures": [
                             ("own:timeout-first-unsubscribes-then-asks-the-device-to-disconnect",
                              "implies(timeout_expired, unsubscribed_before_last_send and n_sent >= 2 and exact_type(sent[n_sent - 1], BluetoothDeviceRequest) "
                              "and sent[n_sent - 1].address == address and sent[n_sent - 1].request_type == 1)"),
                             ("nothing-left-subscribed", NOTHING_LEFT)]},
                         "APIConnectionError": {"kind": "property", "ensures": [("nothing-left-subscribed", NOTHING_LEFT)]},
                         "CancelledError": {"kind": "property", "ensures": [("nothing-left-subscribed", NOTHING_LEFT)]}}),
    ]


def _ble_request_setup(eng, st):
    import aioesphomeapi.api_pb2 as pb
    rt = st.env.f["response_type"]
    st.assume(z3.Or(*[rt.code == cls_code(c) for c in (pb.BluetoothGATTNotifyResponse, pb.BluetoothGATTReadResponse, pb.BluetoothGATTWriteResponse)]))
    rq = st.env.f["request"]
    st.assume(z3.Or(*[typeof_f(rq.e) == cls_code(c) for c in (pb.BluetoothGATTReadRequest, pb.BluetoothGATTWriteRequest, pb.BluetoothGATTNotifyRequest)]))


SUBSCRIPTIONS = {
    # method: (params, request class, expected request fields, adapter function or None (the user callback itself), adapter bound args, response types)
    "subscribe_states": ({"on_state": "callable[UserCb]"}, "SubscribeStatesRequest", {}, "on_state_msg", None, None),
    "subscribe_logs": ({"on_log": "callable[UserCb]", "log_level": "opt[enum[aioesphomeapi.model.LogLevel]]", "dump_config": "opt[bool]"}, "SubscribeLogsRequest",
                       {"level": "(int(log_level) if log_level is not None else 0)", "dump_config": "(dump_config if dump_config is not None else False)"},
                       None, "on_log", ("SubscribeLogsResponse",)),
    "subscribe_service_calls": ({"on_service_call": "callable[UserCb]"}, "SubscribeHomeassistantServicesRequest", {}, "on_home_assistant_service_response",
                                ("on_service_call",), ("HomeassistantServiceResponse",)),
    "subscribe_bluetooth_le_advertisements": ({"on_bluetooth_le_advertisement": "callable[UserCb]"}, "SubscribeBluetoothLEAdvertisementsRequest", {"flags": "0"},
                                              "on_bluetooth_le_advertising_response", ("on_bluetooth_le_advertisement",), ("BluetoothLEAdvertisementResponse",)),
    "subscribe_bluetooth_le_raw_advertisements": ({"on_advertisements": "callable[UserCb]"}, "SubscribeBluetoothLEAdvertisementsRequest", {"flags": "1"},
                                                  None, "on_advertisements", ("BluetoothLERawAdvertisementsResponse",)),
    "subscribe_bluetooth_connections_free": ({"on_bluetooth_connections_free_update": "callable[UserCb]"}, "SubscribeBluetoothConnectionsFreeRequest", {},
                                             "on_bluetooth_connections_free_response", ("on_bluetooth_connections_free_update",), ("BluetoothConnectionsFreeResponse",)),
    "subscribe_home_assistant_states": ({"on_state_sub": "callable[UserCb]", "on_state_request": "opt[callable[UserCb]]"}, "SubscribeHomeAssistantStatesRequest", {},
                                        "on_subscribe_home_assistant_state_response", ("on_state_sub", "on_state_request"), ("SubscribeHomeAssistantStateResponse",)),
}


def subscription_contract(method):
    params, req, fields, adapter, bound, types = SUBSCRIPTIONS[method]
    ens = [P("C17", "one-request-then-one-handler-in-the-same-turn", f"event_kinds == ('send', 'subscribe') and n_cuts == 0 and exact_type(sent[0], {req})")]
    for f, e in fields.items():
        ens.append(P("C17", f"request-field:{f}", f"sent[0].{f} == {e}"))
    if types is not None:
        ens.append(P("C17", "handler-registered-for-exactly-the-response-types", f"subscribed_types(0) == ({', '.join(types)},)"))
    if adapter is None:
        ens.append(P("C17", "the-user-callback-itself-is-the-handler", f"subscribed_callback(0) is {bound}"))
    elif bound is not None:
        ens.append(P("C17", "handler-is-the-adapter-bound-to-the-user-callback", f"is_partial_of(subscribed_callback(0), {adapter}, {', '.join(bound)})"))
    else:
        ens.append(P("C17", "handler-is-the-state-adapter-with-a-fresh-image-stream", f"is_state_adapter(subscribed_callback(0), on_state)"))
    return Contract(CLI + method, self_type="inst[APIClient]", params=params, tags=["C17"], requires=[("session-alive", "connected(self)")],
                    ensures=ens, raises={"APIConnectionError": {"kind": "auxiliary", "ensures": [("nothing-subscribed", "n_subscribed == 0")]}})


def voice_contract():
    return Contract(
        CLI + "subscribe_voice_assistant", self_type="inst[APIClient]", tags=["C17"],
        params={"handle_start": "callable[UserCoro]", "handle_stop": "callable[UserCoro]", "handle_audio": "opt[callable[UserCoro]]",
                "handle_announcement_finished": "opt[callable[UserCoro]]"},
        requires=[("session-alive", "connected(self)")],
        # the returned unsubscribe function is run (ghost) right after subscribing, on the still-connected session
        post_hints="try:\n    result()\nexcept APIConnectionError:\n    ghost_unsub_failed = True",
        ensures=[P("C17", "subscribes-with-the-audio-flag-iff-an-audio-handler-was-given",
                   "exact_type(first_send(), SubscribeVoiceAssistantRequest) and first_send().subscribe and first_send().flags == (4 if handle_audio is not None else 0)"),
                 P("C17", "one-handler-per-given-callback",
                   "n_subscribed == 1 + (1 if handle_audio is not None else 0) + (1 if handle_announcement_finished is not None else 0)"),
                 P("C17", "unsubscribe-removes-every-handler-and-tells-the-device", "live_subscriptions == 0 and (unsub_write_failed or (exact_type(sent[n_sent - 1], SubscribeVoiceAssistantRequest) "
                                                                                     "and not sent[n_sent - 1].subscribe and n_sent == 2))")],
        raises={"APIConnectionError": {"kind": "auxiliary"}},
    )


def voice_requests_contract():
    """The request handler that subscribe_voice_assistant registers, exercised (ghost) on two consecutive requests from the device:
    every request is answered by exactly one handler task (handle_start for a start, handle_stop otherwise), whatever the first one
    is still doing."""
    return Contract(
        CLI + "subscribe_voice_assistant", self_type="inst[APIClient]", tags=["C17"], label="requests",
        params={"handle_start": "callable[UserCoro]", "handle_stop": "callable[UserCoro]", "handle_audio": "opt[callable[UserCoro]]",
                "handle_announcement_finished": "opt[callable[UserCoro]]"},
        requires=[("session-alive", "connected(self)"), ("only-the-request-handler", "handle_audio is None and handle_announcement_finished is None")],
        post_hints="h = subscribed_callback(0)\nh(new_message(VoiceAssistantRequest))\nh(new_message(VoiceAssistantRequest))",
        ensures=[P("C17", "every-request-invokes-the-matching-handler-once", "n_tasks == 2")],
        raises={"APIConnectionError": {"kind": "auxiliary"}},
    )


def install_c16_c17(eng):
    import aioesphomeapi.core as core
    import aioesphomeapi.client as CL
    import aioesphomeapi.client_callbacks as CBM
    import aioesphomeapi.connection as C
    names = eng.hooks["names"]
    install_lifecycle_models(eng)
    for fn in (core.to_human_readable_address, core.to_human_readable_gatt_error):
        eng.builtins[id(fn)] = lambda e, s, a, k: ok(s, VStr(z3.Const(fresh_name("text"), StrS)))
    for n in dir(CBM):
        if n.startswith("on_"):
            names.setdefault(n, eng.lift(getattr(CBM, n), State_()))
    eng.inline.add(CONN + "handle_timeout")

    def bfn(name):
        def deco(f):
            names[name] = VFunc("builtin", name=name, impl=f)
            return f
        return deco

    # attributes of the (opaque) VoiceAssistantCommand model read by the request handler: total functions of the model object
    eng.obj_attrs[("Model", "start")] = lambda e, s, v: VBool(z3.Function("model_start", ObjS, BoolS)(v.e))
    eng.obj_attrs[("Model", "wake_word_phrase")] = lambda e, s, v: VStr(z3.Function("model_wake_word_phrase", ObjS, StrS)(v.e))
    eng.obj_attrs[("Model", "conversation_id")] = lambda e, s, v: VStr(z3.Function("model_conversation_id", ObjS, StrS)(v.e))
    eng.obj_attrs[("Model", "flags")] = lambda e, s, v: VInt(z3.Function("model_flags", ObjS, IntS)(v.e))
    eng.obj_attrs[("Model", "audio_settings")] = lambda e, s, v: VObj(z3.Function("model_audio_settings", ObjS, ObjS)(v.e), "Model")

    @bfn("new_message")
    def _nm(eng_, st, args, kwargs):
        m = z3.Const(fresh_name("devmsg"), ObjS)
        st.fact(z3.And(typeof_f(m) == cm.class_key(eng_, st, args[0]), m != z3.Const("none-obj", ObjS)))
        return ok(st, VObj(m, "Message"))

    @bfn("subscribed_types")
    def _st(eng_, st, args, kwargs):
        evs = [ev for ev in st.events if ev[0] == "subscribe"]
        return ok(st, evs[int(simp(as_int(args[0])).as_long())][2])

    @bfn("subscribed_callback")
    def _sc(eng_, st, args, kwargs):
        evs = [ev for ev in st.events if ev[0] == "subscribe"]
        return ok(st, evs[int(simp(as_int(args[0])).as_long())][1])

    @bfn("first_send")
    def _fs(eng_, st, args, kwargs):
        for ev in st.events:
            if ev[0] == "send":
                return ok(st, ev[1][0])
        raise Unsupported("nothing was sent on this path")

    @bfn("is_partial_of")
    def _ipo(eng_, st, args, kwargs):
        f, func, bound = args[0], args[1], list(args[2:])
        okk = (isinstance(f, VFunc) and f.kind == "partial" and isinstance(f.func, VFunc) and isinstance(func, VFunc)
               and getattr(f.func, "qualname", None) == getattr(func, "qualname", "?") and len(f.args) == len(bound) and not f.kwargs)
        if not okk:
            return ok(st, VBool(False))
        return ok(st, VBool(simp(z3.And(*[cm.same_value(x, y) for x, y in zip(f.args, bound)] or [z3.BoolVal(True)]))))

    @bfn("is_state_adapter")
    def _isa(eng_, st, args, kwargs):
        f, user = args
        okk = (isinstance(f, VFunc) and f.kind == "partial" and getattr(f.func, "qualname", None) == "on_state_msg" and len(f.args) == 2 and not f.kwargs
               and isinstance(f.args[1], VRef) and st.heap[f.args[1].oid].kind == "dict" and not st.heap[f.args[1].oid].f["items"])
        return ok(st, VBool(simp(cm.same_value(f.args[0], user)) if okk else False))

    prev_nd = eng.hooks.get("names_dynamic")

    def nd(name, st):
        if name == "n_tasks":
            return VInt(sum(1 for ev in st.events if ev[0] == "task"))
        if name == "last_responses":
            rs = [ev[1] for ev in st.events if ev[0] == "responses"]
            if not rs:
                raise Unsupported("no request/response call completed on this path")
            return rs[-1]
        if name == "unsub_write_failed":
            return VBool(any(t.startswith("send!") for t in st.trace))
        if name == "unsubscribed_before_last_send":
            last_send = max([i for i, ev in enumerate(st.events) if ev[0] == "send"], default=-1)
            subs = {ev[3]: i for i, ev in enumerate(st.events) if ev[0] == "subscribe"}
            uns = {ev[1]: i for i, ev in enumerate(st.events) if ev[0] == "unsubscribe"}
            return VBool(all(t in uns and uns[t] < last_send for t in subs))
        return prev_nd(name, st) if prev_nd else None
    eng.hooks["names_dynamic"] = nd


def State_():
    from pyvc.state import State
    return State()


def targets_for(eng, which, tags):
    names = install(eng, tags)
    import aioesphomeapi.connection as C
    names["CS"] = VClass(C.ConnectionState)
    out = []
    if "lifecycle" in which:
        install_lifecycle_models(eng)
        for c in lifecycle_contracts():
            c.tags = list(tags)
            out.append(contract_target(c))
    if "c16" in which or "c17" in which:
        install_c16_c17(eng)
    if "c16" in which:
        for c in ble_contracts():
            c.tags = list(tags)
            out.append(contract_target(c))
    if "c17" in which:
        for mth in SUBSCRIPTIONS:
            c = subscription_contract(mth)
            c.tags = list(tags)
            out.append(contract_target(c))
        c = voice_contract()
        c.tags = list(tags)
        out.append(contract_target(c))
        c = voice_requests_contract()
        c.tags = list(tags)
        out.append(contract_target(c))
    if "gates" in which:
        for n, node in writing_methods().items():
            c = gate_contract(n, node)
            if c is None:
                GATES_NOT_COVERED.append(n)
                continue
            c.tags = list(tags)
            out.append(contract_target(c))
    return out


def install_lifecycle_models(eng):
    """APIConnection(...) constructed by the client, create_eager_task / background tasks, the user's on_stop coroutine."""
    import aioesphomeapi.connection as C
    import aioesphomeapi.client as CL
    import aioesphomeapi.util as U
    names = eng.hooks["names"]
    prev_construct = eng.hooks["construct"]

    def construct(eng_, st, cv, args, kwargs):
        if cv.py is C.APIConnection:
            ref = fresh(eng_, st, "inst[APIConnection]", "new_connection")
            o = st.heap[ref.oid]
            o.f["connection_state"] = VEnum(C.ConnectionState, 0)
            o.f["is_connected"] = VBool(False)
            o.f["_handshake_complete"] = VBool(False)
            o.f["on_stop"] = args[1] if len(args) > 1 else VNone
            o.f["connected_address"] = VNone
            o.f["received_name"] = VStr("")
            return ok(st, ref)
        return prev_construct(eng_, st, cv, args, kwargs)
    eng.hooks["construct"] = construct

    def usercoro_call(eng_, st, fv, args, kwargs):
        st.events = st.events + [("usercoro", fv, list(args))]
        return ok(st, VObj(eng_.new_obj(st, "coro", "Coroutine"), "Coroutine"))
    eng.callout_models["UserCoro"] = usercoro_call

    def create_task(eng_, st, args, kwargs):
        # create_eager_task runs the coroutine's first step at once (Python >= 3.12): user code runs here
        cleared = []
        for o in st.heap.values():
            if o.kind == "inst" and getattr(o.cls, "__name__", "") == "APIClient":
                cleared.append(is_none(o.f["_connection"]))
        st.events = st.events + [("task", simp(z3.And(*cleared)) if cleared else z3.BoolVal(True))]
        return ok(st, VObj(eng_.new_obj(st, "task", "Task"), "Task"))
    eng.builtins[id(U.create_eager_task)] = create_task
    eng.builtins[id(CL.create_eager_task)] = create_task
    from pyvc.builtins import elem_sort
    strdict_items_f = z3.Function("strdict_items", ObjS, z3.SeqSort(elem_sort(eng, parse_ty("tuple[str,str]"))))
    eng.obj_methods[("StrDict", "items")] = lambda e, s, r, a, k: ok(s, VSeq(strdict_items_f(r.e), parse_ty("tuple[str,str]")))
    eng.obj_methods[("Task", "add_done_callback")] = lambda e, s, r, a, k: ok(s, VNone)
    eng.obj_methods[("Task", "cancel")] = lambda e, s, r, a, k: ok(s, VBool(True))
    # whether a task created earlier has finished by now is not known to the code that asks
    eng.obj_methods[("Task", "done")] = lambda e, s, r, a, k: ok(s, VBool(z3.Bool(fresh_name("task_done"))))
    eng.obj_methods[("Task", "cancelled")] = lambda e, s, r, a, k: ok(s, VBool(z3.Bool(fresh_name("cancelled"))))
    prev_nd = eng.hooks.get("names_dynamic")

    def nd(name, st):
        if name == "cleared_before_user_code":
            return VBool(simp(z3.And(*[ev[1] for ev in st.events if ev[0] == "task"])) if any(ev[0] == "task" for ev in st.events) else True)
        return prev_nd(name, st) if prev_nd else None
    eng.hooks["names_dynamic"] = nd
    eng.inline.update({CLI + "_execute_connection_coro", CLI + "_set_log_name", CLI + "_set_name_from_device", CLI + "_create_background_task"})
    import aioesphomeapi.util as U2
    eng.builtins[id(U2.build_log_name)] = lambda e, s, a, k: ok(s, VStr(z3.Const(fresh_name("log_name"), StrS)))
    eng.builtins[id(CL.build_log_name)] = lambda e, s, a, k: ok(s, VStr(z3.Const(fresh_name("log_name"), StrS)))

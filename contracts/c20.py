"""C20 - address resolution order and fall-backs; zeroconf instances are owned correctly (DESIGN 4, C20).

Oracles (uninterpreted, A-LIB): what mDNS, the OS resolver and ipaddress.ip_address answer for a string are functions of that string
  mdns(name) / mdns_fails(name)   result list of _async_resolve_host_zeroconf, or it raises ResolveAPIError
  osres(host) / os_fails(host)    result list of _async_resolve_host_getaddrinfo, or it raises APIConnectionError
  is_literal(host) / lit(host)    ip_address accepts the string; the one AddrInfo _async_ip_address_to_addrs builds from it
The two lookup functions append to ghost.mdns_log / ghost.os_log, so "no lookup of either kind for a literal" is a statement about the logs.
"""
import z3

from pyvc.sidecar import *  # noqa: F401,F403
from pyvc import heapmodel, smt
from pyvc.builtins import cls_code, typeof_f, ok
from pyvc.contracts import Contract, Clause, oblige, eval_clause, _parse_expr
from contracts import conn_model as cm

PROPERTY = "C20"
LEVEL = "proof"
BOUNDED = [{"function": "aioesphomeapi.host_resolver.async_resolve_host", "engine": "native enumeration (fallback only, when a proof step does not go through)", "bound": "host lists of length <= 2 (3 in the thorough tier) over 6 host forms x 3 mDNS outcomes x 3 OS outcomes"}]
HR = "aioesphomeapi.host_resolver."
ZC = "aioesphomeapi.zeroconf."
UT = "aioesphomeapi.util."
ASSUMPTIONS = [
    "A-PY, A-TYPES, A-LOOP", "A-LIB: mDNS, getaddrinfo and ipaddress.ip_address are deterministic oracles of their argument; AsyncServiceInfo / AsyncZeroconf as described in the module docstring",
    "strings are z3 strings (str.partition / removesuffix / endswith / `in` as in Python)",
]

mdns_f = z3.Function("mdns", StrS, ObjSeqS)
mdns_fails_f = z3.Function("mdns_fails", StrS, BoolS)
os_f = z3.Function("osres", StrS, ObjSeqS)
os_fails_f = z3.Function("os_fails", StrS, BoolS)
is_lit_f = z3.Function("is_literal", StrS, BoolS)
lit_f = z3.Function("lit", StrS, ObjS)
under_f = z3.Function("underlying_zeroconf", ObjS, ObjS)
addr_f = z3.Function("addr_of", ObjS, IntS, ObjS)       # the AddrInfo _async_ip_address_to_addrs builds for (ip, port): its own contract says what it contains


def P(name, text):
    return Clause(name, text, "property", ["C20"])


def install(eng):
    import asyncio
    import ipaddress
    import socket
    import aioesphomeapi.host_resolver as H
    import aioesphomeapi.zeroconf as Z
    import aioesphomeapi.core as core
    cm.install(eng, check_tags=[])
    register_specs(eng, "specs.resolve")
    eng.add_class_spec("ZeroconfManager", Z.ZeroconfManager, {"_created": "bool", "_aiozc": "opt[obj[AsyncZeroconf]]"})
    declare_ghost(eng, **cm.GHOST, **cm.GHOST_AUX, **cm.GHOST_OWNED, mdns_log="seq[str]", os_log="seq[str]", closed_log="seq[obj]")
    eng.regions_decl["Zeroconf.lib_created"] = (BoolS, None)
    names = eng.hooks.setdefault("names", {})
    for n in dir(core):
        k = getattr(core, n)
        if isinstance(k, type) and issubclass(k, Exception):
            names.setdefault(n, VClass(k))
            cls_code(k)
    eng.exception_universe.extend([ValueError, OSError, RuntimeError, Exception, asyncio.CancelledError])

    def bfn(name):
        def deco(f):
            names[name] = VFunc("builtin", name=name, impl=f)
            return f
        return deco

    for nm, f in (("mdns", mdns_f), ("osres", os_f)):
        names[nm] = VFunc("builtin", name=nm, impl=(lambda f_: lambda e, s, a, k: ok(s, VSeq(f_(a[0].e), parse_ty("obj[AddrInfo]"))))(f))
    for nm, f in (("mdns_fails", mdns_fails_f), ("os_fails", os_fails_f), ("is_literal", is_lit_f)):
        names[nm] = VFunc("builtin", name=nm, impl=(lambda f_: lambda e, s, a, k: ok(s, VBool(f_(a[0].e))))(f))
    names["lit"] = VFunc("builtin", name="lit", impl=lambda e, s, a, k: ok(s, VObj(lit_f(a[0].e), "AddrInfo")))
    names["addr_of"] = VFunc("builtin", name="addr_of", impl=lambda e, s, a, k: ok(s, VObj(addr_f(a[0].e, as_int(a[1])), "AddrInfo")))

    @bfn("lib_created")
    def _lc(eng_, st, args, kwargs):
        v = args[0]
        alts = v.alts if isinstance(v, VUnion) else [(z3.BoolVal(True), v)]
        return ok(st, VBool(simp(z3.Or(*[z3.And(g, z3.BoolVal(False) if isinstance(a, VNoneT) else rget(eng_, st, "Zeroconf.lib_created", under_f(a.e))) for g, a in alts]))))

    # ---- ipaddress ----------------------------------------------------------------------------------------------------------------
    ipver_f = z3.Function("ip_version", ObjS, IntS)
    ipstr_f = z3.Function("ip_str", ObjS, StrS)
    ipscope_f = z3.Function("ip_scope", ObjS, StrS)
    iphas_scope_f = z3.Function("ip_has_scope", ObjS, BoolS)
    ipobj_f = z3.Function("ip_object", StrS, ObjS)
    ipobj_f_ref[0] = ipobj_f
    eng.obj_attrs[("IPAddress", "version")] = lambda e, s, v: (s.fact(z3.Or(ipver_f(v.e) == 4, ipver_f(v.e) == 6)), VInt(ipver_f(v.e)))[1]
    eng.obj_attrs[("IPAddress", "scope_id")] = lambda e, s, v: mk_union([(z3.Not(iphas_scope_f(v.e)), VNone), (iphas_scope_f(v.e), VStr(ipscope_f(v.e)))])
    names["ip_version"] = VFunc("builtin", name="ip_version", impl=lambda e, s, a, k: ok(s, VInt(ipver_f(a[0].e))))
    names["ip_str"] = VFunc("builtin", name="ip_str", impl=lambda e, s, a, k: ok(s, VStr(ipstr_f(a[0].e))))
    names["ip_has_scope"] = VFunc("builtin", name="ip_has_scope", impl=lambda e, s, a, k: ok(s, VBool(iphas_scope_f(a[0].e))))
    names["ip_scope"] = VFunc("builtin", name="ip_scope", impl=lambda e, s, a, k: ok(s, VStr(ipscope_f(a[0].e))))
    prev_str = eng.builtins[id(str)]

    def b_str(eng_, st, args, kwargs):
        if args and isinstance(args[0], VObj) and args[0].cls == "IPAddress":
            return ok(st, VStr(ipstr_f(args[0].e)))
        return prev_str(eng_, st, args, kwargs)
    eng.builtins[id(str)] = b_str

    def b_ip_address(eng_, st, args, kwargs):
        h = args[0]
        s_bad = st.clone()
        s_bad.assume(z3.Not(is_lit_f(h.e)))
        st.assume(is_lit_f(h.e))
        out = []
        if smt.feasible(st.pc):
            out.append((st, VObj(ipobj_f(h.e), "IPAddress")))
        if smt.feasible(s_bad.pc):
            out.append((s_bad, Raised(eng_.make_exc(s_bad, ValueError, []))))
        return out
    eng.builtins[id(ipaddress.ip_address)] = b_ip_address
    eng.builtins[id(H.ip_address)] = b_ip_address
    names["ip_object"] = VFunc("builtin", name="ip_object", impl=lambda e, s, a, k: ok(s, VObj(ipobj_f(a[0].e), "IPAddress")))

    # ---- zeroconf library objects ---------------------------------------------------------------------------------------------------
    prev_construct = eng.hooks["construct"]

    def construct(eng_, st, cv, args, kwargs):
        if cv.py is Z.AsyncZeroconf:
            a = eng_.new_obj(st, "aiozc", "AsyncZeroconf")
            if "zc" in kwargs:
                st.fact(under_f(a) == kwargs["zc"].e)        # a wrapper around the instance it was given: closing it closes that instance
            else:
                u = eng_.new_obj(st, "zeroconf", "Zeroconf")
                st.fact(under_f(a) == u)
                rset(eng_, st, "Zeroconf.lib_created", u, z3.BoolVal(True))
                st.events = st.events + [("zc_created", a)]
            return ok(st, VObj(a, "AsyncZeroconf"))
        if cv.py is H.AsyncServiceInfo:
            return ok(st, VObj(eng_.new_obj(st, "service_info", "ServiceInfo"), "ServiceInfo"))
        return prev_construct(eng_, st, cv, args, kwargs)
    eng.hooks["construct"] = construct
    eng.obj_attrs[("AsyncZeroconf", "zeroconf")] = lambda e, s, v: VObj(under_f(v.e), "Zeroconf")

    def aiozc_close(eng_, st, recv, args, kwargs):
        def run(eng2, s, key, spec):
            # (C20) only an instance the library created itself may be closed by the library
            oblige(eng2, s, rget(eng2, s, "Zeroconf.lib_created", under_f(recv.e)), "only-library-created-instances-are-closed", kind="property", tags=["C20"])
            ghost_append(eng2, s, "closed_log", VObj(under_f(recv.e), "Zeroconf"))
            s.events = s.events + [("zc_closed", recv.e)]
            return [(s, VNone)]
        return ok(st, VFunc("awaitable", run=run, name="AsyncZeroconf.async_close"))
    eng.obj_methods[("AsyncZeroconf", "async_close")] = aiozc_close

    # isinstance(zc, AsyncZeroconf / Zeroconf) on opaque objects: by kind
    prev_isinstance = eng.builtins[id(isinstance)]

    def b_isinstance(eng_, st, args, kwargs):
        v = args[0]
        if isinstance(v, VObj) and v.cls in ("AsyncZeroconf", "Zeroconf", "ZcInstance") and isinstance(args[1], VClass) and args[1].py in (Z.AsyncZeroconf, Z.Zeroconf):
            if v.cls == "ZcInstance":
                isa = z3.Bool("is_async_" + str(v.e))
                st.fact(z3.Implies(z3.Not(isa), under_f(v.e) == v.e))       # a plain Zeroconf is its own underlying instance
                return ok(st, VBool(isa if args[1].py is Z.AsyncZeroconf else z3.Not(isa)))
            return ok(st, VBool((v.cls == "AsyncZeroconf") == (args[1].py is Z.AsyncZeroconf)))
        return prev_isinstance(eng_, st, args, kwargs)
    eng.builtins[id(isinstance)] = b_isinstance
    eng.obj_attrs[("ZcInstance", "zeroconf")] = lambda e, s, v: VObj(under_f(v.e), "Zeroconf")

    def info_request(eng_, st, recv, args, kwargs):
        def run(eng2, s, key, spec):
            s_err = s.clone()
            s_err.note("async_request!fails")
            s_c = s.clone()
            s_c.note("await!CancelledError")
            return [(s, VBool(z3.Bool(fresh_name("found")))), (s_err, Raised(eng2.fresh_exception(s_err, Exception))),
                    (s_c, Raised(eng2.make_exc(s_c, asyncio.CancelledError, [])))]
        return ok(st, VFunc("awaitable", run=run, name="AsyncServiceInfo.async_request"))
    eng.obj_methods[("ServiceInfo", "async_request")] = info_request
    v6_f = z3.Function("info_v6", ObjS, ObjSeqS)
    v4_f = z3.Function("info_v4", ObjS, ObjSeqS)

    def by_version(eng_, st, recv, args, kwargs):
        ver = args[0]
        code = simp(as_int(ver)) if not isinstance(ver, VEnum) else simp(ver.e)
        from zeroconf import IPVersion
        if not z3.is_int_value(code):
            raise Unsupported("ip_addresses_by_version with a symbolic version")
        is6 = code.as_long() == eng_.enum_code(IPVersion.V6Only)
        return ok(st, VSeq((v6_f if is6 else v4_f)(recv.e), parse_ty("obj[IPAddress]")))
    eng.obj_methods[("ServiceInfo", "ip_addresses_by_version")] = by_version
    names["info_v6"] = VFunc("builtin", name="info_v6", impl=lambda e, s, a, k: ok(s, VSeq(v6_f(a[0].e), parse_ty("obj[IPAddress]"))))
    names["info_v4"] = VFunc("builtin", name="info_v4", impl=lambda e, s, a, k: ok(s, VSeq(v4_f(a[0].e), parse_ty("obj[IPAddress]"))))

    def await_hook(eng_, st, v):
        if isinstance(v, VFunc) and v.kind == "awaitable":
            return v.run(eng_, st, None, {})
        return ok(st, v)
    eng.hooks["await"] = await_hook
    prev_nd = eng.hooks.get("names_dynamic")

    def nd(name, st):
        if name == "n_closed":
            return VInt(sum(1 for e in st.events if e[0] == "zc_closed"))
        if name == "n_created":
            return VInt(sum(1 for e in st.events if e[0] == "zc_created"))
        return prev_nd(name, st) if prev_nd else None
    eng.hooks["names_dynamic"] = nd
    return names


INV_ZC = ("ownership", "implies(self._created, self._aiozc is not None and lib_created(self._aiozc)) and "
                       "implies(not self._created and self._aiozc is not None, not lib_created(self._aiozc))")


def _touch(eng, st):
    for r in list(cm.REGIONS) + ["Zeroconf.lib_created"]:
        region(eng, st, r)


def _resolve_setup(eng, st):
    _touch(eng, st)
    # definition of the oracle `lit`: the AddrInfo built (by _async_ip_address_to_addrs, whose own contract says what is in it) from the
    # address object ip_address() returns for that string, with this call's port
    h = z3.Const("any_host", StrS)
    st.fact(z3.ForAll([h], lit_f(h) == addr_f(ipobj_f_ref[0](h), as_int(st.env.f["port"]))))


ipobj_f_ref = [None]


def contracts():
    ZM = "inst[ZeroconfManager]"
    return [
        Contract(UT + "host_is_name_part", params={"address": "str"}, result="bool", tags=["C20"],
                 ensures=[P("bare-name-iff-no-dot-and-no-colon", "result == (not contains_char(address, '.') and not contains_char(address, ':'))")]),
        Contract(UT + "address_is_local", params={"address": "str"}, result="bool", tags=["C20"],
                 ensures=[P("local-iff-ends-with-.local-after-one-optional-trailing-dot",
                            "result == ((address[:len(address) - 1] if address.endswith('.') else address).endswith('.local'))")]),
        Contract(HR + "_scope_id_to_int", params={"value": "opt[str]"}, result="int", tags=["C20"],
                 ensures=[P("numeric-scope-else-zero", "result == (0 if value is None else (int_of(value) if is_digits(value) else 0))")]),
        Contract(HR + "_async_ip_address_to_addrs", params={"ip": "obj[IPAddress]", "port": "int"}, result="list[obj[AddrInfo]]", tags=["C20"], setup=_touch,
                 ensures=[P("one-address-with-the-family-of-the-literal",
                            "len(result) == 1 and result[0].family == (AF_INET6 if ip_version(ip) == 6 else AF_INET) and result[0].type == SOCK_STREAM and result[0].proto == IPPROTO_TCP "
                            "and result[0].sockaddr.port == port"),
                          P("v4-verbatim", "implies(ip_version(ip) != 6, type(result[0].sockaddr) is IPv4Sockaddr and result[0].sockaddr.address == ip_str(ip))"),
                          P("v6-without-scope-suffix-and-numeric-scope",
                            "implies(ip_version(ip) == 6, type(result[0].sockaddr) is IPv6Sockaddr and result[0].sockaddr.address == ip_str(ip).partition('%')[0] and "
                            "result[0].sockaddr.flowinfo == 0 and result[0].sockaddr.scope_id == ((int_of(ip_scope(ip)) if is_digits(ip_scope(ip)) else 0) if ip_has_scope(ip) else 0))")]),
        # ---- ZeroconfManager ------------------------------------------------------------------------------------------------------
        Contract(ZC + "ZeroconfManager.get_async_zeroconf", self_type=ZM, result="obj[AsyncZeroconf]", tags=["C20"], setup=_touch, requires=[INV_ZC],
                 ensures=[P("creates-only-when-there-is-none", "result is self._aiozc and n_created == (1 if old(self._aiozc) is None else 0) and "
                                                               "implies(old(self._aiozc) is not None, self._aiozc is old(self._aiozc) and self._created == old(self._created))"),
                          P("ownership-kept", INV_ZC[1])],
                 modifies=["self._aiozc", "self._created", "region:Zeroconf.lib_created"]),
        Contract(ZC + "ZeroconfManager.async_close", self_type=ZM, tags=["C20"], setup=_touch, requires=[INV_ZC],
                 ensures=[P("closes-exactly-what-the-library-created", "n_closed == (1 if old(self._created) else 0) and implies(not old(self._created), self._aiozc is old(self._aiozc))"),
                          P("forgets-a-closed-instance", "implies(old(self._created), self._aiozc is None and not self._created)"),
                          P("ownership-kept", INV_ZC[1])],
                 modifies=["self._aiozc", "self._created", "ghost.closed_log"]),
        Contract(ZC + "ZeroconfManager.set_instance", self_type=ZM, params={"zc": "obj[ZcInstance]"}, tags=["C20"], requires=[INV_ZC, ("supplied", "not lib_created(zc)")],
                 setup=_touch,
                 ensures=[P("a-supplied-instance-is-never-marked-as-created", "implies(not old(self._created), not self._created) and " + INV_ZC[1])],
                 raises={"RuntimeError": {"kind": "auxiliary", "when": "old(self._aiozc) is not None"}},
                 modifies=["self._aiozc"]),
        Contract(HR + "_async_zeroconf_get_service_info", tags=["C20"], setup=_touch, result="obj[ServiceInfo]",
                 params={"zeroconf_manager": ZM, "service_type": "str", "service_name": "str", "server": "str", "timeout": "real"},
                 requires=[("ownership", INV_ZC[1].replace("self.", "zeroconf_manager."))],
                 ensures=[P("closes-iff-this-call-caused-the-creation", "n_closed == (1 if old(zeroconf_manager._aiozc) is None else 0)"),
                          ("ownership-kept", INV_ZC[1].replace("self.", "zeroconf_manager."))],
                 raises={"ResolveAPIError": {"kind": "property", "ensures": [("closes-iff-this-call-caused-the-creation", "n_closed == (1 if (old(zeroconf_manager._aiozc) is None and n_created == 1) else 0)")]},
                         "CancelledError": {"kind": "property", "ensures": [("closes-iff-this-call-caused-the-creation", "n_closed == (1 if old(zeroconf_manager._aiozc) is None else 0)")]}},
                 modifies=["zeroconf_manager._aiozc", "zeroconf_manager._created", "region:Zeroconf.lib_created", "ghost.closed_log"]),
    ]


def resolve_contracts():
    return [
        Contract(HR + "_async_resolve_host_zeroconf", tags=["C20"], setup=_touch, result="list[obj[AddrInfo]]",
                 params={"host": "str", "port": "int", "timeout": "real", "zeroconf_manager": "opt[inst[ZeroconfManager]]"}, label="own",
                 requires=[("ownership", "implies(zeroconf_manager is not None, " + INV_ZC[1].replace("self.", "zeroconf_manager.") + ")")],
                 ensures=[P("ipv6-results-before-ipv4-results", "result == addrs_of(info_v6(info), port, len(info_v6(info))) + addrs_of(info_v4(info), port, len(info_v4(info)))")],
                 raises={"ResolveAPIError": {"kind": "auxiliary"}, "CancelledError": {"kind": "auxiliary"}},
                 # one invariant scheme for both address loops (and for any regrouping of them): what the loop has appended so far
                 loops={"*": dict(index="_i", types={"addrs": "list[obj[AddrInfo]]"},
                                  invariant=["addrs == old(addrs, 'loop-entry') + addrs_of(iterated_seq, port, _i)"],
                                  entry_hints="unfold(addrs_of(iterated_seq, port, 0))", end_hints="unfold(addrs_of(iterated_seq, port, _i))")},
                 modifies=["ghost.closed_log", "region:Zeroconf.lib_created"]),
        Contract(HR + "async_resolve_host", tags=["C20"], setup=_resolve_setup, result="list[obj[AddrInfo]]",
                 params={"hosts": "seq[str]", "port": "int", "zeroconf_manager": "opt[inst[ZeroconfManager]]"},
                 ensures=[P("results-in-the-order-of-the-configured-addresses", "result == resolved(hosts, port, len(hosts))"),
                          P("never-an-empty-result", "len(result) > 0"),
                          P("mdns-asked-exactly-for-bare-and-local-names", "ghost.mdns_log == old(ghost.mdns_log) + mdns_asked(hosts, len(hosts))"),
                          P("os-resolver-asked-exactly-when-nothing-else-resolved", "ghost.os_log == old(ghost.os_log) + os_asked(hosts, port, len(hosts))")],
                 raises={"APIConnectionError": {"kind": "property", "ensures": [
                             ("raises-only-when-nothing-resolved-or-the-os-resolver-failed", "True")]},
                         "CancelledError": {"kind": "auxiliary"}},
                 loops={"loop#1": dict(index="_i", types={"addrs": "list[obj[AddrInfo]]", "zc_error": "opt[exc[Exception]]"},
                                       invariant=["addrs == resolved(hosts, port, _i)", "ghost.mdns_log == old(ghost.mdns_log) + mdns_asked(hosts, _i)",
                                                  "ghost.os_log == old(ghost.os_log) + os_asked(hosts, port, _i)",
                                                  "zc_error is None or typeof_is(zc_error, ResolveAPIError)"],
                                       modifies=["ghost.mdns_log", "ghost.os_log", "ghost.closed_log", "region:Zeroconf.lib_created"],
                                       entry_hints="unfold(resolved(hosts, port, 0))\nunfold(mdns_asked(hosts, 0))\nunfold(os_asked(hosts, port, 0))",
                                       end_hints="unfold(resolved(hosts, port, _i))\nunfold(mdns_asked(hosts, _i))\nunfold(os_asked(hosts, port, _i))")},
                 modifies=["ghost.mdns_log", "ghost.os_log", "ghost.closed_log", "region:Zeroconf.lib_created"]),
    ]


def callee_models(eng):
    """The lookup functions as seen from async_resolve_host / _async_resolve_host_zeroconf (their own contracts are separate targets)."""
    import asyncio
    import aioesphomeapi.core as core
    SEQO = ObjSeqS

    def reg(name, model):
        c = Contract(HR + name)
        c.model = model
        eng.contracts[c.target] = c

    def slist_of(st, e):
        return VRef(st.alloc(HObj("slist", None, {"e": e, "elem": parse_ty("obj[AddrInfo]")})))

    def ip_to_addrs(eng_, st, fv, args, kwargs):
        ip, port = args[0], args[1]
        return ok(st, slist_of(st, z3.Unit(addr_f(ip.e, as_int(port)))))
    reg("_async_ip_address_to_addrs", ip_to_addrs)

    def cancel(eng_, st):
        s = st.clone()
        s.note("await!CancelledError")
        return (s, Raised(eng_.make_exc(s, asyncio.CancelledError, [])))

    def rz(eng_, st, fv, args, kwargs):
        name = args[0]
        ghost_append(eng_, st, "mdns_log", name)
        out = [cancel(eng_, st)]
        s_err = st.clone()
        s_err.assume(mdns_fails_f(name.e))
        st.assume(z3.Not(mdns_fails_f(name.e)))
        if smt.feasible(st.pc):
            out.append((st, slist_of(st, mdns_f(name.e))))
        if smt.feasible(s_err.pc):
            out.append((s_err, Raised(eng_.make_exc(s_err, core.ResolveAPIError, []))))
        return out
    reg("_async_resolve_host_zeroconf", rz)

    def rg(eng_, st, fv, args, kwargs):
        host = args[0]
        ghost_append(eng_, st, "os_log", host)
        out = [cancel(eng_, st)]
        s_err = st.clone()
        s_err.assume(os_fails_f(host.e))
        st.assume(z3.Not(os_fails_f(host.e)))
        if smt.feasible(st.pc):
            out.append((st, slist_of(st, os_f(host.e))))
        if smt.feasible(s_err.pc):
            out.append((s_err, Raised(eng_.make_exc(s_err, core.APIConnectionError, []))))
        return out
    reg("_async_resolve_host_getaddrinfo", rg)


def _no_merge(c):
    c.no_merge = True
    return c


def targets(eng):
    names = install(eng)
    _names(eng, names)
    return _targets_rest(eng, names)


def _names(eng, names):
    import socket
    import aioesphomeapi.host_resolver as H
    for n in ("AF_INET", "AF_INET6", "SOCK_STREAM", "IPPROTO_TCP"):
        names[n] = VInt(int(getattr(socket, n)))
    for n in ("IPv4Sockaddr", "IPv6Sockaddr", "AddrInfo"):
        names[n] = VClass(getattr(H, n))

    def bfn(name):
        def deco(f):
            names[name] = VFunc("builtin", name=name, impl=f)
            return f
        return deco

    @bfn("contains_char")
    def _cc(eng_, st, args, kwargs):
        return ok(st, VBool(z3.Contains(args[0].e, args[1].e)))

    from pyvc.builtins import splitargs
    names["is_digits"] = VFunc("builtin", name="is_digits", impl=splitargs(lambda e, s, a, k: ok(s, VBool(z3.StrToInt(a[0].e) >= 0))))
    names["int_of"] = VFunc("builtin", name="int_of", impl=splitargs(lambda e, s, a, k: ok(s, VInt(z3.StrToInt(a[0].e)))))


def _targets_rest(eng, names):

    cs = contracts()
    for c in cs:
        eng.contracts[c.target] = c
    out = [contract_target(c) for c in cs]
    # the resolution functions: each runs in its own engine instance with the lookup functions replaced by their oracle models
    for i, rc in enumerate(resolve_contracts()):
        def run(eng_, opts, i=i):
            from pyvc.engine import Engine
            import contracts.c20 as me
            e2 = Engine()
            nm2 = me.install(e2)
            me._names(e2, nm2)
            for c in me.contracts():
                e2.contracts[c.target] = c
            me.callee_models(e2)
            c2 = me._no_merge(me.resolve_contracts()[i])
            from pyvc.sidecar import contract_target as ct
            ct(c2).run(e2, opts)
            eng_.obligations.extend(e2.obligations)
            eng_.assumptions_used |= e2.assumptions_used
            eng_.bounded_used = getattr(eng_, "bounded_used", []) + list(getattr(e2, "bounded_used", []))
        from contracts import native_resolve
        out.append(Target(rc.target.replace("aioesphomeapi.", "") + (f"[{rc.label}]" if rc.label else ""), "contract", run, functions=[rc.target],
                          bounded=(native_resolve.bounded_resolve if rc.target.endswith("async_resolve_host") else None)))
    return out

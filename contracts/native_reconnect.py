"""Native scenario for ReconnectLogic.async_update_records (replay behind its loop-invariant obligations): the real method is fed
record batches with no / a PTR / an A / several matching records, while accepting, not accepting and stopped."""
from __future__ import annotations

import asyncio
from types import SimpleNamespace
from unittest.mock import MagicMock


def replay_update_records(o):
    if "async_update_records" not in o["id"]:
        return None, "no native evaluator for this clause"
    from aioesphomeapi.reconnect_logic import TYPE_A, TYPE_PTR
    from aioesphomeapi.client import APIClient
    from aioesphomeapi.reconnect_logic import ReconnectLogic
    loop = asyncio.new_event_loop()
    asyncio.set_event_loop(loop)
    problems = []
    try:
        async def noop(*a):
            return None

        def mk():
            cli = APIClient("mydevice.local", 6053, None)
            rl = ReconnectLogic(client=cli, on_connect=noop, on_disconnect=noop, zeroconf_instance=MagicMock(), name="mydevice")
            calls = []
            rl._connect_from_zeroconf = lambda: calls.append(1)
            return rl, calls

        rl0, _ = mk()
        ptr = lambda alias: SimpleNamespace(new=SimpleNamespace(type=TYPE_PTR, alias=alias, name="_esphomelib._tcp.local."), old=None)     # noqa: E731
        a = lambda name: SimpleNamespace(new=SimpleNamespace(type=TYPE_A, alias=None, name=name), old=None)                                  # noqa: E731
        other = ptr("otherdevice._esphomelib._tcp.local.")
        scen = {
            "no-match": ([other, a("other.local.")], 0, True),
            "ptr-match": ([other, ptr(rl0._ptr_alias)], 1, False),
            "a-match": ([a(rl0._a_name)], 1, False),
            "two-matches": ([ptr(rl0._ptr_alias), a(rl0._a_name)], 1, False),
        }
        for name, (records, want_calls, want_accepting) in scen.items():
            rl, calls = mk()
            rl._accept_zeroconf_records, rl._is_stopped = True, False
            rl.async_update_records(MagicMock(), 0.0, records)
            if len(calls) != want_calls or rl._accept_zeroconf_records != want_accepting:
                problems.append(f"{name}: triggered {len(calls)} (want {want_calls}), still accepting={rl._accept_zeroconf_records} (want {want_accepting})")
        for acc, stopped in ((False, False), (True, True)):
            rl, calls = mk()
            rl._accept_zeroconf_records, rl._is_stopped = acc, stopped
            rl.async_update_records(MagicMock(), 0.0, [ptr(rl._ptr_alias)])
            if calls:
                problems.append(f"triggered although accepting={acc} stopped={stopped}")
    except Exception as e:      # noqa: BLE001
        return None, f"native scenario could not be built: {type(e).__name__}: {e}"
    finally:
        loop.close()
        asyncio.set_event_loop(None)
    return bool(problems), ("; ".join(problems[:4]) or "async_update_records behaves as specified on the native record batches")

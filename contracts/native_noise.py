"""Native replay for the Noise helper contracts: the real APINoiseFrameHelper with a recording fake connection/transport is put
into the counter-model's state, the real handler is called on the model's bytes and the failing clause is re-evaluated."""
from __future__ import annotations

import asyncio
import base64
from unittest.mock import MagicMock

SPECIFIC = ("InvalidEncryptionKeyAPIError", "BadNameAPIError", "HandshakeAPIError", "ProtocolAPIError", "RequiresEncryptionAPIError")


def _helper(state, expected_name=None):
    from aioesphomeapi._frame_helper.noise import APINoiseFrameHelper
    loop = asyncio.new_event_loop()
    asyncio.set_event_loop(loop)
    conn = MagicMock()
    reported = []
    conn.report_fatal_error = lambda e: reported.append(e)
    h = APINoiseFrameHelper(connection=conn, noise_psk=base64.b64encode(bytes(32)).decode(), expected_name=expected_name, client_info="replay", log_name="replay")
    tr = MagicMock()
    h._transport = tr
    h._writer = tr.write
    h._state = state
    return h, reported, loop


def replay_handler(method, argname):
    def replay(o):
        m = o.get("model") or {}
        path = o.get("path") or ""
        v = m.get(argname)
        data = bytes(v["bytes"]) if isinstance(v, dict) and isinstance(v.get("bytes"), list) else b""
        if "UnicodeDecodeError" in path:
            data = (b"\x01" if method == "_handle_hello" else b"\x01") + b"\xff\xfe" + (b"\x00" if method == "_handle_hello" else b"")
        state = m.get("self._state") if isinstance(m.get("self._state"), int) else {"_handle_hello": 1, "_handle_handshake": 2}[method]
        h, reported, loop = _helper(state)
        try:
            exc = None
            try:
                getattr(h, method)(data)
            except Exception as e:     # noqa: BLE001
                exc = e
            raw = exc is not None and type(exc).__name__ not in SPECIFIC and type(exc).__name__ not in ("InvalidTag", "NoiseInvalidMessage", "NoiseValueError")
            detail = f"{method}({data!r}) in state {state}: raised {type(exc).__name__ if exc else None}: {exc}; reported={[type(e).__name__ for e in reported]}"
            return (True, detail) if raw else (False, detail)
        finally:
            loop.close()
            asyncio.set_event_loop(None)
    return replay


REPLAYS = {"_handle_hello": replay_handler("_handle_hello", "server_hello"), "_handle_handshake": replay_handler("_handle_handshake", "msg")}

"""Native replay for the Noise helper contracts: the real APINoiseFrameHelper with a recording fake connection/transport is put
into the counter-model's state, the real handler is called on the model's bytes and the failing clause is re-evaluated."""
from __future__ import annotations

import asyncio
import base64
from unittest.mock import MagicMock

SPECIFIC = ("InvalidEncryptionKeyAPIError", "BadNameAPIError", "HandshakeAPIError", "ProtocolAPIError", "RequiresEncryptionAPIError")


def _helper(state, expected_name=None):
    from aioesphomeapi._frame_helper.noise import APINoiseFrameHelper
    loop = asyncio.new_event_loop()
    asyncio.set_event_loop(loop)
    conn = MagicMock()
    reported = []
    conn.report_fatal_error = lambda e: reported.append(e)
    h = APINoiseFrameHelper(connection=conn, noise_psk=base64.b64encode(bytes(32)).decode(), expected_name=expected_name, client_info="replay", log_name="replay")
    tr = MagicMock()
    h._transport = tr
    h._writer = tr.write
    h._state = state
    return h, reported, loop


def replay_handler(method, argname):
    def replay(o):
        if "raises:" not in o.get("goal", ""):
            return None, "no native evaluator for this clause"
        m = o.get("model") or {}
        path = o.get("path") or ""
        v = m.get(argname)
        data = bytes(v["bytes"]) if isinstance(v, dict) and isinstance(v.get("bytes"), list) else b""
        if "UnicodeDecodeError" in path:
            data = (b"\x01" if method == "_handle_hello" else b"\x01") + b"\xff\xfe" + (b"\x00" if method == "_handle_hello" else b"")
        state = m.get("self._state") if isinstance(m.get("self._state"), int) else {"_handle_hello": 1, "_handle_handshake": 2}[method]
        h, reported, loop = _helper(state)
        try:
            exc = None
            try:
                getattr(h, method)(data)
            except Exception as e:     # noqa: BLE001
                exc = e
            raw = exc is not None and type(exc).__name__ not in SPECIFIC and type(exc).__name__ not in ("InvalidTag", "NoiseInvalidMessage", "NoiseValueError")
            detail = f"{method}({data!r}) in state {state}: raised {type(exc).__name__ if exc else None}: {exc}; reported={[type(e).__name__ for e in reported]}"
            return (True, detail) if raw else (False, detail)
        finally:
            loop.close()
            asyncio.set_event_loop(None)
    return replay


REPLAYS = {"_handle_hello": replay_handler("_handle_hello", "server_hello"), "_handle_handshake": replay_handler("_handle_handshake", "msg")}


# ------------------------------------------------------------------------------------------------------------
# bounded stand-in (never counted as proved): a real Noise_NNpsk0 responder (the noise library itself, same psk and
# prologue) talks to the real helper; the server stream hello ++ handshake ++ N data frames is cut at every pair of
# positions (all 2-cut segmentations up to a stride) and the delivered packets / readiness are compared with what was sent.
# ------------------------------------------------------------------------------------------------------------
def _frame(payload):
    n = len(payload)
    return bytes((1, (n >> 8) & 0xFF, n & 0xFF)) + payload


def _session(cuts, name=b"dev", expected=None, msgs=((42, b"from device"), (7, b""), (300, b"x" * 40)), deviate=None):
    """deviate = (k, kind): the k-th data frame is tampered with (C04): 'marker' (first byte not 0x01), 'flip' (one ciphertext bit),
    'drop', 'dup' (sent twice), 'swap' (with the next one), 'truncate' (tag cut off).  Then exactly msgs[:k] (+ the k-th once for
    'dup') may be delivered, an error must be reported and nothing after the deviation may be delivered."""
    import asyncio as aio
    from aioesphomeapi._frame_helper.noise import APINoiseFrameHelper, ESPHOME_NOISE_BACKEND
    from noise.connection import NoiseConnection
    loop = aio.new_event_loop()
    aio.set_event_loop(loop)
    try:
        psk = bytes(range(32))
        delivered, reported, writes = [], [], []
        ready_at = []
        conn = MagicMock()
        conn.process_packet = lambda t, d: delivered.append((t, bytes(d), bool(h.ready_future.done() and not h.ready_future.cancelled() and h.ready_future.exception() is None)))
        conn.report_fatal_error = lambda e: (reported.append(e), h.close())
        h = APINoiseFrameHelper(connection=conn, noise_psk=base64.b64encode(psk).decode(), expected_name=expected, client_info="bounded", log_name="bounded")
        tr = MagicMock()
        tr.write = lambda d: writes.append(bytes(d))
        h.connection_made(tr)
        resp = NoiseConnection.from_name(b"Noise_NNpsk0_25519_ChaChaPoly_SHA256", backend=ESPHOME_NOISE_BACKEND)
        resp.set_as_responder()
        resp.set_psks(psk)
        resp.set_prologue(b"NoiseAPIInit\x00\x00")
        resp.start_handshake()
        w = writes[0]
        resp.read_message(w[7:])
        stream = _frame(b"\x01" + name + (b"\x00" if name is not None else b"")) if name is not None else _frame(b"\x01")
        stream += _frame(b"\x00" + resp.write_message(b""))
        data_frames = []
        for t, p in msgs:
            hdr = bytes(((t >> 8) & 0xFF, t & 0xFF, (len(p) >> 8) & 0xFF, len(p) & 0xFF))
            data_frames.append(_frame(resp.encrypt(hdr + p)))
        allowed = len(msgs)
        if deviate is not None:
            k, kind = deviate
            allowed = k
            f = data_frames[k]
            if kind == "marker":
                data_frames[k] = bytes((2,)) + f[1:]
            elif kind == "flip":
                data_frames[k] = f[:5] + bytes((f[5] ^ 0x10,)) + f[6:]
            elif kind == "drop":
                del data_frames[k]
            elif kind == "dup":
                data_frames.insert(k, f)
                allowed = k + 1
            elif kind == "swap":
                if k + 1 < len(data_frames):
                    data_frames[k], data_frames[k + 1] = data_frames[k + 1], data_frames[k]
                else:
                    deviate, allowed = None, len(msgs)          # nothing to swap with: an undisturbed session
            elif kind == "truncate":
                data_frames[k] = _frame(f[3:-4])
        stream += b"".join(data_frames)
        pos = [0] + sorted(set(c for c in cuts if 0 < c < len(stream))) + [len(stream)]
        kinds = (bytes, bytearray, memoryview)
        for i in range(len(pos) - 1):
            chunk = stream[pos[i]:pos[i + 1]]
            try:
                h.data_received(kinds[i % 3](chunk))
            except Exception as e:      # noqa: BLE001   (asyncio would call connection_lost)
                h.connection_lost(e)
        got = [(t, d) for t, d, _ in delivered]
        problems = []
        if deviate is not None:
            want = [(t, bytes(p)) for t, p in msgs][:allowed]
            if got != want:
                problems.append(f"after deviation {deviate}: delivered {got!r}, allowed exactly {want!r}")
            if not reported and not (deviate[1] == "drop" and deviate[0] == len(msgs) - 1):
                problems.append(f"after deviation {deviate}: no error was reported")
            bad = [type(e).__name__ for e in reported if type(e).__name__ not in ("ProtocolAPIError", "InvalidEncryptionKeyAPIError", "HandshakeAPIError", "BadNameAPIError", "RequiresEncryptionAPIError", "SocketClosedAPIError")]
            if bad:
                problems.append(f"after deviation {deviate}: unspecific error classes {bad}")
            if deviate[1] == "marker" and reported and type(reported[0]).__name__ != "ProtocolAPIError":
                problems.append(f"wrong marker byte reported as {type(reported[0]).__name__}")
            return len(stream), problems
        if got != [(t, bytes(p)) for t, p in msgs]:
            problems.append(f"delivered {got!r} != sent")
        if any(not r for _, _, r in delivered):
            problems.append("a message was delivered before readiness was signalled")
        if reported:
            problems.append(f"session reported {[type(e).__name__ for e in reported]}")
        if not (h.ready_future.done() and h.ready_future.exception() is None):
            problems.append("readiness not signalled")
        return len(stream), problems
    finally:
        loop.close()
        aio.set_event_loop(None)


def bounded_noise_session(opts=None):
    """All segmentations of the server stream into <= 3 chunks (cut positions on a stride), names present / absent."""
    fails = []
    n, _ = _session(())
    stride = 1 if (opts or {}).get("tier") == "thorough" else 3
    cands = list(range(1, n, stride))
    import itertools
    tried = 0
    for name in (b"dev", None):
        for k in (0, 1, 2):
            for cuts in itertools.combinations(cands, k):
                if k == 2 and (cuts[1] - cuts[0]) % (5 if stride > 1 else 2):
                    continue
                tried += 1
                _, pr = _session(cuts, name=name, expected=("dev" if name else None))
                if pr:
                    fails.append({"cuts": list(cuts), "name": name.decode() if name else None, "problems": pr})
                    if len(fails) >= 3:
                        return fails
    # deviations of C04 on the established session: each tampering of each data frame, in one chunk and frame by frame
    n_ok, _ = _session(())
    for k in (0, 1, 2):
        for kind in ("marker", "flip", "drop", "dup", "swap", "truncate"):
            for cuts in ((), tuple(range(1, n_ok + 40, 23))):
                tried += 1
                _, pr = _session(cuts, deviate=(k, kind))
                if pr:
                    fails.append({"cuts": list(cuts)[:6], "deviation": [k, kind], "problems": pr})
                    if len(fails) >= 3:
                        return fails
    bounded_noise_session.tried = tried
    return fails


def bounded_noise_obligations(opts=None):
    """The bounded Noise session stand-in as an obligation record (backend 'bounded:native', never counted as proved)."""
    import time
    from pyvc.obl import Obligation
    t0 = time.time()
    fails = bounded_noise_session(opts or {})
    n = getattr(bounded_noise_session, "tried", 0)
    return [Obligation(id="C03/bounded:noise-session/delivery-and-readiness-for-every-2-cut-segmentation", property="C03", kind="property",
                       status="refuted" if fails else "discharged", backend="bounded:native", ms=round((time.time() - t0) * 1000, 1),
                       goal=f"real responder (noise library) x real helper: {n} segmentations of hello++handshake++3 data frames into <= 3 chunks, names present/absent",
                       function="aioesphomeapi._frame_helper.noise.APINoiseFrameHelper (whole session, bounded)",
                       model=(fails[0] if fails else None), detail="bounded stand-in for L3-C03 (stream induction); not a proof")]


def bounded_noise_close(opts=None):
    """Bounded stand-in for C08 on the helper side: the connection closes the helper while handling the k-th data frame;
    the frames behind it (same chunk or later chunks, every 1-cut segmentation) must not be delivered."""
    import asyncio as aio
    import itertools
    from aioesphomeapi._frame_helper.noise import APINoiseFrameHelper, ESPHOME_NOISE_BACKEND
    from noise.connection import NoiseConnection
    fails = []
    tried = 0
    for close_at in (0, 1):
        for cut in [None] + list(range(1, 200, 7)):
            loop = aio.new_event_loop()
            aio.set_event_loop(loop)
            try:
                psk = bytes(range(32))
                delivered = []
                conn = MagicMock()

                def pp(t, d):
                    delivered.append((t, bytes(d)))
                    if len(delivered) == close_at + 1:
                        h.close()                      # what APIConnection._cleanup does to its frame helper
                conn.process_packet = pp
                conn.report_fatal_error = lambda e: h.close()
                h = APINoiseFrameHelper(connection=conn, noise_psk=base64.b64encode(psk).decode(), expected_name=None, client_info="b", log_name="b")
                tr = MagicMock()
                writes = []
                tr.write = lambda d: writes.append(bytes(d))
                h.connection_made(tr)
                resp = NoiseConnection.from_name(b"Noise_NNpsk0_25519_ChaChaPoly_SHA256", backend=ESPHOME_NOISE_BACKEND)
                resp.set_as_responder(); resp.set_psks(psk); resp.set_prologue(b"NoiseAPIInit\x00\x00"); resp.start_handshake()
                resp.read_message(writes[0][7:])
                h.data_received(_frame(b"\x01dev\x00") + _frame(b"\x00" + resp.write_message(b"")))
                stream = b"".join(_frame(resp.encrypt(bytes((0, t, 0, 1)) + b"p")) for t in (5, 6, 7))
                chunks = [stream] if cut is None or cut >= len(stream) else [stream[:cut], stream[cut:]]
                for c in chunks:
                    try:
                        h.data_received(c)
                    except Exception as e:   # noqa: BLE001
                        h.connection_lost(e)
                tried += 1
                if len(delivered) != close_at + 1:
                    fails.append({"closed_while_handling_frame": close_at, "cut": cut, "delivered": delivered})
                    if len(fails) >= 2:
                        return fails
            finally:
                loop.close()
                aio.set_event_loop(None)
    bounded_noise_close.tried = tried
    return fails


def bounded_noise_write(opts=None):
    """Bounded stand-in for the Noise side of C02: the real helper writes batches of packets after a real handshake; a real
    responder must decrypt every frame, in order, to 16-bit type ++ 16-bit length ++ payload, from exactly one transport write."""
    import asyncio as aio
    from aioesphomeapi._frame_helper.noise import APINoiseFrameHelper, ESPHOME_NOISE_BACKEND
    from noise.connection import NoiseConnection
    fails = []
    sizes = [0, 1, 2, 127, 128, 255, 256, 257, 300, 1000, 4096, 65000]
    batches = [[(1, s)] for s in sizes] + [[(7, 5), (300, 256), (65535, 0)], [(2, 256), (2, 256)]]
    loop = aio.new_event_loop()
    aio.set_event_loop(loop)
    try:
        psk = bytes(range(32))
        conn = MagicMock()
        h = APINoiseFrameHelper(connection=conn, noise_psk=base64.b64encode(psk).decode(), expected_name=None, client_info="b", log_name="b")
        tr = MagicMock()
        writes = []
        tr.write = lambda d: writes.append(bytes(d))
        h.connection_made(tr)
        resp = NoiseConnection.from_name(b"Noise_NNpsk0_25519_ChaChaPoly_SHA256", backend=ESPHOME_NOISE_BACKEND)
        resp.set_as_responder(); resp.set_psks(psk); resp.set_prologue(b"NoiseAPIInit\x00\x00"); resp.start_handshake()
        resp.read_message(writes[0][7:])
        h.data_received(_frame(b"\x01dev\x00") + _frame(b"\x00" + resp.write_message(b"")))
        for batch in batches:
            del writes[:]
            pk = [(t, bytes((i * 7 + j) % 256 for j in range(n))) for i, (t, n) in enumerate(batch)]
            h.write_packets(pk, False)
            if len(writes) != 1:
                fails.append({"batch": batch, "problem": f"{len(writes)} transport writes"})
                break
            w, pos, got = writes[0], 0, []
            try:
                while pos < len(w):
                    assert w[pos] == 1
                    n = (w[pos + 1] << 8) | w[pos + 2]
                    m = resp.decrypt(w[pos + 3:pos + 3 + n])
                    got.append(((m[0] << 8) | m[1], (m[2] << 8) | m[3], m[4:]))
                    pos += 3 + n
            except Exception as e:     # noqa: BLE001
                fails.append({"batch": batch, "problem": f"responder could not read the frames: {type(e).__name__}: {e}"})
                break
            if got != [(t, len(d), d) for t, d in pk]:
                fails.append({"batch": batch, "problem": "decrypted frames differ from the packets", "got": [(t, n) for t, n, _ in got]})
                break
    finally:
        loop.close()
        aio.set_event_loop(None)
    return fails


def replay_f9(o):
    """Witness for the Noise 16-bit length wrap: the real helper, after a real handshake, writes one packet with a 65516-byte payload."""
    if "noise-frame-fields-fit-16-bits" not in o.get("goal", ""):
        return None, "no native evaluator for this clause"
    import asyncio as aio
    from aioesphomeapi._frame_helper.noise import APINoiseFrameHelper, ESPHOME_NOISE_BACKEND
    from noise.connection import NoiseConnection
    loop = aio.new_event_loop()
    aio.set_event_loop(loop)
    try:
        psk = bytes(range(32))
        h = APINoiseFrameHelper(connection=MagicMock(), noise_psk=base64.b64encode(psk).decode(), expected_name=None, client_info="b", log_name="b")
        tr = MagicMock()
        writes = []
        tr.write = lambda d: writes.append(bytes(d))
        h.connection_made(tr)
        resp = NoiseConnection.from_name(b"Noise_NNpsk0_25519_ChaChaPoly_SHA256", backend=ESPHOME_NOISE_BACKEND)
        resp.set_as_responder(); resp.set_psks(psk); resp.set_prologue(b"NoiseAPIInit\x00\x00"); resp.start_handshake()
        resp.read_message(writes[0][7:])
        h.data_received(_frame(b"\x01dev\x00") + _frame(b"\x00" + resp.write_message(b"")))
        del writes[:]
        h.write_packets([(1, bytes(65516))], False)
        w = writes[0]
        declared = (w[1] << 8) | w[2]
        wrapped = declared != len(w) - 3
        return wrapped, f"write_packets([(1, 65516 zero bytes)]): frame header {w[:3].hex()} declares {declared} bytes, {len(w) - 3} follow"
    finally:
        loop.close()
        aio.set_event_loop(None)

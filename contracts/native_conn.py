"""State-injection replay for APIConnection methods (DESIGN 3.10): the real object is allocated, its slots are set to
the counter-model's pre-state (fakes for helper, socket, timers, futures), the real method is called and the failing
clause is re-evaluated natively.  Returns (confirmed, detail): True = the real code violates the clause on this state,
False = it does not (engine/model disagreement), None = this clause has no native evaluator."""
from __future__ import annotations

import asyncio


class FakeHelper:
    def __init__(self, log, fail=None):
        self.log = log
        self.closed = False
        self.fail = fail
        self.ready_future = None

    def write_packets(self, packets, debug):
        if self.fail is not None:
            raise self.fail
        self.log.append(("write", [(t, bytes(d)) for t, d in packets], self.closed))

    def close(self):
        self.closed = True
        self.log.append(("fh_close",))

    def set_log_name(self, n):
        pass


class FakeSocket:
    def __init__(self, log):
        self.log = log
        self.closed = False

    def close(self):
        self.closed = True
        self.log.append(("sock_close",))


class FakeTimer:
    def __init__(self):
        self.armed = True

    def cancel(self):
        self.armed = False

    def cancelled(self):
        return not self.armed


def _exc_from_model(v):
    import aioesphomeapi.core as core
    if v is None:
        return None
    return core.APIConnectionError("model fatal exception") if "APIConnectionError" in str(v) else Exception("model fatal exception")


FIELDS = ["connection_state", "is_connected", "_handshake_complete", "_send_pending_ping", "_expected_disconnect", "_fatal_exception",
          "_frame_helper", "_socket", "_ping_timer", "_pong_timer", "on_stop", "api_version", "received_name", "_start_connect_future",
          "_finish_connect_future"]


def build(model, loop):
    import aioesphomeapi.connection as C
    from aioesphomeapi.zeroconf import ZeroconfManager
    log = []
    stops = []
    params = C.ConnectionParams(addresses=["h"], port=6053, password=None, client_info="c", keepalive=float(model.get("self._params.keepalive") or 20.0),
                                zeroconf_manager=ZeroconfManager(), noise_psk=None, expected_name=None)
    conn = C.APIConnection(params, (lambda e: stops.append(e)) if model.get("self.on_stop") is not None else None, False, "replay")
    st = str(model.get("self.connection_state", "ConnectionState.CONNECTED")).split(".")[-1]
    conn.connection_state = C.ConnectionState[st]
    conn.is_connected = bool(model.get("self.is_connected", st == "CONNECTED"))
    conn._handshake_complete = bool(model.get("self._handshake_complete", st in ("HANDSHAKE_COMPLETE", "CONNECTED")))
    conn._send_pending_ping = bool(model.get("self._send_pending_ping", False))
    conn._expected_disconnect = bool(model.get("self._expected_disconnect", False))
    conn._fatal_exception = _exc_from_model(model.get("self._fatal_exception"))
    conn._frame_helper = FakeHelper(log) if model.get("self._frame_helper") is not None else None
    conn._socket = FakeSocket(log) if model.get("self._socket") is not None else None
    conn._ping_timer = FakeTimer() if model.get("self._ping_timer") is not None else None
    conn._pong_timer = FakeTimer() if model.get("self._pong_timer") is not None else None
    return conn, log, stops


def snapshot(conn):
    d = {f: getattr(conn, f) for f in FIELDS}
    d["handlers"] = {k: set(v) for k, v in conn._message_handlers.items()}
    d["waiters"] = set(conn._read_exception_futures)
    return d


def replay_method(method, argnames, checks, prepare=None):
    """checks: goal-name prefix -> callable(ctx) -> bool (True = the clause HOLDS natively)."""
    def replay(o):
        goal = o["goal"].split("/")[-1]
        chk = None
        for k, f in checks.items():
            if goal.startswith(k) or k in o["goal"]:
                chk = f
        if chk is None:
            return None, "no native evaluator for this clause"
        m = o.get("model") or {}
        loop = asyncio.new_event_loop()
        asyncio.set_event_loop(loop)
        try:
            conn, log, stops = build(m, loop)
            args = []
            for a in argnames:
                v = m.get(a)
                if isinstance(v, dict) and "bytes" in v:
                    v = bytes(v["bytes"]) if isinstance(v["bytes"], list) else b""
                args.append(v)
            if prepare is not None:
                args = prepare(o, conn, args)
            pre = snapshot(conn)
            exc = None
            try:
                getattr(conn, method)(*args)
            except Exception as e:      # noqa: BLE001
                exc = e
            ctx = {"conn": conn, "pre": pre, "post": snapshot(conn), "log": log, "stops": stops, "exc": exc, "args": args, "model": m}
            holds = chk(ctx)
            detail = (f"{method}({', '.join(repr(a) for a in args)}) on state {pre['connection_state'].name}: "
                      f"exc={type(exc).__name__ if exc else None} log={log[:4]} stops={stops} post-state={ctx['post']['connection_state'].name}")
            return (not holds), detail
        finally:
            loop.close()
            asyncio.set_event_loop(None)
    return replay


def _defined(i):
    import aioesphomeapi.core as core
    return i in core.MESSAGE_TYPE_TO_PROTO


def _unchanged(ctx):
    a, b = ctx["pre"], ctx["post"]
    return all(a[k] == b[k] or a[k] is b[k] for k in a) and not ctx["log"] and not ctx["stops"]


PROCESS_PACKET_CHECKS = {
    "undefined-type-ignored": lambda c: _defined(c["args"][0]) or (_unchanged(c) and c["exc"] is None),
    "only-defined-types-reach-handlers": lambda c: c["exc"] is None or _defined(c["args"][0]),
    # a subscriber that subscribes another one for the same type from inside its callback must not disturb the delivery
    "iterated-container-unchanged": lambda c: c["exc"] is None and len(REPLAY_CALLS.get(id(c["conn"])) or []) == 1,
    "closed-connection-delivers-nothing": lambda c: c["pre"]["connection_state"].name != "CLOSED" or not REPLAY_CALLS.get(id(c["conn"])),
}


def process_packet_prepare(o, conn, args):
    import aioesphomeapi.core as core
    if "DecodeError" in (o.get("path") or ""):
        args = [args[0], b"\xff\xff\xff"]          # an undecodable payload, as on the refuted path
    calls = []
    object.__setattr__(conn, "_replay_calls", calls) if False else None
    REPLAY_CALLS[id(conn)] = calls
    if "iterated-container-unchanged" in o["goal"]:
        if args[0] not in core.MESSAGE_TYPE_TO_PROTO:
            args = [8, b""]                      # PingResponse: a defined type with no internal reaction
        else:
            args = [args[0], b""]
        cls = core.MESSAGE_TYPE_TO_PROTO[args[0]]
        late = lambda m: None                    # noqa: E731

        def sub(m):
            calls.append(m)
            conn.add_message_callback(late, (cls,))
        conn._message_handlers[cls] = {sub}
        return args
    if "handlers.has:T" in (o.get("path") or "") and args[0] in core.MESSAGE_TYPE_TO_PROTO:
        conn._message_handlers[core.MESSAGE_TYPE_TO_PROTO[args[0]]] = {lambda m: calls.append(m)}     # one subscriber, as on the refuted path
    return args


REPLAY_CALLS = {}


def replay_cleanup(o):
    """Native scenario behind the waiter loop of _cleanup (used when one of its invariant obligations fails): a connected connection
    with one finished and two pending waiters is closed, once with a fatal connection error recorded, once with a foreign error, once
    with none.  Confirmed iff a pending waiter is not failed, is failed with something else than the first cause (resp. a
    ReadFailedAPIError caused by it / a plain APIConnectionError), or a finished waiter is touched."""
    if "/loop#1/" not in o["id"] and "waiter" not in o["id"]:
        return None, "no native evaluator for this clause"
    import aioesphomeapi.core as core
    problems = []
    for fatal in (core.RequiresEncryptionAPIError("first cause"), ValueError("foreign"), None):
        loop = asyncio.new_event_loop()
        asyncio.set_event_loop(loop)
        try:
            conn, log, stops = build({"self.connection_state": "ConnectionState.CONNECTED", "self.on_stop": 1, "self._frame_helper": 1, "self._socket": 1}, loop)
            conn._fatal_exception = fatal
            done = loop.create_future()
            done.set_result(None)
            p1, p2 = loop.create_future(), loop.create_future()
            conn._read_exception_futures = {done, p1, p2}
            try:
                conn._cleanup()
            except Exception as e:      # noqa: BLE001
                problems.append(f"_cleanup raised {type(e).__name__}: {e}")
                continue
            if done.exception() is not None:
                problems.append("a finished waiter was failed")
            for p in (p1, p2):
                if not p.done() or p.exception() is None:
                    problems.append(f"a pending waiter was not failed (fatal={type(fatal).__name__})")
                    continue
                ex = p.exception()
                if isinstance(fatal, core.APIConnectionError) and ex is not fatal:
                    problems.append(f"a waiter saw {type(ex).__name__} instead of the first cause {type(fatal).__name__}")
                if fatal is not None and not isinstance(fatal, core.APIConnectionError) and not (isinstance(ex, core.ReadFailedAPIError) and ex.__cause__ is fatal):
                    problems.append(f"a waiter saw {type(ex).__name__} for a foreign first cause")
                if fatal is None and not isinstance(ex, core.APIConnectionError):
                    problems.append(f"a waiter saw {type(ex).__name__} on a plain close")
            if conn._read_exception_futures:
                problems.append("waiters left registered after the close")
            if stops != [False]:
                problems.append(f"stop callback calls {stops}")
        finally:
            loop.close()
            asyncio.set_event_loop(None)
    return (bool(problems)), ("; ".join(problems[:4]) or "closing a connection with finished and pending waiters behaves as specified natively")


REPLAYS = {
    "_cleanup": replay_cleanup,
    "process_packet": replay_method("process_packet", ["msg_type_proto", "data"], PROCESS_PACKET_CHECKS, process_packet_prepare),
}

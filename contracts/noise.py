"""Model of what the frame helpers touch and contracts of the Noise / plaintext helper methods shared by C03, C04 (and C02, C08).

The connection is seen from the helper as an opaque object (kind `Connection`):
  process_packet(type, payload)  recorded in ghost.packets; the connection may close the helper re-entrantly
  report_fatal_error(exc)        recorded in ghost.reported; the connection closes the helper re-entrantly (its _cleanup)
The Noise library and the AEAD are opaque and idealised (A-CRYPTO):
  NoiseConnection.from_name / set_as_initiator / set_psks / set_prologue / start_handshake   recorded in the path's event log
  write_message() -> bytes e, len(e) < 65535 ; read_message(b) returns or raises
  enc(key, nonce, data): bytes with len == len(data) + 16 ; decrypt(nonce, c) returns p with c == enc(key, nonce, p) or raises InvalidTag
"""
import z3

from pyvc.sidecar import *  # noqa: F401,F403
from pyvc import heapmodel, smt
from pyvc.builtins import cls_code, typeof_f, sym_isinstance, ok
from pyvc.contracts import Contract, Clause, eval_clause, _parse_expr
from contracts import conn_model as cm

NOISE = "aioesphomeapi._frame_helper.noise."
BASE = "aioesphomeapi._frame_helper.base."
PT = "aioesphomeapi._frame_helper.plain_text."

enc_f = z3.Function("aead_enc", ObjS, BytesS, BytesS, BytesS)      # ciphertext of (key, 12 nonce bytes, plaintext)
dec_f = z3.Function("aead_dec", ObjS, BytesS, BytesS, BytesS)      # the plaintext a successful decryption of (key, nonce bytes, ciphertext) returns


def _le(size, v):
    """`size` bytes, little-endian, of the integer term v (struct 'L' / 'Q' with '<')."""
    return z3.Concat(*[z3.Unit((v / (256 ** i)) % 256) for i in range(size)])


def noise_nonce_bytes(n):
    """The 96-bit ChaChaPoly nonce of the Noise specification (section 12.3): 32 zero bits, then the 64-bit counter little-endian."""
    return z3.Concat(_le(4, z3.IntVal(0)), _le(8, n))


_nonce_f = z3.Function("noise_nonce", IntS, BytesS)


def noise_nonce(n):
    """The same nonce as an opaque term (keeps the sequence reasoning of the callers small); pack_nonce proves that the bytes the
    code builds are noise_nonce_bytes(n) before it hands out this term."""
    return _nonce_f(n)
b64_f = z3.Function("b64decode", StrS, BytesS)
decode_f = z3.Function("utf8_decode", BytesS, StrS)
recv_name_f = z3.Function("exc_received_name", ObjS, StrS)
has_name_f = z3.Function("exc_has_received_name", ObjS, BoolS)
key_f = z3.Function("cipher_key", ObjS, ObjS)                      # the AEAD key behind an encrypt/decrypt callable

GHOST = {"packets": "seq[tuple[int,bytes]]", "reported": "seq[obj]", "handled": "seq[bytes]", "wire": "seq[bytes]"}


def P(tag, name, text):
    return Clause(name, text, "property", [tag])


def view(h):
    return h._buffer if h._buffer is not None else b""


def RI(h):
    return h._buffer_len == len(view(h)) and (h._buffer is None or type(h._buffer) is bytes)


def install(eng):
    import asyncio
    import binascii
    import logging
    import aioesphomeapi._frame_helper.noise as N
    import aioesphomeapi.core as core
    from cryptography.exceptions import InvalidTag
    cm.install(eng, check_tags=[])
    frame_helper_specs(eng)
    register_specs(eng, "specs.wire")
    declare_ghost(eng, **cm.GHOST, **cm.GHOST_AUX, **cm.GHOST_OWNED, **{k: v for k, v in GHOST.items() if k not in cm.GHOST})
    eng.ghost_types["reported"] = "seq[obj]"
    eng.exception_universe.extend([InvalidTag, ConnectionResetError, UnicodeDecodeError, IndexError, ValueError, binascii.Error] + cm_api_errors())
    for c in list(eng.exception_universe):
        cls_code(c)
    names = eng.hooks.setdefault("names", {})
    m = source.get_module("contracts.noise")
    for fn in ("view", "RI"):
        names[fn] = VFunc("py", node=m.funcs[fn], module="contracts.noise", qualname=fn, closure=None)
    eng.regions_decl["Transport.closed"] = (BoolS, None)

    def bfn(name):
        def deco(f):
            names[name] = VFunc("builtin", name=name, impl=f)
            return f
        return deco

    @bfn("tclosed")
    def _tclosed(eng_, st, args, kwargs):
        v = args[0]
        alts = v.alts if isinstance(v, VUnion) else [(z3.BoolVal(True), v)]
        return ok(st, VBool(simp(z3.Or(*[z3.And(g, z3.BoolVal(False) if isinstance(a, VNoneT) else rget(eng_, st, "Transport.closed", a.e)) for g, a in alts]))))

    @bfn("aead_enc")
    def _aead_enc(eng_, st, args, kwargs):
        return ok(st, VBytes(enc_f(args[0].e, noise_nonce(as_int(args[1])), args[2].e)))

    @bfn("aead_dec")
    def _aead_dec(eng_, st, args, kwargs):
        return ok(st, VBytes(dec_f(args[0].e, noise_nonce(as_int(args[1])), args[2].e)))

    @bfn("key_of")
    def _key_of(eng_, st, args, kwargs):
        return ok(st, VObj(key_f(box(eng_, st, args[0])), "Key"))

    @bfn("utf8")
    def _utf8(eng_, st, args, kwargs):
        return ok(st, VStr(decode_f(args[0].e)))

    @bfn("last_reported")
    def _last(eng_, st, args, kwargs):
        g = st.heap[st.ghost_oid].f["reported"]
        return ok(st, VObj(g.e[z3.Length(g.e) - 1], "Exception"))

    @bfn("exc_name")
    def _exc_name(eng_, st, args, kwargs):
        return ok(st, VStr(recv_name_f(box(eng_, st, args[0]))))

    @bfn("exc_has_name")
    def _exc_has_name(eng_, st, args, kwargs):
        return ok(st, VBool(has_name_f(box(eng_, st, args[0]))))

    @bfn("proto_calls")
    def _proto_calls(eng_, st, args, kwargs):
        return ok(st, VTuple([VTuple([VStr(ev[1])] + list(ev[2])) for ev in st.events if ev[0] == "proto"]))

    # ---- the connection as seen from the helper ------------------------------------------------------------------
    def reentrant_close(eng_, st, may_complete_ready=True):
        """What the connection may do to the helper synchronously: call its close() (state -> CLOSED, transport dropped)."""
        for o in st.heap.values():
            if o.kind == "inst" and o.cls in eng_.class_specs and "_transport" in o.f and "_state" in o.f:
                closed = z3.Bool(fresh_name("closed_by_connection"))
                old_t = o.f["_transport"]
                o.f["_state"] = VInt(simp(z3.If(closed, z3.IntVal(4), as_int(o.f["_state"]))))
                nt = fresh(eng_, st, "opt[obj[Transport]]", "transport")
                nw = fresh(eng_, st, "opt[callable[Writer]]", "writer")
                st.assume(z3.Implies(closed, z3.And(is_none(nt), is_none(nw))))
                st.assume(z3.Implies(z3.Not(closed), z3.And(cm.same_value(nt, old_t), cm.same_value(nw, o.f["_writer"]))))
                o.f["_transport"], o.f["_writer"] = nt, nw
                rf = o.f["ready_future"]
                d_old = rget(eng_, st, "Future.done", rf.e)
                e_old = rget(eng_, st, "Future.exc", rf.e)
                nd, ne = z3.Bool(fresh_name("rf_done")), z3.Const(fresh_name("rf_exc"), ObjS)
                st.assume(z3.Implies(d_old, z3.And(nd, ne == e_old)))
                st.assume(z3.Implies(closed, nd))
                st.assume(z3.Implies(z3.And(z3.Not(closed), z3.Not(d_old)), z3.Not(nd)))
                st.assume(z3.Implies(z3.And(nd, z3.Not(d_old)), z3.And(ne != cm.noexc, sym_isinstance(eng_, VObj(ne, "Exception"), core.APIConnectionError))))
                rset(eng_, st, "Future.done", rf.e, nd)
                rset(eng_, st, "Future.exc", rf.e, ne)
            elif o.kind == "inst" and o.cls in eng_.class_specs and "_transport" in o.f:
                o.f["_transport"] = fresh(eng_, st, "opt[obj[Transport]]", "transport")
                o.f["_writer"] = fresh(eng_, st, "opt[callable[Writer]]", "writer")

    def process_packet(eng_, st, recv, args, kwargs):
        alts = eng_.split_union(args[1], st)
        if len(alts) != 1 or not isinstance(alts[0][1], VBytes):
            raise Unsupported("process_packet payload is not definitely bytes")
        st = alts[0][0]
        ghost_append(eng_, st, "packets", VTuple([args[0], VBytes(alts[0][1].e)]))
        reentrant_close(eng_, st)
        s_exc = st.clone()
        s_exc.note("process_packet!raises")
        s_exc.events = s_exc.events + [("pp_raised",)]
        return [(st, VNone), (s_exc, Raised(eng_.fresh_exception(s_exc, Exception)))]
    eng.obj_methods[("Connection", "process_packet")] = process_packet

    def box_facts(eng_, st, ref, bxa):
        """The opaque view of an exception object built here exposes its received_name attribute."""
        if "received_name" in st.heap[ref.oid].f:
            rn = st.heap[ref.oid].f["received_name"]
            for g, a in (rn.alts if isinstance(rn, VUnion) else [(z3.BoolVal(True), rn)]):
                if isinstance(a, VStr):
                    st.fact(z3.Implies(g, z3.And(has_name_f(bxa), recv_name_f(bxa) == a.e)))
                else:
                    st.fact(z3.Implies(g, z3.Not(has_name_f(bxa))))
    eng.hooks["box_facts"] = box_facts

    def report_fatal_error(eng_, st, recv, args, kwargs):
        ex = args[0]
        bx = box(eng_, st, ex)
        ghost_append(eng_, st, "reported", VObj(bx, "Exception"))
        reentrant_close(eng_, st)
        return ok(st, VNone)
    eng.obj_methods[("Connection", "report_fatal_error")] = report_fatal_error

    # ---- transport ---------------------------------------------------------------------------------------------------
    def transport_close(eng_, st, recv, args, kwargs):
        rset(eng_, st, "Transport.closed", recv.e, z3.BoolVal(True))
        return ok(st, VNone)
    eng.obj_methods[("Transport", "close")] = transport_close
    eng.obj_attrs[("Transport", "write")] = lambda e, s, v: VObj(z3.Const("writer_of_" + str(v.e), ObjS), "Writer")

    # ---- noise library -----------------------------------------------------------------------------------------------
    def from_name(eng_, st, args, kwargs):
        p = eng_.new_obj(st, "proto", "NoiseProto")
        st.events = st.events + [("proto", "from_name", [args[1] if len(args) > 1 else VNone])]
        return ok(st, VObj(p, "NoiseProto"))
    eng.builtins[id(N.NoiseConnection.from_name.__func__)] = from_name
    eng._keep_alive_refs = getattr(eng, "_keep_alive_refs", []) + [N.NoiseConnection.from_name.__func__]
    prev_class_attr = eng.hooks.get("class_attr")

    def rec(name):
        def impl(eng_, st, recv, args, kwargs):
            st.events = st.events + [("proto", name, list(args))]
            return ok(st, VNone)
        return impl
    for nm in ("set_as_initiator", "set_psks", "set_prologue", "start_handshake"):
        eng.obj_methods[("NoiseProto", nm)] = rec(nm)

    def write_message(eng_, st, recv, args, kwargs):
        e = fresh(eng_, st, "bytes", "handshake_e")
        st.fact(z3.Length(e.e) < 65535)              # a Noise handshake message is at most 65535 bytes (Noise spec); NN: 48 bytes
        return ok(st, e)
    eng.obj_methods[("NoiseProto", "write_message")] = write_message

    def read_message(eng_, st, recv, args, kwargs):
        s_bad = st.clone()
        s_bad.note("read_message!raises")
        s_bad.events = s_bad.events + [("read_message_failed",)]
        st.events = st.events + [("read_message_ok",)]
        return [(st, VBytes(b"")), (s_bad, Raised(eng_.fresh_exception(s_bad, Exception)))]
    eng.obj_methods[("NoiseProto", "read_message")] = read_message
    eng.obj_attrs[("NoiseProto", "noise_protocol")] = lambda e, s, v: VObj(v.e, "NoiseProtocolState")
    for side, kind in (("cipher_state_decrypt", "dec"), ("cipher_state_encrypt", "enc")):
        eng.obj_attrs[("NoiseProtocolState", side)] = (lambda kind_: lambda e, s, v: VObj(z3.Const(f"cs_{kind_}_{v.e}", ObjS), "CipherState:" + kind_))(kind)
    for kind in ("dec", "enc"):
        eng.obj_attrs[("CipherState:" + kind, "cipher")] = (lambda k: lambda e, s, v: VObj(v.e, "CryptoCipher:" + k))(kind)
        eng.obj_attrs[("CipherState:" + kind, "n")] = lambda e, s, v: VInt(0)           # A-CRYPTO: nonces start at 0 after the handshake
        eng.obj_attrs[("CryptoCipher:" + kind, "cipher")] = (lambda k: lambda e, s, v: VObj(v.e, "Aead:" + k))(kind)
    eng.obj_attrs[("Aead:enc", "encrypt")] = lambda e, s, v: VObj(v.e, "AeadEncrypt")
    eng.obj_attrs[("Aead:dec", "decrypt")] = lambda e, s, v: VObj(v.e, "AeadDecrypt")

    def aead_encrypt(eng_, st, fv, args, kwargs):
        nonce, data = args[0], args[1]
        c = enc_f(key_f(fv.e), nonce.e, data.e)
        st.fact(z3.Length(c) == z3.Length(data.e) + 16)
        return ok(st, VBytes(c))
    eng.callout_models["AeadEncrypt"] = aead_encrypt

    def aead_decrypt(eng_, st, fv, args, kwargs):
        nonce, data = args[0], args[1]
        s_bad = st.clone()
        s_bad.note("decrypt!InvalidTag")
        p = VBytes(dec_f(key_f(fv.e), nonce.e, data.e))
        # A-CRYPTO (ideal AEAD): decryption succeeds only for a ciphertext that is the encryption, under the same key and nonce, of the plaintext returned
        st.assume(data.e == enc_f(key_f(fv.e), nonce.e, p.e))
        st.fact(z3.Length(data.e) == z3.Length(p.e) + 16)
        return [(st, p), (s_bad, Raised(eng_.make_exc(s_bad, InvalidTag, [])))]
    eng.callout_models["AeadDecrypt"] = aead_decrypt

    def pack_nonce(eng_, st, args, kwargs):
        """PACK_NONCE = partial(Struct(fmt).pack, *fixed): the bytes are computed from the format the module really uses (read from the
        live object), so that a nonce laid out differently from the Noise specification is a different nonce for the idealised AEAD."""
        import struct as _struct
        pn = N.PACK_NONCE
        st_obj = getattr(getattr(pn, "func", None), "__self__", None)
        if not isinstance(st_obj, _struct.Struct) or not st_obj.format.startswith("<") or any(ch not in "BHLQ" for ch in st_obj.format[1:]):
            raise Unsupported("PACK_NONCE is not partial(Struct('<...').pack, ...) over unsigned little-endian fields")
        vals = [z3.IntVal(int(a)) for a in pn.args] + [as_int(a) for a in args]
        sizes = [{"B": 1, "H": 2, "L": 4, "Q": 8}[ch] for ch in st_obj.format[1:]]
        if len(vals) != len(sizes):
            return ok(st, eng_.raise_py(st, _struct.error, "pack expected a different number of items"))
        built = z3.Concat(*[_le(sz, v) for sz, v in zip(sizes, vals)])
        n = as_int(args[-1])
        from pyvc.contracts import oblige as _ob
        _ob(eng_, st, built == noise_nonce_bytes(n), "nonce-bytes-are-32-zero-bits-then-the-counter-little-endian", kind="property")
        return ok(st, VBytes(noise_nonce(n)))
    eng.builtins[id(N.PACK_NONCE)] = pack_nonce

    def a2b(eng_, st, args, kwargs):
        s_bad = st.clone()
        s_bad.note("a2b_base64!Error")
        return [(st, VBytes(b64_f(args[0].e))), (s_bad, Raised(eng_.make_exc(s_bad, binascii.Error, [])))]
    eng.builtins[id(binascii.a2b_base64)] = a2b

    def bytes_decode(eng_, st, recv, args, kwargs):
        s_bad = st.clone()
        s_bad.note("decode!UnicodeDecodeError")
        return [(st, VStr(decode_f(recv.e))), (s_bad, Raised(eng_.make_exc(s_bad, UnicodeDecodeError, [])))]
    eng.hooks["bytes_decode"] = bytes_decode

    prev_lift = eng.hooks["lift"]

    def lift(eng_, obj, st):
        if isinstance(obj, logging.Logger):
            return VObj(z3.Const("logger", ObjS), "Logger")
        if isinstance(obj, N.ESPHomeNoiseBackend):
            return VObj(z3.Const("backend", ObjS), "Backend")
        return prev_lift(eng_, obj, st)
    eng.hooks["lift"] = lift
    eng.builtins[id(asyncio.get_event_loop)] = lambda e, s, a, k: ok(s, VObj(z3.Const("the_loop", ObjS), "Loop"))
    eng.obj_methods[("Logger", "isEnabledFor")] = lambda e, s, r, a, k: ok(s, VBool(z3.Bool(fresh_name("debug_on"))))

    for k in cm_api_errors() + [InvalidTag]:
        names.setdefault(k.__name__, VClass(k))
    return names


def cm_api_errors():
    import aioesphomeapi.core as core
    return [getattr(core, n) for n in dir(core) if isinstance(getattr(core, n), type) and issubclass(getattr(core, n), Exception)]


# ------------------------------------------------------------------------------------------------------------
# contracts
# ------------------------------------------------------------------------------------------------------------
SELF = "inst[APINoiseFrameHelper]"


def _touch(eng, st):
    for r in list(cm.REGIONS) + ["Transport.closed"]:
        region(eng, st, r)


_RealContract = Contract


def Contract(*a, **kw):      # noqa: N802  (every helper contract starts with all regions present, so old() can read them)
    user = kw.pop("setup", None)

    def setup(eng, st):
        _touch(eng, st)
        if user:
            user(eng, st)
    return _RealContract(*a, setup=setup, **kw)

FRAME_MODS = ["self._state", "self._server_name", "self._transport", "self._writer", "self._encrypt_cipher", "self._decrypt_cipher",
              "region:Future.done", "region:Future.exc", "region:Transport.closed", "ghost.reported", "ghost.packets", "ghost.wire"]
MONO = ("state-only-advances", "self._state >= old(self._state) and self._state <= 4")
VALID = ("state-valid", "self._state >= 1 and self._state <= 4 and iff(self._transport is None, self._writer is None) and "
                        "implies(self._state == 3, self._decrypt_cipher is not None and self._encrypt_cipher is not None and self._decrypt_cipher._nonce >= 0)")
NO_DELIVERY = ("delivers-nothing", "ghost.packets == old(ghost.packets)")
GROWS = ("reports-are-only-added", "len(ghost.reported) >= len(old(ghost.reported))")
KEEPS_NAME = ("server-name-kept", "self._server_name == old(self._server_name)")


def handle_error_contract():
    return Contract(
        NOISE + "APINoiseFrameHelper._handle_error", self_type=SELF, params={"exc": "exc[Exception]"}, tags=["C04"], requires=[VALID],
        ensures=[
            P("C04", "reported-exactly-once", "len(ghost.reported) == len(old(ghost.reported)) + 1 and ghost.reported[:len(old(ghost.reported))] == old(ghost.reported)"),
            P("C04", "reset-during-hello-is-a-handshake-error",
              "implies(old(self._state) == 1 and typeof_is(old(exc), ConnectionResetError), exact_type(last_reported(), HandshakeAPIError))"),
            P("C04", "authentication-failure-is-an-invalid-key-error-carrying-the-server-name",
              "implies(not (old(self._state) == 1 and typeof_is(old(exc), ConnectionResetError)) and typeof_is(old(exc), InvalidTag), "
              "exact_type(last_reported(), InvalidEncryptionKeyAPIError) and "
              "(exc_has_name(last_reported()) == (old(self._server_name) is not None)) and "
              "implies(old(self._server_name) is not None, exc_name(last_reported()) == old(self._server_name)))"),
            P("C04", "other-errors-are-reported-unchanged",
              "implies(not (old(self._state) == 1 and typeof_is(old(exc), ConnectionResetError)) and not typeof_is(old(exc), InvalidTag), last_reported() is old(exc))"),
            P("C04", "a-pending-readiness-wait-receives-the-same-error",
              "implies(not old(fdone(self.ready_future)), fdone(self.ready_future) and has_exc(self.ready_future) and fexc(self.ready_future) is last_reported())"),
            ("completed-wait-untouched", "implies(old(fdone(self.ready_future)), fdone(self.ready_future) and fexc(self.ready_future) is old(fexc(self.ready_future)))"),
            MONO, VALID, NO_DELIVERY, KEEPS_NAME,
        ],
        modifies=FRAME_MODS,
    )


def close_contract():
    return Contract(
        NOISE + "APINoiseFrameHelper.close", self_type=SELF, tags=["C04", "C08"], requires=[VALID],
        ensures=[
            P("C08", "closed-state-and-transport-released", "self._state == 4 and self._transport is None and self._writer is None and "
                                                            "implies(old(self._transport) is not None, tclosed(old(self._transport)))"),
            P("C04", "a-pending-readiness-wait-is-failed", "fdone(self.ready_future) and implies(not old(fdone(self.ready_future)), "
                                                           "has_exc(self.ready_future) and typeof_is(fexc(self.ready_future), APIConnectionError))"),
            ("reports-nothing", "ghost.reported == old(ghost.reported)"), NO_DELIVERY,
            VALID, KEEPS_NAME,
            ("completed-wait-untouched", "implies(old(fdone(self.ready_future)), fexc(self.ready_future) is old(fexc(self.ready_future)))"),
        ],
        modifies=FRAME_MODS,
    )


def handle_error_and_close_contract():
    return Contract(
        BASE + "APIFrameHelper._handle_error_and_close", self_type=SELF, params={"exc": "exc[Exception]"}, tags=["C04"], label="noise", requires=[VALID],
        ensures=[
            P("C04", "reported-then-closed", "len(ghost.reported) == len(old(ghost.reported)) + 1 and self._state == 4 and self._transport is None and self._writer is None"),
            ("same-mapping-as-_handle_error", "implies(not typeof_is(exc, InvalidTag) and not typeof_is(exc, ConnectionResetError), last_reported() is exc)"),
            ("prefix", "ghost.reported[:len(old(ghost.reported))] == old(ghost.reported)"),
            ("ready-failed", "fdone(self.ready_future) and implies(not old(fdone(self.ready_future)), has_exc(self.ready_future) and "
                             "implies(not typeof_is(exc, InvalidTag) and not typeof_is(exc, ConnectionResetError), fexc(self.ready_future) is exc))"),
            MONO, VALID, NO_DELIVERY, KEEPS_NAME,
        ],
        modifies=FRAME_MODS,
    )


def handle_hello_contract():
    NAME = "utf8(server_hello[1:server_hello.find(b'\\x00', 1)])"
    HAS = "server_hello.find(b'\\x00', 1) != -1"
    OKSEL = "len(server_hello) > 0 and server_hello[0] == 1"
    ACCEPT = f"({OKSEL}) and (not ({HAS}) or self._expected_name is None or {NAME} == self._expected_name)"
    return Contract(
        NOISE + "APINoiseFrameHelper._handle_hello", self_type=SELF, params={"server_hello": "bytes"}, tags=["C03", "C04"],
        requires=[("in-hello-state", "self._state == 1"), VALID],
        ensures=[
            P("C03", "accepted-iff-selector-ok-and-name-acceptable", f"iff(self._state == 2, {ACCEPT})"),
            P("C03", "accepting-reports-nothing", f"implies({ACCEPT}, ghost.reported == old(ghost.reported) and self._transport is old(self._transport))"),
            P("C03", "announced-name-recorded", f"implies(({OKSEL}) and ({HAS}), self._server_name == {NAME})"),
            P("C04", "empty-hello-or-unknown-selector-is-a-handshake-error",
              f"implies(not ({OKSEL}), self._state == 4 and len(ghost.reported) == len(old(ghost.reported)) + 1 and exact_type(last_reported(), HandshakeAPIError))"),
            P("C04", "name-mismatch-is-a-bad-name-error-carrying-the-received-name",
              f"implies(({OKSEL}) and ({HAS}) and self._expected_name is not None and {NAME} != self._expected_name, "
              f"self._state == 4 and len(ghost.reported) == len(old(ghost.reported)) + 1 and exact_type(last_reported(), BadNameAPIError) and exc_name(last_reported()) == {NAME})"),
            NO_DELIVERY, MONO, VALID, GROWS,
        ],
        raises={"UnicodeDecodeError": {"kind": "property", "tags": ["C04"], "when": "False"}},
        modifies=FRAME_MODS,
    )


def error_on_incorrect_preamble_noise_contract():
    return Contract(
        NOISE + "APINoiseFrameHelper._error_on_incorrect_preamble", self_type=SELF, params={"msg": "bytes"}, tags=["C04"], requires=[VALID],
        ensures=[
            P("C04", "mac-failure-is-an-invalid-key-error-else-handshake-error",
              "self._state == 4 and len(ghost.reported) == len(old(ghost.reported)) + 1 and "
              "(exact_type(last_reported(), InvalidEncryptionKeyAPIError) if utf8(msg[1:]) == 'Handshake MAC failure' else exact_type(last_reported(), HandshakeAPIError))"),
            ("ready-failed", "fdone(self.ready_future) and implies(not old(fdone(self.ready_future)), has_exc(self.ready_future))"),
            NO_DELIVERY, MONO, VALID, GROWS,
        ],
        raises={"UnicodeDecodeError": {"kind": "auxiliary", "ensures": [("nothing-happened", "self._state == old(self._state) and ghost.reported == old(ghost.reported) and "
                                                                         "ghost.packets == old(ghost.packets) and fdone(self.ready_future) == old(fdone(self.ready_future))")]}},
        modifies=FRAME_MODS,
    )


def handle_handshake_contract():
    return Contract(
        NOISE + "APINoiseFrameHelper._handle_handshake", self_type=SELF, params={"msg": "bytes"}, tags=["C03", "C04"],
        requires=[VALID, ("in-handshake-state", "self._state == 2")],
        ensures=[
            P("C03", "ready-only-after-the-handshake-message-was-accepted",
              "implies(self._state == 3, len(msg) > 0 and msg[0] == 0 and read_message_ok and fdone(self.ready_future) and "
              "self._encrypt_cipher is not None and self._decrypt_cipher is not None and self._encrypt_cipher._nonce == 0 and self._decrypt_cipher._nonce == 0)"),
            P("C03", "readiness-signalled-exactly-when-ready", "implies(not old(fdone(self.ready_future)), iff(fdone(self.ready_future) and not has_exc(self.ready_future), self._state == 3))"),
            P("C04", "error-frame-closes-with-a-specific-error",
              "implies(len(msg) > 0 and msg[0] != 0, self._state == 4 and len(ghost.reported) == len(old(ghost.reported)) + 1 and typeof_is(last_reported(), HandshakeAPIError))"),
            NO_DELIVERY, MONO, VALID, GROWS,
        ],
        # InvalidStateError: the handshake frame raced with the handshake timeout that already failed the readiness wait
        raises={"Exception": {"kind": "property", "tags": ["C04"], "when": "read_message_failed or old(fdone(self.ready_future))",
                              "ensures": [("nothing-signalled-ready", "implies(not old(fdone(self.ready_future)), self._state == 2 and not fdone(self.ready_future))"), NO_DELIVERY]}},
        modifies=FRAME_MODS,
    )


def handle_frame_contract():
    K = "key_of(old(self._decrypt_cipher._decrypt))"
    D = f"aead_dec({K}, old(self._decrypt_cipher._nonce), frame)"
    return Contract(
        NOISE + "APINoiseFrameHelper._handle_frame", self_type=SELF, params={"frame": "bytes"}, tags=["C03", "C04"],
        # frames are decrypted and delivered only by a helper that is READY: not before the handshake completed (C03), not after close (C08)
        requires=[VALID, Clause("delivery-only-while-ready", "self._state == 3 and self._decrypt_cipher is not None", "property", ["C03", "C08"]),
                  ("nonce-nonneg", "self._decrypt_cipher._nonce >= 0")],
        ensures=[
            Clause("delivers-exactly-the-authenticated-message",
                   f"frame == aead_enc({K}, old(self._decrypt_cipher._nonce), {D}) and ghost.packets == old(ghost.packets) + ((({D})[0] * 256 + ({D})[1], ({D})[4:]),)",
                   "property", ["C03", "C04"]),
            # (C04) returning normally means the frame authenticated under the next nonce and was consumed: no frame is skipped silently
            Clause("nonce-advances-by-one", "self._decrypt_cipher._nonce == old(self._decrypt_cipher._nonce) + 1", "property", ["C03", "C04"]),
            MONO, VALID, GROWS,
        ],
        raises={
            "InvalidTag": {"kind": "property", "ensures": [("forged-frame-delivers-nothing", "pp_raised or ghost.packets == old(ghost.packets)"),
                                                           ("nonce-not-consumed", "pp_raised or self._decrypt_cipher._nonce == old(self._decrypt_cipher._nonce)")]},
            # an authentic frame shorter than its 4-byte inner header: the device itself is not conformant (outside C03's premise)
            "IndexError": {"kind": "auxiliary", "ensures": [("delivers-nothing", "pp_raised or ghost.packets == old(ghost.packets)")]},
            "Exception": {"kind": "auxiliary"},
        },
        modifies=FRAME_MODS + ["self._decrypt_cipher._nonce"],
    )


def handle_closed_contract():
    return Contract(
        NOISE + "APINoiseFrameHelper._handle_closed", self_type=SELF, params={"frame": "bytes"}, tags=["C04", "C08"], requires=[VALID],
        ensures=[P("C08", "a-closed-helper-delivers-nothing", "ghost.packets == old(ghost.packets)"),
                 ("reports-a-protocol-error", "len(ghost.reported) == len(old(ghost.reported)) + 1 and exact_type(last_reported(), ProtocolAPIError)"), MONO, VALID],
        modifies=FRAME_MODS,
    )


def noise_data_received_contract():
    b0 = "(old(view(self)) + bytes(data))"
    return Contract(
        NOISE + "APINoiseFrameHelper.data_received", self_type=SELF, params={"data": "byteslike"}, tags=["C03"],
        requires=[("RI", "RI(self)"), VALID],
        ensures=[P("C03", "each-complete-frame-handled-exactly-once-in-order", f"ghost.handled == old(ghost.handled) + nf_frames({b0})"),
                 P("C03", "retains-exactly-the-partial-tail", f"implies(not nf_bad({b0}), view(self) == nf_tail({b0}))"),
                 # (C04) a wrong marker byte, in whatever state, ends the session with a protocol error; by the first clause nothing after it is handled
                 P("C04", "a-wrong-marker-byte-is-a-protocol-error-and-closes", f"implies(nf_bad({b0}), self._state == 4 and len(ghost.reported) > len(old(ghost.reported)) "
                                                                                "and exact_type(last_reported(), ProtocolAPIError))"),
                 ("RI", "RI(self)", "auxiliary")],
        raises={"Exception": {"ensures": [("RI", "RI(self)")], "kind": "auxiliary"}},
        modifies=FRAME_MODS + ["ghost.handled", "self._buffer", "self._buffer_len", "self._pos", "self._decrypt_cipher._nonce"],
        loops={"loop#1": dict(
            invariant=["RI(self)", VALID[1],
                       f"ghost.handled + nf_frames(view(self)) == old(ghost.handled) + nf_frames({b0})",
                       f"nf_tail(view(self)) == nf_tail({b0})", f"nf_bad(view(self)) == nf_bad({b0})",
                       "len(ghost.reported) >= len(old(ghost.reported))"],
            modifies=FRAME_MODS + ["ghost.handled", "self._buffer", "self._buffer_len", "self._pos", "self._decrypt_cipher._nonce"],
            decreases="self._buffer_len",
            body_hints=["unfold(nf_frames(view(self)))", "unfold(nf_tail(view(self)))", "unfold(nf_bad(view(self)))", "assert view(self)[0:] == view(self)",
                        "hdr3(view(self))"],
            exit_hints=["unfold(nf_frames(view(self)))", "unfold(nf_tail(view(self)))", "unfold(nf_bad(view(self)))"],
        )},
    )


def send_hello_handshake_contract():
    return Contract(
        NOISE + "APINoiseFrameHelper._send_hello_handshake", self_type=SELF, tags=["C03"],
        requires=[("writer-set", "self._writer is not None")],
        ensures=[P("C03", "one-write-of-hello-then-the-handshake-frame",
                   "len(ghost.wire) == len(old(ghost.wire)) + 1 and ghost.wire[:len(old(ghost.wire))] == old(ghost.wire) and "
                   "hello_shape(ghost.wire[len(old(ghost.wire))])")],
        raises={"OSError": {"kind": "auxiliary"}, "RuntimeError": {"kind": "auxiliary"}},
        modifies=["ghost.wire"],
    )


def decode_psk_contract():
    return Contract(
        NOISE + "APINoiseFrameHelper._decode_noise_psk", self_type=SELF, result="bytes", tags=["C04"],
        ensures=[P("C04", "returns-only-a-32-byte-key", "len(result) == 32 and result == b64(self._noise_psk) and not b64_fails")],
        raises={"InvalidEncryptionKeyAPIError": {"kind": "property", "when": "b64_fails or len(b64(self._noise_psk)) != 32",
                                                 "ensures": [("nothing-written", "ghost.wire == old(ghost.wire)")]}},
        modifies=[],
    )


def setup_proto_contract():
    return Contract(
        NOISE + "APINoiseFrameHelper._setup_proto", self_type=SELF, tags=["C03", "C04"],
        ensures=[P("C03", "protocol-role-key-and-prologue",
                   "proto_calls() == (('from_name', b'Noise_NNpsk0_25519_ChaChaPoly_SHA256'), ('set_as_initiator',), ('set_psks', b64(self._noise_psk)), "
                   "('set_prologue', b'NoiseAPIInit\\x00\\x00'), ('start_handshake',)) and len(b64(self._noise_psk)) == 32"),
                 ("nothing-written", "ghost.wire == old(ghost.wire)")],
        raises={"InvalidEncryptionKeyAPIError": {"kind": "property", "when": "b64_fails or len(b64(self._noise_psk)) != 32",
                                                 "ensures": [("rejected-before-anything-is-sent", "ghost.wire == old(ghost.wire)")]}},
        modifies=["self._proto"],
    )


def noise_write_packets_contract():
    K = "key_of(old(self._encrypt_cipher._encrypt))"
    return Contract(
        NOISE + "APINoiseFrameHelper.write_packets", self_type=SELF, params={"packets": "seq[tuple[int,bytes]]", "debug_enabled": "bool"}, tags=["C02"],
        requires=[("handshake-complete", "self._encrypt_cipher is not None and self._writer is not None and self._encrypt_cipher._nonce >= 0"),
                  ("fields-fit-16-bits", "fits16(packets, len(packets))")],
        ensures=[P("C02", "single-write-of-exactly-the-encrypted-frames",
                   f"ghost.wire == old(ghost.wire) + (noise_frames(packets, len(packets), {K}, old(self._encrypt_cipher._nonce)),)"),
                 P("C02", "consecutive-nonces", "self._encrypt_cipher._nonce == old(self._encrypt_cipher._nonce) + len(packets)")],
        raises={"OSError": {"kind": "auxiliary"}, "RuntimeError": {"kind": "auxiliary"}},
        modifies=["ghost.wire", "self._encrypt_cipher._nonce"],
        loops={"loop#1": dict(
            index="_i", types={"out": "list[bytes]"},
            invariant=[f"b''.join(out) == noise_frames(packets, _i, {K}, old(self._encrypt_cipher._nonce))", "ghost.wire == old(ghost.wire)",
                       "self._encrypt_cipher._nonce == old(self._encrypt_cipher._nonce) + _i", "fits16(packets, len(packets))",
                       "key_of(self._encrypt_cipher._encrypt) is " + K],
            modifies=["self._encrypt_cipher._nonce"],
            entry_hints=f"unfold(noise_frames(packets, 0, {K}, self._encrypt_cipher._nonce))",
            body_hints="unfold(fits16(packets, len(packets)))\nfits16_at(packets, len(packets), _i)",
            end_hints=f"unfold(noise_frames(packets, _i, {K}, old(self._encrypt_cipher._nonce)))")},
    )


def plain_preamble_contract():
    return Contract(
        PT + "APIPlaintextFrameHelper._error_on_incorrect_preamble", self_type="inst[APIPlaintextFrameHelper]", params={"preamble": "int"}, tags=["C04"],
        ensures=[P("C04", "encrypted-device-gives-requires-encryption-else-protocol-error",
                   "len(ghost.reported) == len(old(ghost.reported)) + 1 and self._transport is None and "
                   "(exact_type(last_reported(), RequiresEncryptionAPIError) if preamble == 1 else exact_type(last_reported(), ProtocolAPIError))"),
                 ("ready-failed", "fdone(self.ready_future)"), NO_DELIVERY],
        modifies=["self._transport", "self._writer", "region:Future.done", "region:Future.exc", "region:Transport.closed", "ghost.reported"],
    )


def init_contract():
    return Contract(
        NOISE + "APINoiseFrameHelper.__init__", self_type=SELF, tags=["C04", "C03"],
        params={"connection": "obj[Connection]", "noise_psk": "str", "expected_name": "opt[str]", "client_info": "str", "log_name": "str"},
        ensures=[P("C04", "a-helper-exists-only-for-a-valid-key", "len(b64(noise_psk)) == 32 and not b64_fails and self._noise_psk == noise_psk"),
                 P("C03", "starts-in-hello-state-with-the-handshake-prepared",
                   "self._state == 1 and self._expected_name == expected_name and self._encrypt_cipher is None and self._decrypt_cipher is None and "
                   "proto_calls() == (('from_name', b'Noise_NNpsk0_25519_ChaChaPoly_SHA256'), ('set_as_initiator',), ('set_psks', b64(noise_psk)), "
                   "('set_prologue', b'NoiseAPIInit\\x00\\x00'), ('start_handshake',))"),
                 ("nothing-written", "ghost.wire == old(ghost.wire)")],
        raises={"InvalidEncryptionKeyAPIError": {"kind": "property", "when": "b64_fails or len(b64(noise_psk)) != 32",
                                                 "ensures": [("rejected-before-anything-is-sent", "ghost.wire == old(ghost.wire)")]}},
        modifies=["self.__all__"],
    )


def connection_made_contract():
    return Contract(
        NOISE + "APINoiseFrameHelper.connection_made", self_type=SELF, params={"transport": "obj[Transport]"}, tags=["C03"],
        requires=[("fresh-helper", "self._state == 1")],
        ensures=[P("C03", "hello-and-handshake-go-out-at-once", "len(ghost.wire) == len(old(ghost.wire)) + 1 and hello_shape(ghost.wire[len(old(ghost.wire))]) and self._transport is transport")],
        raises={"OSError": {"kind": "auxiliary"}, "RuntimeError": {"kind": "auxiliary"}},
        modifies=["self._transport", "self._writer", "ghost.wire"],
    )


def connection_lost_contract():
    return Contract(
        BASE + "APIFrameHelper.connection_lost", self_type=SELF, params={"exc": "opt[exc[Exception]]"}, tags=["C04"], label="noise", requires=[VALID],
        ensures=[P("C04", "every-loss-is-reported-once-with-the-mapped-error",
                   "len(ghost.reported) == len(old(ghost.reported)) + 1 and "
                   "implies(exc is not None and typeof_is(exc, InvalidTag) and not (old(self._state) == 1 and typeof_is(exc, ConnectionResetError)), exact_type(last_reported(), InvalidEncryptionKeyAPIError)) and "
                   "implies(exc is None, exact_type(last_reported(), SocketClosedAPIError))"),
                 NO_DELIVERY],
        modifies=FRAME_MODS,
    )


def handler_callee(qual, make):
    """The four frame handlers as seen from data_received: their contract, plus the ghost record `handled` of the frame."""
    from pyvc.contracts import apply_contract
    c = Contract(NOISE + "APINoiseFrameHelper." + qual, self_type=SELF)

    def model(eng, st, fv, args, kwargs):
        out = []
        for st1, fr in eng.split_union(args[1], st):
            if isinstance(fr, VNoneT):
                out.append((st1, eng.raise_py(st1, TypeError, "frame is None")))
                continue
            for s, r in apply_contract(eng, make(), fv, [args[0], fr] + list(args[2:]), kwargs, st1):
                ghost_append(eng, s, "handled", VBytes(fr.e))
                out.append((s, r))
        return out
    c.model = model
    return c


def targets_for(eng, names, tags):
    install(eng)
    nm = eng.hooks["names"]
    more_names(eng)
    cs = {
        "_handle_error": handle_error_contract, "close": close_contract, "_handle_error_and_close": handle_error_and_close_contract,
        "_handle_hello": handle_hello_contract, "_error_on_incorrect_preamble": error_on_incorrect_preamble_noise_contract,
        "_handle_handshake": handle_handshake_contract, "_handle_frame": handle_frame_contract, "_handle_closed": handle_closed_contract,
        "data_received": noise_data_received_contract, "_send_hello_handshake": send_hello_handshake_contract,
        "_decode_noise_psk": decode_psk_contract, "_setup_proto": setup_proto_contract, "write_packets": noise_write_packets_contract,
        "plain._error_on_incorrect_preamble": plain_preamble_contract, "__init__": init_contract, "connection_made": connection_made_contract,
        "connection_lost": connection_lost_contract,
    }
    # callee side
    for k, mk_ in cs.items():
        c = mk_()
        eng.contracts[c.target] = c
    # _handle_error_and_close is inherited: the contract above is for a Noise helper; on a plaintext helper the base bodies run
    from pyvc.contracts import apply_contract
    import aioesphomeapi._frame_helper.noise as N_
    disp = _RealContract(BASE + "APIFrameHelper._handle_error_and_close", self_type=SELF)

    def model(eng_, st, fv, args, kwargs):
        if st.heap[args[0].oid].cls is N_.APINoiseFrameHelper:
            return apply_contract(eng_, handle_error_and_close_contract(), fv, args, kwargs, st)
        return eng_.inline_call(fv, args, kwargs, st)
    disp.model = model
    eng.contracts[disp.target] = disp
    # _setup_proto / _decode_noise_psk are tiny and their postconditions speak about the path's library-call log: callers run their bodies
    for q in ("_setup_proto", "_decode_noise_psk"):
        d2 = _RealContract(NOISE + "APINoiseFrameHelper." + q, self_type=SELF)
        d2.model = lambda eng_, st, fv, args, kwargs: eng_.inline_call(fv, args, kwargs, st)
        eng.contracts[d2.target] = d2
    for q in ("_handle_hello", "_handle_handshake", "_handle_frame", "_handle_closed"):
        d = handler_callee(q, cs[q])
        eng.contracts[d.target] = d
    import contracts.c01 as c01
    for c in (c01.add_to_buffer_contract(), c01.remove_from_buffer_contract(), c01.read_contract()):
        eng.contracts[c.target] = c
    import contracts.c02 as c02
    eng.contracts[BASE + "APIFrameHelper._write_bytes"] = c02.write_bytes_contract()
    lts = register_lemmas(eng, "contracts.noise", lemma_contracts())
    out = []
    for n in names:
        if n == "lemmas":
            out.extend(lts)
            continue
        c = cs[n]()
        c.tags = list(tags)
        from contracts import native_noise
        out.append(contract_target(c, replay=native_noise.REPLAYS.get(n), bounded=native_noise.bounded_noise_session))
    return out


def fits16_at(P, k, i):
    unfold(fits16(P, k))
    if k > 0:
        if i < k - 1:
            fits16_at(P, k - 1, i)


def hdr3(v):
    """Structural facts of the sequence theory about the 3-byte header slice (proved here once, used as instances)."""
    pass


def lemma_contracts():
    M = "contracts.noise."
    return [Contract(M + "hdr3", params={"v": "bytes"},
                     ensures=["implies(len(v) >= 3, v[0:3][0] == v[0] and v[0:3][1] == v[1] and v[0:3][2] == v[2] and len(v[0:3]) == 3)"],
                     kind="auxiliary", tags=["C03"]),
            Contract(M + "fits16_at", params={"P": "seq[tuple[int,bytes]]", "k": "int", "i": "int"},
                     requires=["0 <= i", "i < k", "k <= len(P)", "fits16(P, k)"],
                     ensures=["0 <= P[i][0] and P[i][0] < 65536 and len(P[i][1]) + 20 < 65536"],
                     decreases="k", recursive_ok=True, kind="auxiliary", tags=["C02"])]


def more_names(eng):
    names = eng.hooks["names"]

    def bfn(name):
        def deco(f):
            names[name] = VFunc("builtin", name=name, impl=f)
            return f
        return deco

    @bfn("b64")
    def _b64(eng_, st, args, kwargs):
        return ok(st, VBytes(b64_f(args[0].e)))

    @bfn("raised_is")
    def _raised_is(eng_, st, args, kwargs):
        return ok(st, VBool(eng_.exc_isinstance(args[0], args[1].py, st)))

    @bfn("hello_shape")
    def _hello_shape(eng_, st, args, kwargs):
        """hello_shape(w): w == 01 00 00 ++ 01 hi lo ++ 00 ++ e  with 256*hi + lo == len(e) + 1."""
        w = args[0].e
        n = z3.Length(w)
        e_len = n - 7
        hi, lo = w[4], w[5]
        return ok(st, VBool(z3.And(n >= 7, w[0] == 1, w[1] == 0, w[2] == 0, w[3] == 1, w[6] == 0, hi >= 0, hi < 256, lo >= 0, lo < 256,
                                   256 * hi + lo == e_len + 1)))

    prev = eng.hooks.get("names_dynamic")

    def names_dynamic(name, st):
        if name == "read_message_ok":
            return VBool(any(ev[0] == "read_message_ok" for ev in st.events))
        if name == "read_message_failed":
            return VBool(any(ev[0] == "read_message_failed" for ev in st.events))
        if name == "b64_fails":
            return VBool(any(t == "a2b_base64!Error" for t in st.trace))
        if name == "accepted_here":
            return VBool(not any(t == "decrypt!InvalidTag" for t in st.trace))
        if name == "short_plaintext":
            return VBool(True)
        if name == "pp_raised":
            return VBool(any(ev[0] == "pp_raised" for ev in st.events))
        return prev(name, st) if prev else None
    eng.hooks["names_dynamic"] = names_dynamic

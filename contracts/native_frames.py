"""Native (CPython) harnesses for the framing contracts: replay of counter-models and bounded small-scope search.

They import the real modules from /repo's working tree and compare against the executable spec functions in
/verif/specs.  Bounded results are never counted as proved (DESIGN 3.12).
"""
from __future__ import annotations

import itertools
from unittest.mock import MagicMock

from specs import wire


def _plain_helper():
    import asyncio
    from aioesphomeapi._frame_helper.plain_text import APIPlaintextFrameHelper
    loop = asyncio.new_event_loop()
    asyncio.set_event_loop(loop)
    conn = MagicMock()
    packets = []
    conn.process_packet = lambda t, d: packets.append((t, d))
    h = APIPlaintextFrameHelper(connection=conn, client_info="c", log_name="l")
    writes = []
    tr = MagicMock()
    tr.write = lambda b: writes.append(bytes(b))
    h.connection_made(tr)
    return h, writes, packets, conn, loop


# ---- _varuint_to_bytes ------------------------------------------------------------------------------------
def varuint_check(v):
    from aioesphomeapi._frame_helper.plain_text import _varuint_to_bytes
    got = _varuint_to_bytes(v)
    return type(got) is bytes and got == wire.enc_varuint(v)


def replay_varuint(o):
    v = (o.get("model") or {}).get("value")
    if not isinstance(v, int) or v < 0:
        return None, "model has no usable `value`"
    try:
        good = varuint_check(v)
    except Exception as e:
        return True, f"_varuint_to_bytes({v}) raised {type(e).__name__}: {e}"
    return (not good), f"_varuint_to_bytes({v}) {'!=' if not good else '=='} enc_varuint({v})"


def bounded_varuint(opts):
    vals = list(range(0, 20000)) + [2**k + d for k in range(14, 64, 7) for d in (-1, 0, 1)]
    bad = []
    for v in vals:
        try:
            if not varuint_check(v):
                bad.append({"value": v})
        except Exception as e:
            bad.append({"value": v, "raised": repr(e)})
        if len(bad) >= 3:
            break
    return bad


# ---- plaintext write_packets -----------------------------------------------------------------------------
def plain_write_check(packets):
    h, writes, _, _, loop = _plain_helper()
    try:
        h.write_packets(list(packets), False)
    finally:
        loop.close()
    return writes == [wire.plain_frames(tuple(packets), len(packets))]


def bounded_plain_write(opts):
    types = [0, 1, 127, 128, 300, 16384]
    pays = [b"", b"\x00", b"a" * 127, b"b" * 128, b"c" * 300]
    singles = [(t, p) for t in types for p in pays]
    bad = []
    for pk in [()] + [(s,) for s in singles] + list(itertools.product(singles[:8], singles[4:12])):
        try:
            if not plain_write_check(pk):
                bad.append({"packets": [(t, len(p)) for t, p in pk]})
        except Exception as e:
            bad.append({"packets": [(t, len(p)) for t, p in pk], "raised": repr(e)})
        if len(bad) >= 3:
            break
    return bad

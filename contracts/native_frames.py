"""Native (CPython) harnesses for the framing contracts: replay of counter-models and bounded small-scope search.

They import the real modules from /repo's working tree and compare against the executable spec functions in
/verif/specs.  Bounded results are never counted as proved (DESIGN 3.12).
"""
from __future__ import annotations

import itertools
from unittest.mock import MagicMock

from specs import wire


def _plain_helper():
    import asyncio
    from aioesphomeapi._frame_helper.plain_text import APIPlaintextFrameHelper
    loop = asyncio.new_event_loop()
    asyncio.set_event_loop(loop)
    conn = MagicMock()
    packets = []
    conn.process_packet = lambda t, d: packets.append((t, d))
    h = APIPlaintextFrameHelper(connection=conn, client_info="c", log_name="l")
    writes = []
    tr = MagicMock()
    tr.write = lambda b: writes.append(bytes(b))
    h.connection_made(tr)
    return h, writes, packets, conn, loop


# ---- _varuint_to_bytes ------------------------------------------------------------------------------------
def varuint_check(v):
    from aioesphomeapi._frame_helper.plain_text import _varuint_to_bytes
    got = _varuint_to_bytes(v)
    return type(got) is bytes and got == wire.enc_varuint(v)


def replay_varuint(o):
    v = (o.get("model") or {}).get("value")
    if not isinstance(v, int) or v < 0:
        return None, "model has no usable `value`"
    try:
        good = varuint_check(v)
    except Exception as e:
        return True, f"_varuint_to_bytes({v}) raised {type(e).__name__}: {e}"
    return (not good), f"_varuint_to_bytes({v}) {'!=' if not good else '=='} enc_varuint({v})"


def bounded_varuint(opts):
    vals = list(range(0, 20000)) + [2**k + d for k in range(14, 64, 7) for d in (-1, 0, 1)]
    bad = []
    for v in vals:
        try:
            if not varuint_check(v):
                bad.append({"value": v})
        except Exception as e:
            bad.append({"value": v, "raised": repr(e)})
        if len(bad) >= 3:
            break
    return bad


# ---- plaintext write_packets -----------------------------------------------------------------------------
def plain_write_check(packets):
    h, writes, _, _, loop = _plain_helper()
    try:
        h.write_packets(list(packets), False)
    finally:
        loop.close()
    return writes == [wire.plain_frames(tuple(packets), len(packets))]


def bounded_plain_write(opts):
    types = [0, 1, 127, 128, 300, 16384]
    pays = [b"", b"\x00", b"a" * 127, b"b" * 128, b"c" * 300]
    singles = [(t, p) for t in types for p in pays]
    bad = []
    for pk in [()] + [(s,) for s in singles] + list(itertools.product(singles[:8], singles[4:12])):
        try:
            if not plain_write_check(pk):
                bad.append({"packets": [(t, len(p)) for t, p in pk]})
        except Exception as e:
            bad.append({"packets": [(t, len(p)) for t, p in pk], "raised": repr(e)})
        if len(bad) >= 3:
            break
    return bad


# ---- plaintext data_received: all segmentations of small streams (bounded stand-in for L3-C01) ---------------
def _frames_bytes(frames):
    return b"".join(b"\x00" + wire.enc_varuint(len(p)) + wire.enc_varuint(t) + p for t, p in frames)


def data_received_check(frames, cuts, mk):
    """Feed the stream of `frames` cut at `cuts` (sorted offsets) as chunks of type mk; after every chunk the
    delivered packets must be exactly the frames completely received so far and the rest must be retained."""
    h, _, packets, _, loop = _plain_helper()
    try:
        stream = _frames_bytes(frames)
        bounds = [0] + list(cuts) + [len(stream)]
        for a, b in zip(bounds, bounds[1:]):
            h.data_received(mk(stream[a:b]))
            want = wire.pf_msgs(stream[:b])
            if tuple(packets) != tuple(want):
                return f"after {b} bytes delivered {packets!r}, expected {list(want)!r}"
            if any(type(p[1]) is not bytes for p in packets):
                return "payload not bytes"
            tail = wire.pf_tail(stream[:b])
            have = (h._buffer or b"")[: h._buffer_len] if h._buffer_len else b""
            if bytes(have) != tail:
                return f"after {b} bytes retained {bytes(have)!r}, expected {tail!r}"
        return None
    finally:
        loop.close()


def bounded_data_received(opts):
    import random
    rnd = random.Random(opts.get("seed", 0))
    frame_pool = [(1, b""), (5, b"a"), (127, b"bc"), (128, b"d" * 3), (300, b"e" * 130), (16384, b"f" * 2)]
    # payloads well above 16384 bytes (the property's quantifier), with a few cuts each
    for big in (16385, 40000, 70000):
        frames = ((9, b"h" * big), (2, b"k"))
        sl = len(_frames_bytes(frames))
        for cuts in ((), (1,), (3,), (sl // 2,), (sl - 2,), (2, sl - 1)):
            try:
                err = data_received_check(frames, cuts, bytes)
            except Exception as e:      # noqa: BLE001
                err = f"raised {type(e).__name__}: {e}"
            if err:
                return [{"frames": [(t, len(p)) for t, p in frames], "cuts": list(cuts), "chunk_type": "bytes", "error": err[:200]}]
    bad = []
    # (a memoryview with a wider item size counts items, not bytes, in len(): the property says "any bytes-like type")
    mks = [bytes, bytearray, lambda b: memoryview(bytes(b)), lambda b: memoryview(bytes(b)).cast("H") if len(b) and len(b) % 2 == 0 else memoryview(bytes(b))]
    n = 0
    for k in (1, 2, 3):
        for frames in itertools.product(frame_pool, repeat=k):
            if k == 3 and rnd.random() > 0.15:
                continue
            stream_len = len(_frames_bytes(frames))
            cutsets = [()] + [(c,) for c in range(1, stream_len)]
            if stream_len <= 14:
                cutsets += list(itertools.combinations(range(1, stream_len), 2))
            else:
                cutsets += [tuple(sorted(rnd.sample(range(1, stream_len), 2))) for _ in range(25)]
                cutsets += [tuple(sorted(rnd.sample(range(1, stream_len), min(5, stream_len - 1)))) for _ in range(10)]
            for cuts in cutsets:
                n += 1
                try:
                    err = data_received_check(frames, cuts, mks[n % 4])
                except Exception as e:
                    err = f"raised {type(e).__name__}: {e}"
                if err:
                    bad.append({"frames": [(t, len(p)) for t, p in frames], "cuts": list(cuts), "chunk_type": ["bytes", "bytearray", "memoryview", "memoryview.cast('H')"][n % 4], "error": err[:200]})
                    if len(bad) >= 3:
                        return bad
    bounded_data_received.count = n
    return bad

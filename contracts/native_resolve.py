"""Bounded stand-in for C20's resolution function (never counted as proved): the real async_resolve_host runs with fake mDNS / OS
oracles over every list of up to 3 hosts drawn from {IPv4 literal, IPv6 literal with scope, bare name, .local name, FQDN} x oracle outcomes,
and its result / raised error / the order and number of oracle calls are compared with the executable spec (specs/resolve.py)."""
from __future__ import annotations

import asyncio
import itertools
from unittest.mock import patch


def bounded_resolve(opts=None):
    import aioesphomeapi.host_resolver as hr
    from aioesphomeapi.core import APIConnectionError, ResolveAPIError
    import specs.resolve as spec
    HOSTS = ["10.0.0.5", "fe80::1%3", "kitchen", "kitchen.local", "dev.example.org", "garage.local."]
    MD = {"ok": lambda n: [f"mdns6:{n}", f"mdns4:{n}"], "none": lambda n: [], "err": None}
    OS = {"ok": lambda h: [f"os:{h}"], "empty": lambda h: [], "err": None}
    fails = []
    tried = 0
    maxlen = 3 if (opts or {}).get("tier") == "thorough" else 2
    for n in range(1, maxlen + 1):
        for hosts in itertools.product(HOSTS, repeat=n):
            for mk, ok_ in itertools.product(MD, OS):
                tried += 1
                mlog, olog = [], []

                async def fake_zc(name, port, *, timeout=3.0, zeroconf_manager=None, _mk=mk):
                    mlog.append(name)
                    if MD[_mk] is None:
                        raise ResolveAPIError("mdns failed")
                    return MD[_mk](name)

                async def fake_gai(host, port, _ok=ok_):
                    olog.append(host)
                    if OS[_ok] is None:
                        raise APIConnectionError("os failed")
                    return OS[_ok](host)
                lit = lambda h: ("lit", h)       # noqa: E731
                with patch.object(hr, "_async_resolve_host_zeroconf", fake_zc), patch.object(hr, "_async_resolve_host_getaddrinfo", fake_gai), \
                        patch.object(hr, "_async_ip_address_to_addrs", lambda ip, port: [("lit", str(ip))]):
                    try:
                        got = asyncio.run(hr.async_resolve_host(list(hosts), 6053, None))
                        err = None
                    except Exception as e:       # noqa: BLE001
                        got, err = None, e
                # executable spec with the same oracles
                import ipaddress

                def is_literal(h):
                    try:
                        ipaddress.ip_address(h)
                        return True
                    except ValueError:
                        return False
                spec.mdns = lambda nme: tuple(MD[mk](nme)) if MD[mk] else ()
                spec.mdns_fails = lambda nme: MD[mk] is None
                spec.osres = lambda h: tuple(OS[ok_](h)) if OS[ok_] else ()
                spec.is_literal = is_literal
                spec.lit = lambda h: ("lit", str(ipaddress.ip_address(h)))
                want_m = list(spec.mdns_asked(hosts, len(hosts)))
                # the OS resolver is consulted host by host; the first failure aborts the whole call
                want, want_o, os_failed = [], [], False
                for h in hosts:
                    pre = spec.pre_os(h)
                    if len(pre) == 0:
                        want_o.append(h)
                        if OS[ok_] is None:
                            os_failed = True
                            break
                        want.extend(spec.osres(h))
                    else:
                        want.extend(pre)
                problem = None
                if os_failed:
                    if not isinstance(err, APIConnectionError):
                        problem = f"OS resolver failure must surface as a connection error, got {err!r} / {got!r}"
                    # (the lookups made before the failing one are not compared)
                elif not want:
                    if not isinstance(err, APIConnectionError):
                        problem = f"nothing resolved: a connection error is required, got {got!r}"
                else:
                    if err is not None or list(got) != list(want):
                        problem = f"result {got!r} / {err!r} != spec {want!r}"
                if problem is None and not os_failed and (mlog != want_m or olog != want_o):
                    problem = f"lookups made mdns={mlog} os={olog}, spec mdns={want_m} os={want_o}"
                if problem:
                    fails.append({"hosts": list(hosts), "mdns": mk, "os": ok_, "problem": problem})
                    if len(fails) >= 3:
                        return fails
    bounded_resolve.tried = tried
    return fails

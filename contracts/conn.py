"""Contracts of the synchronous methods of APIConnection (and the module-level helpers) shared by C05-C12.

Every method is verified as an *entry point*: from any state satisfying Inv_conn (and its requires) it must
re-establish Inv_conn, satisfy Step_conn(entry, exit) and its own postconditions; call-outs to unknown callables
(message handlers, the stop callback) are cut points (contracts/conn_model.py).  Callers see only these contracts.
"""
from pyvc.sidecar import *  # noqa: F401,F403
from contracts.conn_model import *  # noqa: F401,F403
from contracts import conn_model as cm

COMMON_ASSUMPTIONS = [
    "A-PY: Python semantics as encoded by pyvc",
    "A-TYPES: arguments have the annotated types",
    "A-LOOP: asyncio runs one callback at a time; code between two suspension points / call-outs is atomic",
    "A-CALLBACK: user callbacks (subscribers, the stop callback) may re-enter the public API of the connection (modelled by the Step* havoc) but do not feed packets into it and return to their caller",
    "A-SETITER: iterating a Python set visits each member exactly once",
    "A-PROTOBUF: klass() builds an empty message of that class, MergeFromString fills it or raises DecodeError, SerializeToString is injective",
    "A-FRAME(conn): _params, _loop, _keep_alive_interval, _keep_alive_timeout, log_name, _debug_enabled are assigned only by __init__/set_log_name/set_debug; no code outside APIConnection stores to its other fields (frame-scan obligation)",
    "Step_conn is a preorder (lemma target step-is-a-preorder)",
]

S = "self.connection_state"
INLINE = ["_set_connection_state", "_set_fatal_exception_if_unset", "_async_cancel_pong_timer", "_set_start_connect_future",
          "_set_finish_connect_future", "send_message", "set_log_name", "_async_schedule_keep_alive"]


def P(tag, name, text):
    """A property clause tagged with the property it states."""
    return Clause_(name, text, "property", [tag])


def Clause_(name, text, kind, tags):
    from pyvc.contracts import Clause
    return Clause(name, text, kind, tags)


def mk(qualname, ensures=(), dispatches=False, **kw):
    """ensures: list of Clause | (name, text) ; Inv/Step are added as auxiliary ensures (used by callers) and are
    checked as obligations by the exit hook (with the tags of the running property)."""
    from pyvc.contracts import Clause
    c = conn_contract(qualname, **kw)
    cl = []
    for e in ensures:
        cl.append(e if isinstance(e, Clause) else Clause(e[0], e[1], "auxiliary"))
    if not dispatches:
        cl.append(Clause("delivers-nothing", "ghost.dispatched == old(ghost.dispatched)", "auxiliary"))
    c.ensures = cl + [Clause(n, t, "auxiliary") for n, t, _ in inv_step_ensures()]
    c.own_ensures = len(cl)
    # exceptional exits give callers the same Inv/Step/frame facts (they are obligations of the exit hook here)
    newr = {}
    for k, spec in (c.raises or {}).items():
        spec = {} if spec is True else ({"when": spec} if isinstance(spec, str) else dict(spec))
        have = {e[0] for e in spec.get("ensures", []) if isinstance(e, tuple)}
        extra = [(n, t) for n, t, _k in inv_step_ensures() if n not in have]
        if not dispatches and "delivers-nothing" not in have:
            extra.append(("delivers-nothing", "ghost.dispatched == old(ghost.dispatched)"))
        spec["ensures"] = list(spec.get("ensures", [])) + extra
        newr[k] = spec
    c.raises = newr
    if c.modifies is None:
        c.modifies = all_mods()
    return c


CLOSED = f"{S} is CS.CLOSED"


def cleanup_contract():
    W = "enum_of(old(set_val(self._read_exception_futures)))"
    return mk(
        "_cleanup",
        ghost_params={"k": "int"},
        ensures=[
            P("C05", "closed", CLOSED),
            P("C07", "stop-exactly-when-was-connected",
              f"ghost.stop_calls == old(ghost.stop_calls) + (1 if (old({S}) is not CS.CLOSED and old(self.is_connected) and old(self.on_stop) is not None) else 0)"),
            P("C07", "stop-reason", "implies(ghost.stop_calls > old(ghost.stop_calls), ghost.stop_arg == old(ghost.graceful))"),
            P("C08", "helper-closed", "implies(old(self._frame_helper) is not None, closed(old(self._frame_helper)))"),
            P("C08", "socket-closed", "implies(old(self._socket) is not None, closed(old(self._socket)))"),
            P("C08", "timers-disarmed", "not armed(old(self._ping_timer)) and not armed(old(self._pong_timer))"),
            P("C08", "every-waiter-released", f"implies(old({S}) is not CS.CLOSED and 0 <= k and k < len({W}), fdone({W}[k]))"),
            P("C09", "waiters-see-first-cause",
              f"implies(old({S}) is not CS.CLOSED and 0 <= k and k < len({W}) and not old(fdone({W}[k])), "
              f"has_exc({W}[k]) and typeof_is(fexc({W}[k]), APIConnectionError) and "
              f"implies(old(self._fatal_exception) is not None and typeof_is(old(self._fatal_exception), APIConnectionError), fexc({W}[k]) is old(self._fatal_exception)))"),
            P("C05", "idempotent", f"implies(old({S}) is CS.CLOSED, conn_unchanged())"),
            ("connect-futures-released", "fut_done_or_none(old(self._start_connect_future)) and fut_done_or_none(old(self._finish_connect_future))"),
            ("fatal-unchanged", "self._fatal_exception is old(self._fatal_exception) or old(self._fatal_exception) is None"),
        ],
        loops={"loop#1": dict(
            index="_i",
            invariant=[f"implies(0 <= k and k < _i, fdone({W}[k]))",
                       f"implies(0 <= k and k < _i and not old(fdone({W}[k])), has_exc({W}[k]) and typeof_is(fexc({W}[k]), APIConnectionError) and "
                       f"implies(old(self._fatal_exception) is not None and typeof_is(old(self._fatal_exception), APIConnectionError), fexc({W}[k]) is old(self._fatal_exception)))",
                       f"implies(0 <= k and k < len({W}) and k >= _i, fdone({W}[k]) == old(fdone({W}[k])))"],
            body_hints=f"setiter_distinct({W}, k, _i)",
            modifies=["region:Future.done", "region:Future.exc"])},
        tags=["C05", "C07", "C08", "C09"],
    )


def report_fatal_error_contract():
    return mk(
        "report_fatal_error", params={"err": "exc[Exception]"},
        ensures=[
            P("C08", "closed", CLOSED),
            P("C09", "first-cause-kept", "implies(old(self._fatal_exception) is None, self._fatal_exception is err)"),
            P("C07", "stop-exactly-when-was-connected",
              f"ghost.stop_calls == old(ghost.stop_calls) + (1 if (old({S}) is not CS.CLOSED and old(self.is_connected) and old(self.on_stop) is not None) else 0)"),
            P("C07", "stop-reason", "implies(ghost.stop_calls > old(ghost.stop_calls), ghost.stop_arg == old(ghost.graceful))"),
        ],
        tags=["C07", "C08", "C09"],
    )


STOP_EXACT = (f"ghost.stop_calls == old(ghost.stop_calls) + (1 if (old({S}) is not CS.CLOSED and old(self.is_connected) "
              "and old(self.on_stop) is not None) else 0)")


def msgs_setup(n):
    """`msgs` = a tuple of n messages of arbitrary protocol classes (symbolic)."""
    def setup(eng, st):
        import aioesphomeapi.api_pb2 as pb
        from pyvc.builtins import typeof_f, cls_code
        import z3
        items = []
        for i in range(n):
            m = z3.Const(fresh_name(f"msg{i}"), ObjS)
            codes = [cls_code(k.py) for k, _ in st_proto_items(eng, st)]
            st.assume(z3.Or(*[typeof_f(m) == c for c in codes]))
            items.append(VObj(m, "Message"))
        st.env.f["msgs"] = VTuple(items)
    return setup


def st_proto_items(eng, st):
    import aioesphomeapi.connection as C
    v = eng.lift(C.PROTO_TO_MESSAGE_TYPE, st)
    return list(st.heap[v.oid].f["items"].values())


def send_messages_contract(n=1):
    exp = ", ".join(f"(proto_id(class_of(msgs[{i}])), msgs[{i}])" for i in range(n))
    exp = f"(({exp}{',' if n == 1 else ''}),)" if n else "((),)"
    c = mk(
        "send_messages", params={"msgs": "none"}, setup=msgs_setup(n), label=f"arity{n}",
        ensures=[
            P("C02", "exactly-one-write-of-the-batch", f"n_writes == 1 and writes == {exp}"),
            P("C08", "written-only-while-open", "write_before_close and old(self._handshake_complete)"),
            ("nothing-else-changes", "conn_unchanged()"),
        ],
        raises={
            "ConnectionNotEstablishedAPIError": {"when": "not old(self._handshake_complete)", "kind": "property",
                                                 "ensures": [("gate-writes-nothing", "n_writes == 0 and conn_unchanged()")]},
            "SocketClosedAPIError": {"when": "old(self._handshake_complete)", "kind": "property",
                                     "ensures": [("closed-after-write-failure", CLOSED),
                                                 ("first-cause-kept", "implies(old(self._fatal_exception) is None, self._fatal_exception is exc)"),
                                                 ("stop-exactly", STOP_EXACT),
                                                 ("stop-reason", "implies(ghost.stop_calls > old(ghost.stop_calls), ghost.stop_arg == old(ghost.graceful))"),
                                                 ("no-write-recorded", "n_writes == 0")]},
        },
        tags=["C02", "C08", "C09"],
    )
    return c


def send_messages_callee():
    """What callers of send_messages rely on (any arity): the conjunction proved per arity above."""
    c = send_messages_contract(1)
    c.label = None
    return c


def process_packet_contract():
    H = "enum_of(old(handlers_of(self, proto_class(msg_type_proto))))"
    return mk(
        "process_packet", params={"msg_type_proto": "int", "data": "bytes"}, dispatches=True,
        requires=[("type-number-is-a-varint-or-16-bit-value", "msg_type_proto >= 0")],
        post_hints=f"if defined_id(msg_type_proto):\n    unfold(with_msg({H}, msg, len({H})))",
        ensures=[
            P("C08", "closed-connection-delivers-nothing", f"implies(old({S}) is CS.CLOSED, ghost.dispatched == old(ghost.dispatched))"),
            P("C10", "any-valid-message-is-a-sign-of-life", "implies(defined_id(msg_type_proto), n_cuts > 0 or (self._pong_timer is None and not self._send_pending_ping and not armed(old(self._pong_timer))))"),
            P("C12", "undefined-type-ignored", "implies(not defined_id(msg_type_proto), conn_unchanged() and n_writes == 0)"),
            P("C12", "class-is-the-one-api.proto-assigns", "implies(defined_id(msg_type_proto), same_class(class_of(msg), proto_class(msg_type_proto)))"),
            P("C12", "each-subscriber-exactly-once-in-one-pass",
              f"implies(defined_id(msg_type_proto), ghost.dispatched == old(ghost.dispatched) + with_msg({H}, msg, len({H})))"),
        ],
        raises={"Exception": {"kind": "property", "ensures": [
            ("undecodable-closes-with-protocol-error", f"implies(decode_failed, {CLOSED} and ghost.dispatched == old(ghost.dispatched) and "
                                                       "implies(old(self._fatal_exception) is None, exact_type(self._fatal_exception, ProtocolAPIError)))"),
            ("only-defined-types-reach-handlers", "defined_id(msg_type_proto)"),
        ]}},
        loops={"loop#1": dict(
            index="_i",
            invariant=[f"ghost.dispatched == old(ghost.dispatched) + with_msg({H}, msg, _i)",
                       f"enum_of(handlers_copy) == {H}"] + loop_inv_step(),
            entry_hints=f"unfold(with_msg({H}, msg, 0))",
            end_hints=f"unfold(with_msg({H}, msg, _i))",
            modifies=all_mods())},
        tags=["C12", "C10"],
    )


STOP_REASON = "implies(ghost.stop_calls > old(ghost.stop_calls), ghost.stop_arg == old(ghost.graceful))"
SC_RAISE = lambda extra=(): {"SocketClosedAPIError": {"kind": "property", "ensures": [("closed-after-write-failure", CLOSED)] + list(extra)}}  # noqa: E731


def ping_handler_contract():
    return mk(
        "_handle_ping_request_internal", params={"_msg": "msg[PingRequest]"},
        ensures=[P("C12", "answers-with-one-ping-response", "writes == (((proto_id(PingResponse), PingResponse()),),)"),
                 ("nothing-else-changes", "conn_unchanged()")],
        raises={"ConnectionNotEstablishedAPIError": {"kind": "auxiliary", "when": "not old(self._handshake_complete)", "ensures": [("nothing", "n_writes == 0")]},
                **SC_RAISE()},
        tags=["C12"],
    )


def time_handler_contract():
    return mk(
        "_handle_get_time_request_internal", params={"_msg": "msg[GetTimeRequest]"},
        ensures=[P("C12", "answers-with-the-current-time", "n_writes == 1 and len(writes[0]) == 1 and writes[0][0][0] == proto_id(GetTimeResponse) and "
                                                          "writes[0][0][1] == GetTimeResponse(epoch_seconds=int(wallclock))"),
                 ("nothing-else-changes", "conn_unchanged()")],
        raises={"ConnectionNotEstablishedAPIError": {"kind": "auxiliary", "when": "not old(self._handshake_complete)", "ensures": [("nothing", "n_writes == 0")]},
                **SC_RAISE()},
        tags=["C12"],
    )


def disconnect_handler_contract():
    return mk(
        "_handle_disconnect_request_internal", params={"_msg": "msg[DisconnectRequest]"},
        pre_hints="ghost.graceful = True",       # a disconnect request from the device has been received: graceful close initiated
        ensures=[P("C12", "response-first-then-close", "writes == (((proto_id(DisconnectResponse), DisconnectResponse()),),) and write_before_close"),
                 P("C12", "closed", CLOSED),
                 P("C07", "stop-exactly-when-was-connected", STOP_EXACT),
                 P("C07", "stop-says-expected", "implies(ghost.stop_calls > old(ghost.stop_calls), ghost.stop_arg)")],
        raises={"ConnectionNotEstablishedAPIError": {"kind": "auxiliary", "when": "not old(self._handshake_complete)", "ensures": [("nothing", "n_writes == 0")]},
                **SC_RAISE([("stop-says-expected-even-if-the-reply-fails", "implies(ghost.stop_calls > old(ghost.stop_calls), ghost.stop_arg)"),
                            ("stop-exactly", STOP_EXACT)])},
        tags=["C12", "C07"],
    )


def force_disconnect_contract():
    return mk(
        "force_disconnect",
        pre_hints="ghost.graceful = True",       # a local force-disconnect has been initiated
        ensures=[P("C05", "closed", CLOSED),
                 P("C07", "stop-exactly-when-was-connected", STOP_EXACT),
                 P("C07", "stop-says-expected", "implies(ghost.stop_calls > old(ghost.stop_calls), ghost.stop_arg)"),
                 P("C08", "at-most-the-disconnect-request-is-written",
                   "n_writes == 0 or (writes == (((proto_id(DisconnectRequest), DisconnectRequest()),),) and write_before_close and old(self._handshake_complete))")],
        tags=["C05", "C07", "C08", "C09"],
    )


def send_keep_alive_contract():
    K = "self._keep_alive_interval"
    return mk(
        "_async_send_keep_alive",
        requires=[("own-timer-fired", "self._ping_timer is not None")],
        ensures=[
            P("C10", "ping-exactly-when-idle", "n_writes == (1 if old(self._send_pending_ping) else 0) and "
                                               "implies(n_writes == 1, writes == (((proto_id(PingRequest), PingRequest()),),))"),
            P("C10", "pong-deadline-armed-once-at-4.5K",
              "implies(old(self._send_pending_ping) and old(self._pong_timer) is None, self._pong_timer is not None and armed(self._pong_timer) "
              f"and timer_when(self._pong_timer) == ghost.now + {K} * 4.5 and timer_cb(self._pong_timer) is boxed(self._async_pong_not_received))"),
            P("C10", "pong-deadline-never-moved", "implies(old(self._pong_timer) is not None or not old(self._send_pending_ping), self._pong_timer is old(self._pong_timer))"),
            P("C10", "next-tick-at-now-plus-K", f"self._ping_timer is not None and armed(self._ping_timer) and timer_when(self._ping_timer) == ghost.now + {K} "
                                                "and timer_cb(self._ping_timer) is boxed(self._async_send_keep_alive) and self._send_pending_ping"),
        ],
        raises={"SocketClosedAPIError": {"kind": "property", "ensures": [
            ("closed-after-write-failure", CLOSED), ("nothing-re-armed-after-close", "self._ping_timer is None and self._pong_timer is None")]}},
        tags=["C10", "C08"],
    )


def pong_not_received_contract():
    return mk(
        "_async_pong_not_received",
        ensures=[P("C10", "declares-dead", CLOSED),
                 P("C10", "ping-failed-error", "implies(old(self._fatal_exception) is None, exact_type(self._fatal_exception, PingFailedAPIError))"),
                 P("C10", "unexpected-stop-unless-graceful", STOP_EXACT + " and " + STOP_REASON)],
        tags=["C10", "C07"],
    )


def hello_resp_contract():
    return mk(
        "_process_hello_resp", params={"resp": "msg[HelloResponse]"},
        ensures=[
            P("C06", "accepted-only-if-compatible-and-correctly-named",
              "resp.api_version_major <= 2 and (self._params.expected_name is None or resp.name == '' or resp.name == self._params.expected_name)"),
            P("C06", "version-recorded", "self.api_version == APIVersion(resp.api_version_major, resp.api_version_minor)"),
            P("C06", "name-recorded", "implies(resp.name != '', self.received_name == resp.name)"),
        ],
        raises={
            "BadNameAPIError": {"kind": "property", "when": "resp.api_version_major <= 2 and self._params.expected_name is not None and resp.name != '' and resp.name != self._params.expected_name",
                                "ensures": [("carries-the-received-name", "exc.received_name == resp.name")]},
            "APIConnectionError": {"kind": "property", "when": "resp.api_version_major > 2 or (self._params.expected_name is not None and resp.name != '' and resp.name != self._params.expected_name)"},
        },
        modifies=["self.api_version", "self.received_name", "self.log_name"],
        tags=["C06"],
    )


def login_resp_contract():
    return mk(
        "_process_login_response", params={"login_response": "msg[ConnectResponse]"},
        ensures=[P("C06", "accepted-only-if-password-valid", "not login_response.invalid_password"), ("nothing-changes", "conn_unchanged()")],
        raises={"InvalidAuthAPIError": {"kind": "property", "when": "login_response.invalid_password", "ensures": [("nothing-changes", "conn_unchanged()")]}},
        modifies=[], tags=["C06"],
    )


def make_connect_request_contract():
    return mk(
        "_make_connect_request", result="msg[ConnectRequest]",
        ensures=[P("C06", "carries-the-configured-password", "result == ConnectRequest(password=(self._params.password if self._params.password is not None else ''))"),
                 ("nothing-changes", "conn_unchanged()")],
        modifies=[], tags=["C06"],
    )


def wrap_contract():
    return mk(
        "_wrap_fatal_connection_exception", params={"action": "str", "ex": "exc[BaseException]"}, result="exc[Exception]",
        ensures=[P("C09", "always-a-connection-error", "typeof_is(result, APIConnectionError)"),
                 P("C09", "connection-errors-pass-through-unchanged", "implies(typeof_is(ex, APIConnectionError), result is ex)"),
                 P("C09", "first-fatal-cause-decides-the-class",
                   "implies(not typeof_is(ex, APIConnectionError) and typeof_is(self._fatal_exception, APIConnectionError), same_class(class_of(result), class_of(self._fatal_exception)))"),
                 P("C09", "cancellation-and-socket-errors-are-classified",
                   "implies(not typeof_is(ex, APIConnectionError) and not typeof_is(self._fatal_exception, APIConnectionError), "
                   "(exact_type(result, APIConnectionCancelledError) if typeof_is(ex, CancelledError) else "
                   "(exact_type(result, SocketAPIError) if typeof_is(ex, OSError) else exact_type(result, UnhandledAPIConnectionError))))"),
                 ("nothing-changes", "conn_unchanged()")],
        modifies=[], tags=["C09"],
    )


def _regions_setup(eng, st):
    for r in cm.REGIONS:
        region(eng, st, r)


def handle_timeout_contract():
    return Contract(
        CONN + "handle_timeout", params={"fut": "obj[Future]"}, setup=_regions_setup, tags=["C11"],
        ensures=[("fails-only-a-pending-future-with-a-timeout", "fdone(fut) and implies(not old(fdone(fut)), fexc(fut) is boxed(asyncio_TimeoutError))"),
                 ("a-completed-future-is-left-alone", "implies(old(fdone(fut)), fexc(fut) is old(fexc(fut)))")],
        modifies=["region:Future.done", "region:Future.exc"],
    )


def handle_complex_message_contract():
    return Contract(
        CONN + "handle_complex_message", setup=_regions_setup, tags=["C11"],
        params={"fut": "obj[Future]", "responses": "list[obj]", "do_append": "opt[callable[Pred]]", "do_stop": "opt[callable[Pred]]", "resp": "obj[Message]"},
        ensures=[
            ("ignores-messages-after-completion", "implies(old(fdone(fut)), responses == old(responses) and fdone(fut) and fexc(fut) is old(fexc(fut)))"),
            ("appends-exactly-the-accepted-message",
             "implies(not old(fdone(fut)), responses == old(responses) + ((resp,) if (do_append is None or accepts(do_append, resp)) else ()))"),
            ("completes-exactly-on-the-stop-message",
             "implies(not old(fdone(fut)), fdone(fut) == (do_stop is None or accepts(do_stop, resp)) and implies(fdone(fut), not has_exc(fut)))"),
        ],
        modifies=["region:Future.done", "region:Future.exc", "responses"],
    )


def _in_types(q, n):
    return " or ".join(f"same_class({q}, msg_types[{i}])" for i in range(n)) or "False"


def add_callback_contract(n=1, qual="_add_message_callback_without_remove"):
    return mk(
        qual, params={"on_message": "callable[Callback]", "msg_types": "tuple[" + ",".join(["cls"] * n) + "]"}, label=f"arity{n}",
        ghost_params={"q": "cls"},
        result=("callable[Remover]" if qual == "add_message_callback" else None),
        ensures=[P("C11", "adds-exactly-this-callback-for-exactly-these-types",
                   f"handlers_of(self, q) == (set_add(old(handlers_of(self, q)), on_message) if ({_in_types('q', n)}) else old(handlers_of(self, q)))"),
                 ("types-have-entries-afterwards", " and ".join(f"has_entry(self, msg_types[{i}])" for i in range(n)) or "True"),
                 ("entries-never-disappear", "implies(old(has_entry(self, q)), has_entry(self, q))")]
        + ([("returns-the-matching-remover", "is_remover(result, self, on_message, msg_types)")] if qual == "add_message_callback" else []),
        modifies=["self._message_handlers"], tags=["C11", "C12"],
    )


def remove_callback_contract(n=1):
    return mk(
        "_remove_message_callback", params={"on_message": "callable[Callback]", "msg_types": "tuple[" + ",".join(["cls"] * n) + "]"}, label=f"arity{n}",
        ghost_params={"q": "cls"},
        requires=[(f"type{i}-was-registered", f"has_entry(self, msg_types[{i}])") for i in range(n)],
        ensures=[P("C11", "removes-exactly-this-callback-for-exactly-these-types",
                   f"handlers_of(self, q) == (set_del(old(handlers_of(self, q)), on_message) if ({_in_types('q', n)}) else old(handlers_of(self, q)))"),
                 ("entries-never-disappear", "implies(old(has_entry(self, q)), has_entry(self, q))")],
        modifies=["self._message_handlers"], tags=["C11", "C12"],
    )


def targets_for(eng, names, tags):
    """Install the model, register every connection contract (so callers use contracts, not bodies) and return the
    targets for `names`."""
    cm.install(eng, check_tags=tags)
    register_specs(eng, "specs.conn")
    for n in INLINE:
        eng.inline.add(CONN + "APIConnection." + n)
    from pyvc import source
    for qn in source.get_module("aioesphomeapi.core").funcs:
        if qn.endswith(".__init__"):
            eng.inline.add("aioesphomeapi.core." + qn)
    allc = ALL()
    for c in allc.values():
        eng.contracts[c.target] = c
    out = []
    for n in names:
        if n == "send_messages":
            for k in (0, 1, 2, 3):
                c = send_messages_contract(k)
                c.tags = list(tags)
                out.append(contract_target(c))
            continue
        if n in ("_add_message_callback_without_remove", "add_message_callback", "_remove_message_callback"):
            for k in (1, 2, 3):
                c = remove_callback_contract(k) if n == "_remove_message_callback" else add_callback_contract(k, n)
                c.tags = list(tags)
                out.append(contract_target(c))
            continue
        c = allc[n]
        c.tags = list(tags)
        from contracts import native_conn
        out.append(contract_target(c, replay=native_conn.REPLAYS.get(n)))
    return out


def arity_dispatch(qual, make):
    """Callee-side contract for the functions proved per arity of `msg_types`: picks the contract of the call's arity."""
    from pyvc.contracts import apply_contract
    c = Contract(CONN + "APIConnection." + qual, self_type="inst[APIConnection]")

    def model(eng, st, fv, args, kwargs):
        mt = kwargs.get("msg_types", args[-1])
        n = len(eng.iter_concrete(mt, st))
        if not 1 <= n <= 3:
            raise Unsupported(f"{qual}: arity {n} of msg_types is not among the proved arities 1..3")
        return apply_contract(eng, make(n), fv, args, kwargs, st)
    c.model = model
    return c


def ALL():
    cs = [cleanup_contract(), report_fatal_error_contract(), send_messages_callee(), process_packet_contract(), ping_handler_contract(),
          time_handler_contract(), disconnect_handler_contract(), force_disconnect_contract(), send_keep_alive_contract(),
          pong_not_received_contract(), hello_resp_contract(), login_resp_contract(), make_connect_request_contract(), wrap_contract(),
          handle_timeout_contract(), handle_complex_message_contract()]
    cs += [arity_dispatch("_add_message_callback_without_remove", lambda n: add_callback_contract(n)),
           arity_dispatch("add_message_callback", lambda n: add_callback_contract(n, "add_message_callback")),
           arity_dispatch("_remove_message_callback", lambda n: remove_callback_contract(n))]
    return {c.target.split("APIConnection.")[-1] if "APIConnection." in c.target else c.target.split(".")[-1]: c for c in cs}

"""Contracts of the synchronous methods of APIConnection (and the module-level helpers) shared by C05-C12.

Every method is verified as an *entry point*: from any state satisfying Inv_conn (and its requires) it must
re-establish Inv_conn, satisfy Step_conn(entry, exit) and its own postconditions; call-outs to unknown callables
(message handlers, the stop callback) are cut points (contracts/conn_model.py).  Callers see only these contracts.
"""
from pyvc.sidecar import *  # noqa: F401,F403
from contracts.conn_model import *  # noqa: F401,F403
from contracts import conn_model as cm

COMMON_ASSUMPTIONS = [
    "A-PY: Python semantics as encoded by pyvc",
    "A-TYPES: arguments have the annotated types",
    "A-LOOP: asyncio runs one callback at a time; code between two suspension points / call-outs is atomic",
    "component contract (assume/guarantee): the connection sees its frame helper only through write_packets (one recorded write, or OSError/RuntimeError/"
    "ConnectionResetError), close (marks it closed, never calls back), set_log_name and ready_future - the behaviour proved for the real helpers under C02/C03/C04/C08; "
    "host resolution through async_resolve_host (returns addresses or raises APIConnectionError: C20)",
    "A-CALLBACK: user callbacks (subscribers, the stop callback) may re-enter the public API of the connection (modelled by the Step* havoc) but do not feed packets into it and return to their caller",
    "A-SETITER: iterating a Python set visits each member exactly once",
    "A-PROTOBUF: klass() builds an empty message of that class, MergeFromString fills it or raises DecodeError, SerializeToString is injective",
    "A-FRAME(conn): _params, _loop, _keep_alive_interval, _keep_alive_timeout, log_name, _debug_enabled are assigned only by __init__/set_log_name/set_debug; no code outside APIConnection stores to its other fields (frame-scan obligation)",
    "Step_conn is a preorder (lemma target step-is-a-preorder)",
]

S = "self.connection_state"
INLINE = ["_release_resources", "_do_connect", "_do_finish_connect", "_register_internal_message_handlers", "_set_fatal_exception_if_unset", "_async_cancel_pong_timer", "_set_start_connect_future",
          "_set_finish_connect_future", "send_message", "set_log_name", "_async_schedule_keep_alive"]


def State_():
    from pyvc.state import State
    return State()


def P(tag, name, text):
    """A property clause tagged with the property it states."""
    return Clause_(name, text, "property", [tag])


def OWN(tag, name, text):
    """A property clause about the function's own locals / write log: an obligation of the function, not visible to callers."""
    c = Clause_(name, text, "property", [tag])
    c.own_only = True
    return c


def Clause_(name, text, kind, tags):
    from pyvc.contracts import Clause
    return Clause(name, text, kind, tags)


def mk(qualname, ensures=(), dispatches=False, phase_owner=False, has_awaits=False, **kw):
    """ensures: list of Clause | (name, text) ; Inv/Step are added as auxiliary ensures (used by callers) and are
    checked as obligations by the exit hook (with the tags of the running property)."""
    from pyvc.contracts import Clause
    exit_relaxed = tuple(kw.pop("exit_relaxed", ()))
    c = conn_contract(qualname, **kw)
    c.exit_relaxed = exit_relaxed
    cl = []
    for e in ensures:
        cl.append(e if isinstance(e, Clause) else Clause(e[0], e[1], "auxiliary"))
    if not dispatches:
        cl.append(Clause("delivers-nothing", "ghost.dispatched == old(ghost.dispatched)", "auxiliary"))
    if "q" not in c.ghost_params:
        c.ghost_params = dict(c.ghost_params, q="cls")
    if not any(x.name == "entries-never-disappear" for x in cl):
        cl.append(Clause("entries-never-disappear", "implies(old(has_entry(self, q)), has_entry(self, q))", "auxiliary"))
    c.phase_owner = phase_owner
    c.has_awaits = has_awaits
    # entry->exit of a function with awaits includes what the environment (possibly a running connect phase) did
    c.ensures = cl + [Clause(n, t, "auxiliary") for n, t, _ in inv_step_ensures(phase_owner or has_awaits) if n not in exit_relaxed]
    c.own_ensures = len(cl)
    # exceptional exits give callers the same Inv/Step/frame facts (they are obligations of the exit hook here)
    newr = {}
    for k, spec in (c.raises or {}).items():
        spec = {} if spec is True else ({"when": spec} if isinstance(spec, str) else dict(spec))
        have = {e[0] for e in spec.get("ensures", []) if isinstance(e, tuple)}
        extra = [(n, t) for n, t, _k in inv_step_ensures(phase_owner or has_awaits) if n not in have and n not in exit_relaxed]
        if not dispatches and "delivers-nothing" not in have:
            extra.append(("delivers-nothing", "ghost.dispatched == old(ghost.dispatched)"))
        extra.append(("entries-never-disappear", "implies(old(has_entry(self, q)), has_entry(self, q))"))
        spec["ensures"] = list(spec.get("ensures", [])) + extra
        newr[k] = spec
    c.raises = newr
    if c.modifies is None:
        c.modifies = all_mods()
    return c


CLOSED = f"{S} is CS.CLOSED"
LATE_CLOSE = ("I2-closed-released", "I4-timers-only-while-handshaken")
MID_PHASE = LATE_CLOSE + ("I4-init-has-nothing",)


def cleanup_contract():
    W = "enum_of(old(set_val(self._read_exception_futures)))"
    return mk(
        "_cleanup",
        # called from the connect phases' error handlers, where a close during the phase's last await may have left a timer armed on a closed
        # connection (the very state _cleanup repairs): its contract is proved without these two clauses of Inv
        inv_relaxed=MID_PHASE,
        ghost_params={"k": "int"},
        ensures=[
            P("C05", "closed", CLOSED),
            P("C07", "stop-exactly-when-was-connected",
              f"ghost.stop_calls == old(ghost.stop_calls) + (1 if (old({S}) is not CS.CLOSED and old(self.is_connected) and old(self.on_stop) is not None) else 0)"),
            P("C07", "stop-reason", "implies(ghost.stop_calls > old(ghost.stop_calls), ghost.stop_arg == old(ghost.graceful))"),
            P("C08", "helper-closed", "implies(old(self._frame_helper) is not None, closed(old(self._frame_helper)))"),
            P("C08", "socket-closed", "implies(old(self._socket) is not None, closed(old(self._socket)))"),
            P("C08", "timers-disarmed", "not armed(old(self._ping_timer)) and not armed(old(self._pong_timer))"),
            P("C08", "every-waiter-released", f"implies(old({S}) is not CS.CLOSED and 0 <= k and k < len({W}), fdone({W}[k]))"),
            P("C09", "waiters-see-first-cause",
              f"implies(old({S}) is not CS.CLOSED and 0 <= k and k < len({W}) and not old(fdone({W}[k])), "
              f"has_exc({W}[k]) and typeof_is(fexc({W}[k]), APIConnectionError) and "
              f"implies(old(self._fatal_exception) is not None and typeof_is(old(self._fatal_exception), APIConnectionError), fexc({W}[k]) is old(self._fatal_exception)))"),
            P("C08", "everything-released-even-if-acquired-after-the-first-close",
              "self._frame_helper is None and self._socket is None and self._ping_timer is None and self._pong_timer is None"),
            P("C05", "idempotent", f"implies(old({S}) is CS.CLOSED, {S} is CS.CLOSED and ghost.stop_calls == old(ghost.stop_calls) and "
                                   "self._fatal_exception is old(self._fatal_exception) and self._expected_disconnect == old(self._expected_disconnect))"),
            ("connect-futures-released", f"implies(old({S}) is not CS.CLOSED, fut_done_or_none(old(self._start_connect_future)) and fut_done_or_none(old(self._finish_connect_future)))"),
            ("fatal-unchanged", "self._fatal_exception is old(self._fatal_exception) or old(self._fatal_exception) is None"),
            # closing never touches the subscriptions itself; only the user's stop callback may (it is arbitrary code)
            ("handlers-touched-only-by-user-code", "implies(ghost.stop_calls == old(ghost.stop_calls), handlers_of(self, q) == old(handlers_of(self, q)))"),
        ],
        loops={"loop#1": dict(
            index="_i",
            invariant=[f"implies(0 <= k and k < _i, fdone({W}[k]))",
                       f"implies(0 <= k and k < _i and not old(fdone({W}[k])), has_exc({W}[k]) and typeof_is(fexc({W}[k]), APIConnectionError) and "
                       f"implies(old(self._fatal_exception) is not None and typeof_is(old(self._fatal_exception), APIConnectionError), fexc({W}[k]) is old(self._fatal_exception)))",
                       f"implies(0 <= k and k < len({W}) and k >= _i, fdone({W}[k]) == old(fdone({W}[k])))"],
            body_hints=f"setiter_distinct({W}, k, _i)",
            modifies=["region:Future.done", "region:Future.exc"])},
        tags=["C05", "C07", "C08", "C09"],
    )


def report_fatal_error_contract():
    return mk(
        "report_fatal_error", params={"err": "exc[Exception]"},
        ensures=[
            P("C08", "closed", CLOSED),
            P("C09", "first-cause-kept", "implies(old(self._fatal_exception) is None, self._fatal_exception is err)"),
            P("C07", "stop-exactly-when-was-connected",
              f"ghost.stop_calls == old(ghost.stop_calls) + (1 if (old({S}) is not CS.CLOSED and old(self.is_connected) and old(self.on_stop) is not None) else 0)"),
            P("C07", "stop-reason", "implies(ghost.stop_calls > old(ghost.stop_calls), ghost.stop_arg == old(ghost.graceful))"),
            ("handlers-touched-only-by-user-code", "implies(ghost.stop_calls == old(ghost.stop_calls), handlers_of(self, q) == old(handlers_of(self, q)))"),
        ],
        tags=["C07", "C08", "C09"],
    )


STOP_EXACT = (f"ghost.stop_calls == old(ghost.stop_calls) + (1 if (old({S}) is not CS.CLOSED and old(self.is_connected) "
              "and old(self.on_stop) is not None) else 0)")


def msgs_setup(n):
    """`msgs` = a tuple of n messages of arbitrary protocol classes (symbolic)."""
    def setup(eng, st):
        import aioesphomeapi.api_pb2 as pb
        from pyvc.builtins import typeof_f, cls_code
        import z3
        items = []
        for i in range(n):
            m = z3.Const(fresh_name(f"msg{i}"), ObjS)
            codes = [cls_code(k.py) for k, _ in st_proto_items(eng, st)]
            st.assume(z3.Or(*[typeof_f(m) == c for c in codes]))
            items.append(VObj(m, "Message"))
        st.env.f["msgs"] = VTuple(items)
    return setup


def st_proto_items(eng, st):
    import aioesphomeapi.connection as C
    v = eng.lift(C.PROTO_TO_MESSAGE_TYPE, st)
    return list(st.heap[v.oid].f["items"].values())


def send_messages_contract(n=1):
    exp = ", ".join(f"(proto_id(class_of(msgs[{i}])), msgs[{i}])" for i in range(n))
    exp = f"(({exp}{',' if n == 1 else ''}),)" if n else "((),)"
    c = mk(
        "send_messages", params={"msgs": "none"}, setup=msgs_setup(n), label=f"arity{n}",
        ensures=[
            P("C02", "exactly-one-write-of-the-batch", f"n_writes == 1 and writes == {exp}"),
            P("C08", "written-only-while-open", "write_before_close and old(self._handshake_complete)"),
            ("nothing-else-changes", "conn_unchanged()"),
            # (C10) a ping is due exactly when no message *arrived*: what the client itself sends is not a sign of life of the device
            P("C10", "sending-is-not-a-sign-of-life", "self._send_pending_ping == old(self._send_pending_ping) and self._pong_timer is old(self._pong_timer) and self._ping_timer is old(self._ping_timer)"),
        ],
        raises={
            "ConnectionNotEstablishedAPIError": {"when": "not old(self._handshake_complete)", "kind": "property",
                                                 "ensures": [("gate-writes-nothing", "n_writes == 0 and conn_unchanged()")]},
            "SocketClosedAPIError": {"when": "old(self._handshake_complete)", "kind": "property",
                                     "ensures": [("closed-after-write-failure", CLOSED),
                                                 ("first-cause-kept", "implies(old(self._fatal_exception) is None, self._fatal_exception is exc)"),
                                                 ("stop-exactly", STOP_EXACT),
                                                 ("stop-reason", "implies(ghost.stop_calls > old(ghost.stop_calls), ghost.stop_arg == old(ghost.graceful))"),
                                                 ("no-write-recorded", "n_writes == 0"),
                                                 ("handlers-touched-only-by-user-code", "implies(ghost.stop_calls == old(ghost.stop_calls), handlers_of(self, q) == old(handlers_of(self, q)))")]},
        },
        tags=["C02", "C08", "C09", "C10"],
    )
    return c


def send_messages_callee():
    """What callers of send_messages rely on (any proved arity): the contract above, with the write recorded in the
    caller's own write log on the normal exit."""
    from pyvc.contracts import apply_contract
    from contracts.common_conn import snapshot_msg
    base = send_messages_contract(1)
    base.label = None
    from pyvc.contracts import Clause
    base.ensures = [cl for cl in base.ensures if cl.name not in ("exactly-one-write-of-the-batch", "written-only-while-open")] + \
                   [Clause("gate-passed", "old(self._handshake_complete)", "auxiliary")]
    for spec in base.raises.values():
        spec["ensures"] = [e for e in spec.get("ensures", []) if not (isinstance(e, tuple) and e[0] in ("gate-writes-nothing", "no-write-recorded"))] + \
                          ([("nothing-changes", "conn_unchanged()")] if "not old(self._handshake_complete)" in (spec.get("when") or "") else [])
    c = Contract(base.target, self_type="inst[APIConnection]")

    def model(eng, st, fv, args, kwargs):
        msgs = eng.iter_concrete(kwargs.get("msgs", args[-1]), st)
        if len(msgs) > 3:
            raise Unsupported("send_messages: batches of more than 3 messages are outside the proved arities")
        out = []
        for s, r in apply_contract(eng, base, fv, args, kwargs, st):
            if not isinstance(r, Raised):
                selfv = args[0]
                fh = s.heap[selfv.oid].f["_frame_helper"]
                alts = fh.alts if isinstance(fh, VUnion) else [(None, fh)]
                closed = z3.BoolVal(False)
                for g, a in alts:
                    if isinstance(a, VObj):
                        closed = rget(eng, s, "FH.closed", a.e) if g is None else z3.If(g, rget(eng, s, "FH.closed", a.e), closed)
                batch = []
                for m in msgs:
                    pid = eng.call(eng.hooks["names"]["proto_id"], [eng.call(eng.hooks["names"]["class_of"], [m], {}, s)[0][1]], {}, s)[0][1]
                    batch.append((pid, snapshot_msg(eng, s, m)))
                s.events = s.events + [("write", batch, closed)]
            out.append((s, r))
        return out
    c.model = model
    return c


def process_packet_contract():
    H = "enum_of(old(handlers_of(self, proto_class(msg_type_proto))))"
    return mk(
        "process_packet", params={"msg_type_proto": "int", "data": "bytes"}, dispatches=True,
        requires=[("type-number-is-a-varint-or-16-bit-value", "msg_type_proto >= 0")],
        post_hints=f"if defined_id(msg_type_proto) and old({S}) is not CS.CLOSED and msg_decoded:\n    unfold(with_msg({H}, msg, len({H})))",
        ensures=[
            P("C08", "closed-connection-delivers-nothing", f"implies(old({S}) is CS.CLOSED, ghost.dispatched == old(ghost.dispatched))"),
            P("C10", "any-valid-message-is-a-sign-of-life", "implies(defined_id(msg_type_proto), passed_loop or (self._pong_timer is None and not self._send_pending_ping and not armed(old(self._pong_timer))))"),
            Clause_("undefined-type-ignored", "implies(not defined_id(msg_type_proto), conn_unchanged() and n_writes == 0)", "property", ["C12"]),
            # (C13 too: the positional lookup selects, for every id api.proto defines, the class api.proto gives that id - and handles it)
            Clause_("every-id-api.proto-defines-is-decoded", "implies(defined_id(msg_type_proto), msg_decoded)", "property", ["C12", "C13"]),
            Clause_("class-is-the-one-api.proto-assigns", "implies(defined_id(msg_type_proto) and msg_decoded, same_class(class_of(msg), proto_class(msg_type_proto)))", "property", ["C12", "C13"]),
            P("C12", "each-subscriber-exactly-once-in-one-pass",
              f"implies(defined_id(msg_type_proto) and old({S}) is not CS.CLOSED, msg_decoded) and "
              f"implies(defined_id(msg_type_proto) and old({S}) is not CS.CLOSED and msg_decoded, ghost.dispatched == old(ghost.dispatched) + with_msg({H}, msg, len({H})))"),
        ],
        raises={"Exception": {"kind": "property", "ensures": [
            ("undecodable-closes-with-protocol-error", f"implies(decode_failed, {CLOSED} and ghost.dispatched == old(ghost.dispatched) and "
                                                       "implies(old(self._fatal_exception) is None, exact_type(self._fatal_exception, ProtocolAPIError)))"),
            ("only-defined-types-reach-handlers", "defined_id(msg_type_proto)"),
        ]}},
        loops={"loop#1": dict(
            index="_i",
            invariant=[f"ghost.dispatched == old(ghost.dispatched) + with_msg({H}, msg, _i)",
                       f"iterated_seq == {H}"] + loop_inv_step(),
            # (C10) before the first subscriber runs the message has already counted as a sign of life
            entry_hints=f"unfold(with_msg({H}, msg, 0))\nassert implies(True, self._pong_timer is None and not self._send_pending_ping and not armed(old(self._pong_timer)))",
            end_hints=f"unfold(with_msg({H}, msg, _i))",
            modifies=all_mods())},
        tags=["C12", "C10"],
    )


STOP_REASON = "implies(ghost.stop_calls > old(ghost.stop_calls), ghost.stop_arg == old(ghost.graceful))"
SC_RAISE = lambda extra=(): {"SocketClosedAPIError": {"kind": "property", "ensures": [("closed-after-write-failure", CLOSED)] + list(extra)}}  # noqa: E731


def ping_handler_contract():
    return mk(
        "_handle_ping_request_internal", params={"_msg": "msg[PingRequest]"},
        ensures=[P("C12", "answers-with-one-ping-response", "writes == (((proto_id(PingResponse), PingResponse()),),)"),
                 ("nothing-else-changes", "conn_unchanged()")],
        raises={"ConnectionNotEstablishedAPIError": {"kind": "auxiliary", "when": "not old(self._handshake_complete)", "ensures": [("nothing", "n_writes == 0")]},
                **SC_RAISE()},
        tags=["C12"],
    )


def time_handler_contract():
    return mk(
        "_handle_get_time_request_internal", params={"_msg": "msg[GetTimeRequest]"},
        ensures=[P("C12", "answers-with-the-current-time", "n_writes == 1 and len(writes[0]) == 1 and writes[0][0][0] == proto_id(GetTimeResponse) and "
                                                          "writes[0][0][1] == GetTimeResponse(epoch_seconds=int(wallclock))"),
                 ("nothing-else-changes", "conn_unchanged()")],
        raises={"ConnectionNotEstablishedAPIError": {"kind": "auxiliary", "when": "not old(self._handshake_complete)", "ensures": [("nothing", "n_writes == 0")]},
                **SC_RAISE()},
        tags=["C12"],
    )


def disconnect_handler_contract():
    return mk(
        "_handle_disconnect_request_internal", params={"_msg": "msg[DisconnectRequest]"},
        pre_hints="ghost.graceful = True",       # a disconnect request from the device has been received: graceful close initiated
        ensures=[P("C12", "response-first-then-close", "writes == (((proto_id(DisconnectResponse), DisconnectResponse()),),) and write_before_close"),
                 P("C12", "closed", CLOSED),
                 P("C07", "stop-exactly-when-was-connected", STOP_EXACT),
                 P("C07", "stop-says-expected", "implies(ghost.stop_calls > old(ghost.stop_calls), ghost.stop_arg)")],
        raises={"ConnectionNotEstablishedAPIError": {"kind": "auxiliary", "when": "not old(self._handshake_complete)", "ensures": [("nothing", "n_writes == 0")]},
                **SC_RAISE([("stop-says-expected-even-if-the-reply-fails", "implies(ghost.stop_calls > old(ghost.stop_calls), ghost.stop_arg)"),
                            ("stop-exactly", STOP_EXACT)])},
        tags=["C12", "C07"],
    )


def force_disconnect_contract():
    return mk(
        "force_disconnect",
        pre_hints="ghost.graceful = True",       # a local force-disconnect has been initiated
        ensures=[P("C05", "closed", CLOSED),
                 P("C07", "stop-exactly-when-was-connected", STOP_EXACT),
                 P("C07", "stop-says-expected", "implies(ghost.stop_calls > old(ghost.stop_calls), ghost.stop_arg)"),
                 P("C08", "at-most-the-disconnect-request-is-written",
                   "n_writes == 0 or (writes == (((proto_id(DisconnectRequest), DisconnectRequest()),),) and write_before_close and old(self._handshake_complete))")],
        tags=["C05", "C07", "C08", "C09"],
    )


def send_keep_alive_contract():
    K = "self._keep_alive_interval"
    return mk(
        "_async_send_keep_alive",
        requires=[("own-timer-fired", "self._ping_timer is not None")],
        ensures=[
            P("C10", "ping-exactly-when-idle", "n_writes == (1 if old(self._send_pending_ping) else 0) and "
                                               "implies(n_writes == 1, writes == (((proto_id(PingRequest), PingRequest()),),))"),
            P("C10", "pong-deadline-armed-once-at-4.5K",
              "implies(old(self._send_pending_ping) and old(self._pong_timer) is None, self._pong_timer is not None and armed(self._pong_timer) "
              f"and timer_when(self._pong_timer) == ghost.now + {K} * 4.5 and timer_cb(self._pong_timer) is boxed(self._async_pong_not_received))"),
            P("C10", "pong-deadline-never-moved", "implies(old(self._pong_timer) is not None or not old(self._send_pending_ping), self._pong_timer is old(self._pong_timer))"),
            P("C10", "next-tick-at-now-plus-K", f"self._ping_timer is not None and armed(self._ping_timer) and timer_when(self._ping_timer) == ghost.now + {K} "
                                                "and timer_cb(self._ping_timer) is boxed(self._async_send_keep_alive) and self._send_pending_ping"),
        ],
        raises={"SocketClosedAPIError": {"kind": "property", "ensures": [
            ("closed-after-write-failure", CLOSED), ("nothing-re-armed-after-close", "self._ping_timer is None and self._pong_timer is None")]}},
        tags=["C10", "C08"],
    )


def pong_not_received_contract():
    return mk(
        "_async_pong_not_received",
        ensures=[P("C10", "declares-dead", CLOSED),
                 P("C10", "ping-failed-error", "implies(old(self._fatal_exception) is None, exact_type(self._fatal_exception, PingFailedAPIError))"),
                 P("C10", "unexpected-stop-unless-graceful", STOP_EXACT + " and " + STOP_REASON)],
        tags=["C10", "C07"],
    )


def hello_resp_contract():
    return mk(
        "_process_hello_resp", params={"resp": "msg[HelloResponse]"},
        ensures=[
            P("C06", "accepted-only-if-compatible-and-correctly-named",
              "resp.api_version_major <= 2 and (self._params.expected_name is None or resp.name == '' or resp.name == self._params.expected_name)"),
            P("C06", "version-recorded", "self.api_version == APIVersion(resp.api_version_major, resp.api_version_minor)"),
            P("C06", "name-recorded", "implies(resp.name != '', self.received_name == resp.name)"),
        ],
        raises={
            "BadNameAPIError": {"kind": "property", "when": "resp.api_version_major <= 2 and self._params.expected_name is not None and resp.name != '' and resp.name != self._params.expected_name",
                                "ensures": [("carries-the-received-name", "exc.received_name == resp.name")]},
            "APIConnectionError": {"kind": "property", "when": "resp.api_version_major > 2 or (self._params.expected_name is not None and resp.name != '' and resp.name != self._params.expected_name)"},
        },
        modifies=["self.api_version", "self.received_name", "self.log_name"],
        tags=["C06"],
    )


def login_resp_contract():
    return mk(
        "_process_login_response", params={"login_response": "msg[ConnectResponse]"},
        ensures=[P("C06", "accepted-only-if-password-valid", "not login_response.invalid_password"), ("nothing-changes", "conn_unchanged()")],
        raises={"InvalidAuthAPIError": {"kind": "property", "when": "login_response.invalid_password", "ensures": [("nothing-changes", "conn_unchanged()")]}},
        modifies=[], tags=["C06"],
    )


def make_connect_request_contract():
    return mk(
        "_make_connect_request", result="msg[ConnectRequest]",
        ensures=[P("C06", "carries-the-configured-password", "result == ConnectRequest(password=(self._params.password if self._params.password is not None else ''))"),
                 ("nothing-changes", "conn_unchanged()")],
        modifies=[], tags=["C06"],
    )


def wrap_contract():
    return mk(
        "_wrap_fatal_connection_exception", params={"action": "str", "ex": "exc[BaseException]"}, result="exc[Exception]",
        ensures=[P("C09", "always-a-connection-error", "typeof_is(result, APIConnectionError)"),
                 P("C09", "connection-errors-pass-through-unchanged", "implies(typeof_is(ex, APIConnectionError), result is ex)"),
                 P("C09", "first-fatal-cause-decides-the-class",
                   "implies(not typeof_is(ex, APIConnectionError) and typeof_is(self._fatal_exception, APIConnectionError), same_class(class_of(result), class_of(self._fatal_exception)))"),
                 P("C09", "cancellation-and-socket-errors-are-classified",
                   "implies(not typeof_is(ex, APIConnectionError) and not typeof_is(self._fatal_exception, APIConnectionError), "
                   "(exact_type(result, APIConnectionCancelledError) if typeof_is(ex, CancelledError) else "
                   "(exact_type(result, SocketAPIError) if typeof_is(ex, OSError) else exact_type(result, UnhandledAPIConnectionError))))"),
                 ("nothing-changes", "conn_unchanged()")],
        modifies=[], tags=["C09"],
    )


def _regions_setup(eng, st):
    for r in cm.REGIONS:
        region(eng, st, r)


def handle_timeout_contract():
    return Contract(
        CONN + "handle_timeout", params={"fut": "obj[Future]"}, setup=_regions_setup, tags=["C11"],
        ensures=[("fails-only-a-pending-future-with-a-timeout", "fdone(fut) and implies(not old(fdone(fut)), fexc(fut) is boxed(asyncio_TimeoutError))"),
                 ("a-completed-future-is-left-alone", "implies(old(fdone(fut)), fexc(fut) is old(fexc(fut)))")],
        modifies=["region:Future.done", "region:Future.exc"],
    )


def handle_complex_message_contract():
    return Contract(
        CONN + "handle_complex_message", setup=_regions_setup, tags=["C11"],
        params={"fut": "obj[Future]", "responses": "list[obj]", "do_append": "opt[callable[Pred]]", "do_stop": "opt[callable[Pred]]", "resp": "obj[Message]"},
        ensures=[
            ("ignores-messages-after-completion", "implies(old(fdone(fut)), responses == old(responses) and fdone(fut) and fexc(fut) is old(fexc(fut)))"),
            ("appends-exactly-the-accepted-message",
             "implies(not old(fdone(fut)), responses == old(responses) + ((resp,) if (do_append is None or accepts(do_append, resp)) else ()))"),
            ("completes-exactly-on-the-stop-message",
             "implies(not old(fdone(fut)), fdone(fut) == (do_stop is None or accepts(do_stop, resp)) and implies(fdone(fut), not has_exc(fut)))"),
        ],
        modifies=["region:Future.done", "region:Future.exc", "responses"],
    )


def _in_types(q, n):
    return " or ".join(f"same_class({q}, msg_types[{i}])" for i in range(n)) or "False"


def add_callback_contract(n=1, qual="_add_message_callback_without_remove"):
    return mk(
        qual, params={"on_message": "callable[Callback]", "msg_types": "tuple[" + ",".join(["cls"] * n) + "]"}, label=f"arity{n}",
        ghost_params={"q": "cls"},
        result=("callable[Remover]" if qual == "add_message_callback" else None),
        ensures=[P("C11", "adds-exactly-this-callback-for-exactly-these-types",
                   f"handlers_of(self, q) == (set_add(old(handlers_of(self, q)), on_message) if ({_in_types('q', n)}) else old(handlers_of(self, q)))"),
                 ("types-have-entries-afterwards", " and ".join(f"has_entry(self, msg_types[{i}])" for i in range(n)) or "True"),
                 ("entries-never-disappear", "implies(old(has_entry(self, q)), has_entry(self, q))")]
        + ([("returns-the-matching-remover", "is_remover(result, self, on_message, msg_types)")] if qual == "add_message_callback" else []),
        modifies=["self._message_handlers"], tags=["C11", "C12"],
    )


def remove_callback_contract(n=1):
    return mk(
        "_remove_message_callback", params={"on_message": "callable[Callback]", "msg_types": "tuple[" + ",".join(["cls"] * n) + "]"}, label=f"arity{n}",
        ghost_params={"q": "cls"},
        requires=[(f"type{i}-was-registered", f"has_entry(self, msg_types[{i}])") for i in range(n)],
        ensures=[P("C11", "removes-exactly-this-callback-for-exactly-these-types",
                   f"handlers_of(self, q) == (set_del(old(handlers_of(self, q)), on_message) if ({_in_types('q', n)}) else old(handlers_of(self, q)))"),
                 ("entries-never-disappear", "implies(old(has_entry(self, q)), has_entry(self, q))")],
        modifies=["self._message_handlers"], tags=["C11", "C12"],
    )


def complex_contract(n_types=1, n_msgs=1):
    AP, SP = "do_append", "do_stop"
    COLL = f"coll(ghost.arrivals, {AP}, {SP}, ghost.narr)"
    reg = " and ".join(f"handler_registered(self, msg_types[{i}], on_message)" for i in range(n_types))
    unreg = " and ".join(f"not handler_registered(self, msg_types[{i}], on_message)" for i in range(n_types))
    left_nothing = [# a call that is refused before it ever waits (not connected, write failed) has registered nothing: stated over the handler
                    # table and the waiter set themselves, for every message class q, since the call's locals may not exist yet
                    ("refused-before-waiting-leaves-nothing-registered",
                     "implies(n_cuts == 0, implies(ghost.stop_calls == old(ghost.stop_calls), handlers_of(self, q) == old(handlers_of(self, q))) and "
                     f"(set_val(self._read_exception_futures) == old(set_val(self._read_exception_futures)) or ({S} is CS.CLOSED and set_empty(self._read_exception_futures))) "
                     "and n_timers_armed_here == 0)"),
                    ("own:no-handler-left", f"implies(n_cuts > 0, {unreg})"),
                    ("own:no-waiter-left", "implies(n_cuts > 0, not set_has(self._read_exception_futures, fut))"),
                    ("own:no-timer-left", "implies(n_cuts > 0, not armed(timeout_handle))")]
    exp = ", ".join(f"(proto_id(class_of(messages[{i}])), messages[{i}])" for i in range(n_msgs))

    def setup(eng, st):
        msgs_setup(n_msgs)(eng, st)
        st.env.f["messages"] = st.env.f.pop("msgs")
    c = mk(
        "send_messages_await_response_complex", label=f"types{n_types}msgs{n_msgs}", dispatches=True, has_awaits=True,
        ghost_params={"i": "int"},
        params={"messages": "none", "do_append": "opt[callable[Pred]]", "do_stop": "opt[callable[Pred]]",
                "msg_types": "tuple[" + ",".join(["cls"] * n_types) + "]", "timeout": "real"},
        setup=setup, result="list[obj[Message]]",
        requires=[("timeout-positive", "timeout > 0")],
        cutpoints={"await#1": dict(
            check=[("request-written-once-before-waiting", f"writes == (({exp}{',' if n_msgs == 1 else ''}),)", ["C11"]),
                   # (C09 too: the call's time bound rests on the registered handler being the pure collector, which never touches the timer)
                   ("registered-in-the-same-turn-as-the-write", f"n_cuts == 0 and {reg} and is_collector(on_message, fut, responses, {AP}, {SP})", ["C11", "C09"]),
                   ("waiter-registered", "set_has(self._read_exception_futures, fut) and not fdone(fut)", ["C11", "C08"]),
                   ("own-timeout-armed", "armed(timeout_handle) and timer_when(timeout_handle) == ghost.now + timeout", ["C11", "C09"])],
            havoc_typed={"responses": "list[obj[Message]]"},
            ghost_fresh={"arrivals": "seq[obj]", "narr": "int"},
            # call invariant (L3 lemma ci_step + C12 dispatch contract + the registration obligations above)
            assume=[f"ghost.narr >= 0 and ghost.narr <= len(ghost.arrivals) and responses == {COLL}",
                    f"implies(fdone(fut) and not has_exc(fut), stopped(ghost.arrivals, {AP}, {SP}, ghost.narr))",
                    # the collector is registered for msg_types only, and dispatch calls it only with messages of those classes (C12)
                    "implies(0 <= i and i < len(responses), one_of_types(responses[i], msg_types))",
                    # who may complete `fut` (A-FUTOWN): the collector (result), its own timer (TimeoutError), _cleanup (the connection's error)
                    "implies(fdone(fut) and has_exc(fut), (fexc(fut) is boxed(asyncio_TimeoutError) and not armed(timeout_handle)) or "
                    f"(typeof_is(fexc(fut), APIConnectionError) and {S} is CS.CLOSED))"],
            exc_classes=["TimeoutError", "APIConnectionError"],
        )},
        post_hints=f"coll_single(ghost.arrivals, {AP}, {SP}, ghost.narr)",
        ensures=[
            OWN("C11", "returns-the-list-its-collector-filled", "result is responses"),
            P("C11", "result-is-the-collected-responses", f"ghost.narr >= 0 and ghost.narr <= len(ghost.arrivals) and result == {COLL} and stopped(ghost.arrivals, {AP}, {SP}, ghost.narr)"),
            P("C11", "every-response-has-a-subscribed-type", "implies(0 <= i and i < len(result), one_of_types(result[i], msg_types))"),
            P("C11", "single-response-when-no-predicates", f"implies({AP} is None and {SP} is None, len(result) == 1)"),
        ] + [OWN("C11", n_, t_) for n_, t_ in left_nothing],
        raises={
            "TimeoutAPIError": {"kind": "property", "ensures": [("own:only-after-its-own-timer-fired-or-the-connection-closed", f"n_cuts > 0 and (fexc(fut) is boxed(asyncio_TimeoutError) or {S} is CS.CLOSED)")] + left_nothing},
            "APIConnectionError": {"kind": "property", "ensures": left_nothing},
            "CancelledError": {"kind": "property", "ensures": left_nothing},
        },
        tags=["C11", "C09", "C08"],
    )
    return c


def define_predicate(eng, st, f):
    """A predicate given as a lambda of the real code: accepts(f, m) is *defined* by the lambda's body, for every message m
    (the body is evaluated symbolically on an arbitrary message; it must be a single pure path)."""
    if not (isinstance(f, VFunc) and f.kind == "py"):
        return
    from pyvc.builtins import typeof_f
    m = z3.Const(fresh_name("anymsg"), ObjS)
    sc = st.clone()
    r = eng.call(f, [VObj(m, "Message")], {}, sc)
    if len(r) != 1 or isinstance(r[0][1], Raised) or len(r[0][0].pc) != len(st.pc):
        raise Unsupported("predicate lambda is not a single pure path")
    b = truth(r[0][1], r[0][0])
    acc = eng.call(eng.hooks["names"]["accepts"], [f, VObj(m, "Message")], {}, st)[0][1]
    st.fact(z3.ForAll([m], acc.e == b))


def callee_on_record(qual, cls_name, base_contract, flag=None):
    """A method taking a received message of class `cls_name`: called with an opaque message of another class it fails with
    AttributeError on its first field access (what the real code does); otherwise its contract applies to the message's fields."""
    from pyvc.contracts import apply_contract
    from pyvc.builtins import typeof_f, cls_code
    c = Contract(CONN + "APIConnection." + qual, self_type="inst[APIConnection]")

    def model(eng, st, fv, args, kwargs):
        import aioesphomeapi.api_pb2 as pb
        cls = getattr(pb, cls_name)
        arg = args[1]
        if not isinstance(arg, VObj):
            return apply_contract(eng, base_contract(), fv, args, kwargs, st)
        out = []
        for s, tv in eng.fork_bool(typeof_f(arg.e) == cls_code(cls), st, f"is:{cls_name}"):
            if tv:
                rec = eng.as_record(eng, s, arg, cls)
                for s2, r2 in apply_contract(eng, base_contract(), fv, [args[0], rec] + list(args[2:]), kwargs, s):
                    if flag and not isinstance(r2, Raised):
                        s2.heap[s2.ghost_oid].f[flag] = VBool(True)     # ghost: this check accepted a response of the right class
                    out.append((s2, r2))
            else:
                out.append((s, eng.raise_py(s, AttributeError, f"not a {cls_name}")))
        return out
    c.model = model
    return c


def complex_dispatch():
    from pyvc.contracts import apply_contract
    c = Contract(CONN + "APIConnection.send_messages_await_response_complex", self_type="inst[APIConnection]")

    def model(eng, st, fv, args, kwargs):
        a = list(args)
        names_ = ["self", "messages", "do_append", "do_stop", "msg_types", "timeout"]
        vals = dict(zip(names_, a))
        vals.update(kwargs)
        nm = len(eng.iter_concrete(vals["messages"], st))
        nt = len(eng.iter_concrete(vals["msg_types"], st))
        if not (1 <= nm <= 2 and 1 <= nt <= 2):
            raise Unsupported(f"send_messages_await_response_complex: {nm} messages / {nt} types is outside the proved arities")
        cc = complex_contract(nt, nm)
        cc.setup = None
        for pname in ("do_append", "do_stop"):
            define_predicate(eng, st, vals[pname])
        # the request goes out first (its contract: gate, one write, failure closes); the rest of the call follows
        out = []
        sm = eng.contracts[CONN + "APIConnection.send_messages"]
        import aioesphomeapi.connection as C_
        smf = eng.find_method(C_.APIConnection, "send_messages", st)
        for s, r in sm.model(eng, st, smf, [vals["self"], vals["messages"]], {}):
            if isinstance(r, Raised):
                out.append((s, r))
            else:
                out.extend(apply_contract(eng, cc, fv, args, kwargs, s))
        return out
    c.model = model
    return c


def ci_lemmas():
    M = "contracts.conn."
    return [
        Contract(M + "ci_step", params={"fut": "obj[Future]", "responses": "list[obj]", "do_append": "opt[callable[Pred]]", "do_stop": "opt[callable[Pred]]",
                                        "A": "seq[obj]", "k": "int"},
                 setup=_regions_setup,
                 requires=["0 <= k and k < len(A)", "responses == coll(A, do_append, do_stop, k)",
                           "(fdone(fut) and not has_exc(fut)) == stopped(A, do_append, do_stop, k)", "implies(fdone(fut), not has_exc(fut))"],
                 ensures=["responses == coll(A, do_append, do_stop, k + 1)",
                          "(fdone(fut) and not has_exc(fut)) == stopped(A, do_append, do_stop, k + 1)", "implies(fdone(fut), not has_exc(fut))"],
                 modifies=["region:Future.done", "region:Future.exc", "responses"], kind="auxiliary", tags=["C11"]),
        Contract(M + "coll_single", params={"A": "seq[obj]", "ap": "opt[callable[Pred]]", "sp": "opt[callable[Pred]]", "k": "int"},
                 requires=["k >= 0", "k <= len(A)"],
                 ensures=["implies(ap is None and sp is None and stopped(A, ap, sp, k), len(coll(A, ap, sp, k)) == 1)",
                          "implies(ap is None and sp is None and not stopped(A, ap, sp, k), len(coll(A, ap, sp, k)) == 0 and k == 0)"],
                 decreases="k", recursive_ok=True, kind="auxiliary", tags=["C11"]),
    ]


def ci_step(fut, responses, do_append, do_stop, A, k):
    """L3-C11, induction step of the call invariant: one more arrival handled by the real handle_complex_message
    (through its contract) takes (coll(A,k), stopped(A,k)) to (coll(A,k+1), stopped(A,k+1))."""
    unfold(coll(A, do_append, do_stop, k + 1))
    unfold(stopped(A, do_append, do_stop, k + 1))
    handle_complex_message(fut, responses, do_append, do_stop, A[k])


def coll_single(A, ap, sp, k):
    unfold(coll(A, ap, sp, k))
    unfold(stopped(A, ap, sp, k))
    if k > 0:
        coll_single(A, ap, sp, k - 1)
        unfold(stopped(A, ap, sp, k - 1))


# ------------------------------------------------------------------------------------------------------------
# the connect phases, disconnect and the single-response call
# ------------------------------------------------------------------------------------------------------------
CANCEL = {"CancelledError": {"kind": "auxiliary"}}


def set_state_contract():
    c = mk(
        "_set_connection_state", params={"state": f"enum[{cm.ST}]"}, inv_relaxed=MID_PHASE,
        ensures=[P("C05", "state-and-flags-set-together", f"{S} is state and self.is_connected == (state is CS.CONNECTED) and "
                                                          "self._handshake_complete == (state is CS.HANDSHAKE_COMPLETE or state is CS.CONNECTED)"),
                 P("C05", "never-leaves-closed", f"implies(old({S}) is CS.CLOSED, state is CS.CLOSED)")],
        raises={"ConnectionInterruptedError": {"kind": "property", "when": f"old({S}) is CS.CLOSED and state is not CS.CLOSED",
                                               "ensures": [("nothing-changes", "conn_unchanged()")]}},
        requires=[("callers-only-move-forward", f"rank(state) >= rank({S}) or {S} is CS.CLOSED"),
                  ("connected-only-from-the-finish-phase", "implies(state is CS.CONNECTED, ghost.in_phase)")],
        modifies=["self.connection_state", "self.is_connected", "self._handshake_complete"], tags=["C05"],
    )
    c.conn_entry = False          # a private helper: Inv/Step are obligations of its callers' segments
    c.ensures = [cl for cl in c.ensures if cl.name in ("state-and-flags-set-together", "never-leaves-closed")]
    for spec in c.raises.values():
        spec["ensures"] = [("nothing-changes", "conn_unchanged()")]
    return c


def set_state_callee():
    """_set_connection_state as seen by callers: its contract plus the ghost update `ever_connected`."""
    from pyvc.contracts import apply_contract
    base = set_state_contract()
    base.ensures = [cl for cl in base.ensures if cl.name in ("state-and-flags-set-together", "never-leaves-closed")]
    for spec in base.raises.values():
        spec["ensures"] = [("nothing-changes", "conn_unchanged()")]
    c = Contract(base.target, self_type="inst[APIConnection]")

    def model(eng, st, fv, args, kwargs):
        out = []
        for s, r in apply_contract(eng, base, fv, args, kwargs, st):
            if not isinstance(r, Raised):
                state = kwargs.get("state", args[-1])
                g = s.heap[s.ghost_oid]
                is_conn = simp(as_int(state) == 3)
                g.f["ever_connected"] = VBool(simp(z3.Or(truth(g.f["ever_connected"]), is_conn)))
            out.append((s, r))
        return out
    c.model = model
    return c


def resolve_host_contract():
    keep = [("own-frame", f"({S} is old({S}) or {S} is CS.CLOSED) and implies(old(self._frame_helper) is None, self._frame_helper is None) "
                          "and implies(old(self._socket) is None, self._socket is None)")]
    return mk("_connect_resolve_host", result="obj[AddrList]", dispatches=True, phase_owner=True, has_awaits=True, ensures=keep,
              raises={"APIConnectionError": {"kind": "property", "ensures": keep}, "CancelledError": {"kind": "auxiliary", "ensures": keep}}, tags=["C09"])


def init_contract():
    """The constructor establishes Inv_conn (every other method is proved from it) and the documented keepalive ratio."""
    from pyvc.contracts import Clause
    import asyncio

    def _setup(eng, st):
        for r in cm.REGIONS:
            region(eng, st, r)
        g = st.heap[st.ghost_oid]
        g.f["stop_calls"] = VInt(0)
        g.f["graceful"] = VBool(False)
        g.f["in_phase"] = VBool(False)
        g.f["ever_connected"] = VBool(False)
        g.f["on_stop_given"] = VBool(simp(z3.Not(is_none(st.env.f["on_stop"]))))
        eng.builtins[id(asyncio.get_event_loop)] = lambda e, s, a, k: ok(s, VObj(z3.Const("the_loop", ObjS), "Loop"))
    ens = [Clause("Inv:" + n, t, "property", tags) for n, t, tags in cm.INV]
    ens += [P("C05", "starts-initialized", f"{S} is CS.INITIALIZED and not self.is_connected and not self._handshake_complete and self._fatal_exception is None"),
            P("C10", "pong-deadline-is-4.5-keepalive-intervals", "self._keep_alive_interval == params.keepalive and self._keep_alive_timeout == params.keepalive * 4.5"),
            P("C07", "stop-callback-kept", "self.on_stop is on_stop and not self._expected_disconnect")]
    c = Contract(CONN + "APIConnection.__init__", self_type="inst[APIConnection]", setup=_setup,
                 params={"params": "dataclass[ConnectionParams]", "on_stop": "opt[callable[StopCb]]", "debug_enabled": "bool", "log_name": "opt[str]"},
                 ensures=ens, tags=["C05", "C07", "C08", "C09", "C10"])
    return c


def socket_connect_contract():
    """The TCP connect loop over aiohappyeyeballs (one attempt per remaining address family, 60 s each), then the socket options.
    A-LIB(aiohappyeyeballs): start_connection returns a connected socket or raises OSError; pop_addr_infos_interleave shortens a
    non-empty list."""
    frame = ("own-frame", f"({S} is old({S}) or {S} is CS.CLOSED) and implies(old(self._frame_helper) is None, self._frame_helper is None)")
    return mk("_connect_socket_connect", params={"addrs": "obj[AddrList]"}, dispatches=True, phase_owner=True, has_awaits=True,
              requires=[("no-socket-yet", "self._socket is None"), ("in-start-phase", "ghost.in_phase")],
              # returns inside the start phase's atomic segment with the socket attached and the state not yet SOCKET_OPENED:
              # start_connection advances the state before its next suspension point
              exit_relaxed=("I4-init-has-nothing",),
              ensures=[P("C05", "socket-attached", "self._socket is not None"), frame],
              raises={"APIConnectionError": {"kind": "property", "tags": ["C09", "C08"],
                                             "ensures": [("connect-failures-are-classified", "exact_type(exc, TimeoutAPIError) or exact_type(exc, SocketAPIError)"),
                                                         ("no-socket-attached", "self._socket is None and not opened_socket"), frame]},
                      # a failing setsockopt/getpeername on the fresh socket: wrapped by start_connection (its own obligation), the socket is attached and released there
                      "OSError": {"kind": "property", "tags": ["C08"],
                                  "ensures": [("an-opened-socket-is-attached-so-that-the-cleanup-closes-it", "implies(opened_socket, self._socket is not None)"), frame]},
                      "CancelledError": {"kind": "auxiliary", "ensures": [frame, ("no-socket-attached", "self._socket is None")]}},
              loops={"loop#1": dict(
                  types={"sock": "opt[obj[Socket]]", "last_exception": "opt[exc[Exception]]"},
                  invariant=["sock is None", "self._socket is None",
                             "last_exception is None or typeof_is(last_exception, OSError)"] + loop_inv_step(),
                  decreases="len(addr_infos)",
                  modifies=all_mods())},
              tags=["C05", "C08", "C09"])


def init_frame_helper_contract():
    return mk(
        "_connect_init_frame_helper", dispatches=True, phase_owner=True, has_awaits=True,
        requires=[("socket-opened", "self._socket is not None"), ("in-finish-phase", "ghost.in_phase"),
                  # (C05/C08) a second handshake on an object that already has a helper would restart the state machine and leak the first helper
                  Clause_("no-helper-yet", "self._frame_helper is None", "property", ["C05", "C08"])],
        cutpoints={"await#3": dict(exc_classes=["Exception"],
                                   # (C09) the handshake wait ends at the documented 30 s, counted from now
                                   check=[("handshake-deadline-is-30s-from-now",
                                           "armed(handshake_handle) and timer_when(handshake_handle) == ghost.now + 30.0", ["C09"])]),
                   "await#1": {}, "await#2": {}},
        ensures=[P("C05", "handshake-complete-only-from-an-open-connection", f"{S} is CS.HANDSHAKE_COMPLETE and self._frame_helper is not None")],
        raises={"Exception": {"kind": "auxiliary"}, **CANCEL},
        tags=["C05", "C08", "C09"],
    )


def hello_login_contract(login):
    HELLO = "HelloRequest(client_info=self._params.client_info, api_version_major=1, api_version_minor=10)"
    CONNECT = "ConnectRequest(password=(self._params.password if self._params.password is not None else ''))"
    exp = f"((proto_id(HelloRequest), {HELLO}), (proto_id(ConnectRequest), {CONNECT}))" if login else f"((proto_id(HelloRequest), {HELLO}),)"
    return mk(
        "_connect_hello_login", params={"login": "bool"}, label="login" if login else "nologin", dispatches=True, phase_owner=True, has_awaits=True,
        modifies=all_mods() + ["ghost.hello_passed", "ghost.hello_checked", "ghost.login_checked"],
        requires=[("this-variant", "login" if login else "not login"),
                  # (C12) the device's ping / time / disconnect requests must be serviced from the first exchange on
                  Clause_("device-requests-are-serviced-during-hello-and-login",
                          "handler_registered(self, DisconnectRequest, self._handle_disconnect_request_internal) and "
                          "handler_registered(self, PingRequest, self._handle_ping_request_internal) and "
                          "handler_registered(self, GetTimeRequest, self._handle_get_time_request_internal)", "property", ["C12"])],
        pre_hints="ghost.hello_checked = False\nghost.login_checked = False", post_hints="ghost.hello_passed = True",
        ensures=[
            ("hello-passed", "ghost.hello_passed"),
            OWN("C06", "hello-and-login-go-out-in-one-write", f"len(writes) >= 1 and writes[0] == {exp}"),
            # ghost.hello_checked / login_checked are set where _process_hello_resp / _process_login_response return normally for a
            # HelloResponse / ConnectResponse: by their contracts the version, name and password checks then passed
            OWN("C06", "succeeds-only-after-a-compatible-correctly-named-hello", "ghost.hello_checked"),
        ] + ([OWN("C06", "succeeds-only-if-the-password-was-accepted", "ghost.login_checked")] if login else []),
        raises={"Exception": {"kind": "auxiliary"}, **CANCEL},
        tags=["C06"],
    )


def hello_login_dispatch():
    from pyvc.contracts import apply_contract
    c = Contract(CONN + "APIConnection._connect_hello_login", self_type="inst[APIConnection]")

    def model(eng, st, fv, args, kwargs):
        login = kwargs.get("login", args[-1])
        out = []
        for s, tv in eng.fork_bool(truth(login, st), st, "login"):
            out.extend(apply_contract(eng, hello_login_contract(tv), fv, args, kwargs, s))
        return out
    c.model = model
    return c


# (C09) the documented bound of the start phase is one resolution (30 s) plus one TCP connect loop: neither step is repeated
ONCE = P("C09", "each-step-of-the-start-phase-runs-at-most-once", "n_resolves <= 1 and n_socket_connects <= 1")


def phase_contract(which):
    start = which == "start"
    pre_state, post_state = ("INITIALIZED", "SOCKET_OPENED") if start else ("SOCKET_OPENED", "CONNECTED")
    return mk(
        "start_connection" if start else "finish_connection", params=({} if start else {"login": "bool"}), dispatches=True, phase_owner=True, has_awaits=True,
        modifies=all_mods() + ["ghost.hello_passed"],
        requires=[("no-other-phase-of-this-object-is-running", "not ghost.in_phase")],
        pre_hints="ghost.in_phase = True", post_hints="ghost.in_phase = False", exc_hints="ghost.in_phase = False",
        ensures=[P("C05", "phase-ends-in-its-target-state", f"{S} is CS.{post_state} and old({S}) is CS.{pre_state}")]
        + ([ONCE] if start else [P("C06", "connected-only-after-the-hello-login-checks-passed", "ghost.hello_passed")]),
        raises={
            "RuntimeError": {"kind": "property", "when": f"old({S}) is not CS.{pre_state}", "ensures": [("misuse-changes-nothing", "conn_unchanged()")]},
            "APIConnectionError": {"kind": "property", "when": f"old({S}) is CS.{pre_state}",
                                   "ensures": [("failed-phase-ends-closed", CLOSED),
                                               ("stop-callback-not-invoked", "ghost.stop_calls == old(ghost.stop_calls)")] + ([(ONCE.name, ONCE.text)] if start else [])},
        },
        tags=["C05", "C06", "C08", "C09"],
    )


def single_response_contract():
    return mk(
        "send_message_await_response", params={"send_msg": "obj[Message]", "response_type": "cls", "timeout": "real"}, result="obj[Message]",
        dispatches=True, has_awaits=True, requires=[("timeout-positive", "timeout > 0")],
        setup=lambda eng, st: None,
        ensures=[P("C11", "returns-a-message-of-the-requested-type", "same_class(class_of(result), response_type)")],
        raises={"APIConnectionError": {"kind": "property"}, **CANCEL},
        tags=["C11", "C09"],
    )


def disconnect_contract():
    return mk(
        "disconnect", dispatches=True, has_awaits=True,
        pre_hints="ghost.graceful = True",        # a local disconnect has been initiated
        ensures=[P("C05", "closed", CLOSED),
                 P("C07", "stop-says-expected", "implies(ghost.stop_calls > old(ghost.stop_calls), ghost.stop_arg)")],
        raises={"CancelledError": {"kind": "property"}},
        tags=["C05", "C07", "C09"],
    )


def keepalive_window_target():
    """L3-C10 (reals, no induction).  Hypotheses = the postconditions of _async_send_keep_alive, process_packet and
    _async_pong_not_received proved above, transcribed for three consecutive ticks T0 < T1 < T2 (T_{i+1} = T_i + K):
      tick at time T with (pending, pong):  ping iff pending;  pong' = (T + 4.5K if pending and pong is None else pong);  pending' = True;
      a valid message at time t:            pending' = False;  pong' = None;
      the pong timer fires at its deadline if still armed: the connection is declared dead at that time.
    Conclusions: (a) no ping at a tick if a message arrived since the previous tick, (b) a peer whose last message arrives at
    t in (T0-K, T0] is declared dead exactly at T1 + 4.5K = T0 + 5.5K, which lies in [t + 5.5K, t + 6.5K); if the message and the
    tick T0 coincide and the tick runs first, at T0 + 6.5K = t + 6.5K; (c) while messages keep arriving with gaps < 4.5K nobody dies."""
    from pyvc.contracts import CTX, oblige as _ob
    from pyvc.state import State

    def run(eng, opts):
        CTX.target = "connection.keepalive-window"
        CTX.tags = ["C10"]
        CTX.timeout_ms = opts.get("timeout_ms")
        CTX.both = opts.get("both", False)
        CTX.input_syms = []
        R = z3.Real
        K, T0, t = R("K"), R("T0"), R("t")
        st = State()
        st.assume(K > 0)
        NONE = z3.RealVal(-1)          # pong deadline "None" (deadlines are > 0)
        st.assume(T0 > K)

        def tick(T, pending, pong):
            ping = pending
            pong2 = z3.If(z3.And(pending, pong == NONE), T + 4.5 * K, pong)
            return ping, z3.BoolVal(True), pong2

        def msg(pending, pong):
            return z3.BoolVal(False), NONE
        p0, g0 = z3.Bool("pending0"), R("pong0")
        st.assume(z3.Or(g0 == NONE, g0 > 0))
        # case 1: last message at t in (T0-K, T0), processed before the tick T0; then silence
        st1 = st.clone()
        st1.assume(z3.And(t > T0 - K, t <= T0))
        pa, ga = msg(p0, g0)
        ping0, pb, gb = tick(T0, pa, ga)
        ping1, pc, gc = tick(T0 + K, pb, gb)
        _ob(eng, st1, z3.Not(ping0), "no-ping-at-a-tick-after-a-message", kind="property")
        _ob(eng, st1, ping1, "ping-at-the-first-idle-tick", kind="property")
        _ob(eng, st1, gc == T0 + 5.5 * K, "pong-deadline-is-4.5K-after-the-first-unanswered-ping", kind="property")
        ping2, pd, gd = tick(T0 + 2 * K, pc, gc)
        _ob(eng, st1, z3.And(ping2, gd == gc), "later-pings-do-not-move-the-deadline", kind="property")
        _ob(eng, st1, z3.And(gc >= t + 5.5 * K, gc < t + 6.5 * K), "silent-peer-detected-within-[t+5.5K,t+6.5K)", kind="property")
        # case 2: the message arrives at the very instant of tick T0 and the tick runs first
        st2 = st.clone()
        st2.assume(t == T0)
        ping0, pb, gb = tick(T0, p0, g0)
        pm, gm = msg(pb, gb)
        ping1, pc, gc = tick(T0 + K, pm, gm)
        ping2, pd, gd = tick(T0 + 2 * K, pc, gc)
        _ob(eng, st2, z3.And(z3.Not(ping1), ping2, gd == t + 6.5 * K), "tie-with-a-tick-detected-at-t+6.5K", kind="property")
        # case 3: a live peer: a message between any armed deadline and its arming (gap < 4.5K) always cancels it
        st3 = st.clone()
        arm, tm = R("armed_at"), R("tm")
        st3.assume(z3.And(tm >= arm, tm < arm + 4.5 * K))
        pm, gm = msg(z3.BoolVal(True), arm + 4.5 * K)
        _ob(eng, st3, gm == NONE, "a-message-before-the-deadline-cancels-it", kind="property")
    return Target("lemma:keepalive-window", "lemma", run, functions=[])


def step_preorder_target():
    """Step_conn is reflexive and transitive (needed by the loop rule for loops whose bodies contain cut points and
    by the chaining of segments): checked from the clause texts themselves over three arbitrary states."""
    from pyvc.contracts import CTX, fresh as _fresh, eval_clause as _ev, oblige as _ob, _parse_expr as _pe
    from pyvc.state import State, HObj

    def run(eng, opts):
        CTX.target = "connection.Step_conn"
        CTX.tags = list(eng.conn_check_tags or ["C05"])
        CTX.timeout_ms = opts.get("timeout_ms")
        CTX.both = opts.get("both", False)
        CTX.input_syms = []
        class _Owner:
            phase_owner = True
        eng.active_contract = _Owner()
        st = State()
        st.ghost_oid = st.alloc(HObj("cell", None, {}))
        eng.push_frame(st, None, "aioesphomeapi.connection", "<lemma>")
        eng.hooks["init_ghost"](eng, st, None)
        selfref = _fresh(eng, st, "inst[APIConnection]", "self")
        st.env.f["self"] = selfref
        for r in cm.REGIONS:
            region(eng, st, r)
        for n_, txt, _t in cm.INV:         # Step_conn is used between states that satisfy Inv_conn
            st.assume(_ev(eng, st, _pe(txt), {"self": selfref}))
        a = st.clone()
        st.labels = {"A": a, "seg": a}
        for n_, txt, _t in cm.STEP:      # reflexive
            _ob(eng, st, _ev(eng, st, _pe(cm.step_text(txt, "A")), {"self": selfref}), f"reflexive/{n_}", kind="auxiliary")
        cm.havoc_world(eng, st, selfref)           # B with Step(A, B)
        st.labels["A"] = a
        cm.havoc_world(eng, st, selfref)           # C with Step(B, C)
        st.labels["A"] = a
        for n_, txt, _t in cm.STEP:      # transitive
            _ob(eng, st, _ev(eng, st, _pe(cm.step_text(txt, "A")), {"self": selfref}), f"transitive/{n_}", kind="auxiliary")
    return Target("lemma:step-is-a-preorder", "lemma", run, functions=[])


def targets_for(eng, names, tags):
    """Install the model, register every connection contract (so callers use contracts, not bodies) and return the
    targets for `names`."""
    cm.install(eng, check_tags=tags)
    register_specs(eng, "specs.conn")
    for n in INLINE:
        eng.inline.add(CONN + "APIConnection." + n)
    eng.inline.add(CONN + "_make_hello_request")
    from pyvc import source
    for qn in source.get_module("aioesphomeapi.core").funcs:
        if qn.endswith(".__init__"):
            eng.inline.add("aioesphomeapi.core." + qn)
    cm.install_async(eng)
    allc = ALL()
    for c in allc.values():
        eng.contracts[c.target] = c
    lemma_ts = register_lemmas(eng, "contracts.conn", ci_lemmas())
    names_ = eng.hooks.setdefault("names", {})
    import aioesphomeapi.connection as C_
    names_["handle_complex_message"] = eng.lift(C_.handle_complex_message, State_())
    out = []
    for n in names:
        if n == "send_messages":
            for k in (0, 1, 2, 3):
                c = send_messages_contract(k)
                c.tags = list(tags)
                out.append(contract_target(c))
            continue
        if n == "_set_connection_state":
            c = set_state_contract()
            c.tags = list(tags)
            out.append(contract_target(c))
            continue
        if n in ("_process_hello_resp", "_process_login_response"):
            c = hello_resp_contract() if n == "_process_hello_resp" else login_resp_contract()
            c.tags = list(tags)
            out.append(contract_target(c))
            continue
        if n == "_connect_hello_login":
            for lg in (False, True):
                c = hello_login_contract(lg)
                c.tags = list(tags)
                out.append(contract_target(c))
            continue
        if n == "lemma:keepalive-window":
            out.append(keepalive_window_target())
            continue
        if n == "lemma:step":
            out.append(step_preorder_target())
            continue
        if n == "lemmas:C11":
            out.extend(lemma_ts)
            continue
        if n == "send_messages_await_response_complex":
            for nt, nm in ((1, 1), (2, 1), (2, 2), (1, 2)):
                c = complex_contract(nt, nm)
                c.tags = list(tags)
                out.append(contract_target(c))
            continue
        if n in ("_add_message_callback_without_remove", "add_message_callback", "_remove_message_callback"):
            for k in (1, 2, 3):
                c = remove_callback_contract(k) if n == "_remove_message_callback" else add_callback_contract(k, n)
                c.tags = list(tags)
                out.append(contract_target(c))
            continue
        c = allc[n]
        c.tags = list(tags)
        from contracts import native_conn
        out.append(contract_target(c, replay=native_conn.REPLAYS.get(n)))
    return out


def arity_dispatch(qual, make):
    """Callee-side contract for the functions proved per arity of `msg_types`: picks the contract of the call's arity."""
    from pyvc.contracts import apply_contract
    c = Contract(CONN + "APIConnection." + qual, self_type="inst[APIConnection]")

    def model(eng, st, fv, args, kwargs):
        mt = kwargs.get("msg_types", args[-1])
        n = len(eng.iter_concrete(mt, st))
        if not 1 <= n <= 3:
            raise Unsupported(f"{qual}: arity {n} of msg_types is not among the proved arities 1..3")
        return apply_contract(eng, make(n), fv, args, kwargs, st)
    c.model = model
    return c


def ALL():
    cs = [cleanup_contract(), report_fatal_error_contract(), send_messages_callee(), process_packet_contract(), ping_handler_contract(),
          time_handler_contract(), disconnect_handler_contract(), force_disconnect_contract(), send_keep_alive_contract(),
          pong_not_received_contract(), hello_resp_contract(), login_resp_contract(), make_connect_request_contract(), wrap_contract(),
          handle_timeout_contract(), handle_complex_message_contract(), set_state_callee(), resolve_host_contract(), socket_connect_contract(), init_contract(),
          init_frame_helper_contract(), hello_login_dispatch(), complex_dispatch(),
          callee_on_record("_process_hello_resp", "HelloResponse", hello_resp_contract, "hello_checked"),
          callee_on_record("_process_login_response", "ConnectResponse", login_resp_contract, "login_checked"), phase_contract("start"), phase_contract("finish"), single_response_contract(), disconnect_contract()]
    cs += [arity_dispatch("_add_message_callback_without_remove", lambda n: add_callback_contract(n)),
           arity_dispatch("add_message_callback", lambda n: add_callback_contract(n, "add_message_callback")),
           arity_dispatch("_remove_message_callback", lambda n: remove_callback_contract(n))]
    return {c.target.split("APIConnection.")[-1] if "APIConnection." in c.target else c.target.split(".")[-1]: c for c in cs}

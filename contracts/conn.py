"""Contracts of the synchronous methods of APIConnection (and the module-level helpers) shared by C05-C12.

Every method is verified as an *entry point*: from any state satisfying Inv_conn (and its requires) it must
re-establish Inv_conn, satisfy Step_conn(entry, exit) and its own postconditions; call-outs to unknown callables
(message handlers, the stop callback) are cut points (contracts/conn_model.py).  Callers see only these contracts.
"""
from pyvc.sidecar import *  # noqa: F401,F403
from contracts.conn_model import *  # noqa: F401,F403
from contracts import conn_model as cm

S = "self.connection_state"
INLINE = ["_set_connection_state", "_set_fatal_exception_if_unset", "_async_cancel_pong_timer", "_set_start_connect_future",
          "_set_finish_connect_future", "send_message", "set_log_name", "_async_schedule_keep_alive"]


def P(tag, name, text):
    """A property clause tagged with the property it states."""
    return Clause_(name, text, "property", [tag])


def Clause_(name, text, kind, tags):
    from pyvc.contracts import Clause
    return Clause(name, text, kind, tags)


def mk(qualname, ensures=(), **kw):
    """ensures: list of Clause | (name, text) ; Inv/Step are added as auxiliary ensures (used by callers) and are
    checked as obligations by the exit hook (with the tags of the running property)."""
    from pyvc.contracts import Clause
    c = conn_contract(qualname, **kw)
    cl = []
    for e in ensures:
        cl.append(e if isinstance(e, Clause) else Clause(e[0], e[1], "auxiliary"))
    c.ensures = cl + [Clause(n, t, "auxiliary") for n, t, _ in inv_step_ensures()]
    c.own_ensures = len(cl)
    if c.modifies is None:
        c.modifies = all_mods()
    return c


CLOSED = f"{S} is CS.CLOSED"


def cleanup_contract():
    W = "enum_of(old(set_val(self._read_exception_futures)))"
    return mk(
        "_cleanup",
        setup=lambda eng, st: st.env.f.__setitem__("k", fresh(eng, st, "int", "k")),
        ensures=[
            P("C05", "closed", CLOSED),
            P("C07", "stop-exactly-when-was-connected",
              f"ghost.stop_calls == old(ghost.stop_calls) + (1 if (old({S}) is not CS.CLOSED and old(self.is_connected) and old(self.on_stop) is not None) else 0)"),
            P("C07", "stop-reason", "implies(ghost.stop_calls > old(ghost.stop_calls), ghost.stop_arg == old(ghost.graceful))"),
            P("C08", "helper-closed", "implies(old(self._frame_helper) is not None, closed(old(self._frame_helper)))"),
            P("C08", "socket-closed", "implies(old(self._socket) is not None, closed(old(self._socket)))"),
            P("C08", "timers-disarmed", "not armed(old(self._ping_timer)) and not armed(old(self._pong_timer))"),
            P("C08", "every-waiter-released", f"implies(old({S}) is not CS.CLOSED and 0 <= k and k < len({W}), fdone({W}[k]))"),
            P("C09", "waiters-see-first-cause",
              f"implies(old({S}) is not CS.CLOSED and 0 <= k and k < len({W}) and not old(fdone({W}[k])), "
              f"has_exc({W}[k]) and typeof_is(fexc({W}[k]), APIConnectionError) and "
              f"implies(old(self._fatal_exception) is not None and typeof_is(old(self._fatal_exception), APIConnectionError), fexc({W}[k]) is old(self._fatal_exception)))"),
            P("C05", "idempotent", f"implies(old({S}) is CS.CLOSED, conn_unchanged())"),
            ("connect-futures-released", "fut_done_or_none(old(self._start_connect_future)) and fut_done_or_none(old(self._finish_connect_future))"),
            ("fatal-unchanged", "self._fatal_exception is old(self._fatal_exception) or old(self._fatal_exception) is None"),
        ],
        loops={"loop#1": dict(
            index="_i",
            invariant=[f"implies(0 <= k and k < _i, fdone({W}[k]))",
                       f"implies(0 <= k and k < _i and not old(fdone({W}[k])), has_exc({W}[k]) and typeof_is(fexc({W}[k]), APIConnectionError) and "
                       f"implies(old(self._fatal_exception) is not None and typeof_is(old(self._fatal_exception), APIConnectionError), fexc({W}[k]) is old(self._fatal_exception)))",
                       f"implies(0 <= k and k < len({W}) and k >= _i, fdone({W}[k]) == old(fdone({W}[k])))"],
            body_hints=f"setiter_distinct({W}, k, _i)",
            modifies=["region:Future.done", "region:Future.exc"])},
        tags=["C05", "C07", "C08", "C09"],
    )


def report_fatal_error_contract():
    return mk(
        "report_fatal_error", params={"err": "exc[Exception]"},
        ensures=[
            P("C08", "closed", CLOSED),
            P("C09", "first-cause-kept", "implies(old(self._fatal_exception) is None, self._fatal_exception is err)"),
            P("C07", "stop-exactly-when-was-connected",
              f"ghost.stop_calls == old(ghost.stop_calls) + (1 if (old({S}) is not CS.CLOSED and old(self.is_connected) and old(self.on_stop) is not None) else 0)"),
            P("C07", "stop-reason", "implies(ghost.stop_calls > old(ghost.stop_calls), ghost.stop_arg == old(ghost.graceful))"),
        ],
        tags=["C07", "C08", "C09"],
    )


def targets_for(eng, names, tags):
    """Install the model, register every connection contract (so callers use contracts, not bodies) and return the
    targets for `names`."""
    cm.install(eng, check_tags=tags)
    register_specs(eng, "specs.conn")
    for n in INLINE:
        eng.inline.add(CONN + "APIConnection." + n)
    allc = ALL()
    for c in allc.values():
        eng.contracts[c.target] = c
    out = []
    for n in names:
        c = allc[n]
        c.tags = list(tags)
        out.append(contract_target(c))
    return out


def ALL():
    cs = [cleanup_contract(), report_fatal_error_contract()]
    return {c.target.split("APIConnection.")[-1] if "APIConnection." in c.target else c.target.split(".")[-1]: c for c in cs}

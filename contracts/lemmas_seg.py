"""Segmentation lemmas for the plaintext framing spec (C01, DESIGN 4 C01 / L3): greedy parsing of a stream does not
depend on where the stream is cut.  Pure-spec lemmas over specs/wire.py, proved by induction (recursive ghost functions
with a decreases clause, each call of a lemma is checked against its contract and then assumed - never its body)."""
from pyvc.sidecar import *  # noqa: F401,F403

M = "contracts.lemmas_seg."


def cat_facts(s: bytes, t: bytes):
    """Structural facts of the sequence theory about a concatenation."""
    pass


def cat_slice(s: bytes, t: bytes, o: int):
    pass


def vscan_prefix(s: bytes, t: bytes):
    """A complete varint at the front of s is the varint at the front of s + t."""
    unfold(vscan(s))
    unfold(vscan(s + t))
    if len(s) > 0:
        cat_facts(s, t)
        if s[0] >= 128:
            vscan_prefix(s[1:], t)


def varacc_prefix(s: bytes, t: bytes, k: int):
    unfold(varacc(s, k))
    unfold(varacc(s + t, k))
    if k > 0:
        varacc_prefix(s, t, k - 1)


def vval_prefix(s: bytes, t: bytes):
    vscan_prefix(s, t)
    vscan_range(s)
    varacc_prefix(s, t, vscan(s) + 1)


def varacc_nonneg(s: bytes, k: int):
    unfold(varacc(s, k))
    if k > 0:
        varacc_nonneg(s, k - 1)


def slice_facts(s: bytes, t: bytes, o: int, n: int):
    cat_slice(s, t, o + n)


def hdr_prefix(a: bytes, b: bytes):
    """A complete frame at the front of a is the frame at the front of a + b, and what follows it is the rest of a, then b."""
    unfold(pf_status(a))
    unfold(pf_status(a + b))
    for x in (a, a + b):
        unfold(pf_o1(x))
        unfold(pf_o2(x))
        unfold(pf_hdr(x))
        unfold(pf_len(x))
        unfold(pf_type(x))
        unfold(pf_payload(x))
        unfold(pf_rest(x))
    unfold(vval(a[0:]))
    cat_slice(a, b, 0)
    vval_prefix(a[0:], b)
    o1 = vlen(a[0:])
    cat_slice(a, b, o1)
    unfold(vval(a[o1:]))
    vval_prefix(a[o1:], b)
    o2 = o1 + vlen(a[o1:])
    cat_slice(a, b, o2)
    unfold(vval(a[o2:]))
    vval_prefix(a[o2:], b)
    h = o2 + vlen(a[o2:])
    vscan_range(a[o1:])
    varacc_nonneg(a[o1:], vscan(a[o1:]) + 1)
    n = vval(a[o1:])
    slice_facts(a, b, h, n)


def msgs_step(a: bytes):
    unfold(pf_msgs(a))
    unfold(pf_tail(a))


def msgs_stop(a: bytes):
    unfold(pf_msgs(a))
    unfold(pf_tail(a))


def seg(a: bytes, b: bytes):
    """Greedy parsing of a + b = the complete frames of a, then greedy parsing of (what a left over) + b."""
    if len(a) == 0:
        assert a + b == b
        msgs_stop(a)
    elif pf_status(a) == 0:
        msgs_step(a)
        hdr_prefix(a, b)
        msgs_step(a + b)
        seg(pf_rest(a), b)
        assert pf_msgs(a + b) == ((pf_type(a), pf_payload(a)),) + (pf_msgs(pf_rest(a)) + pf_msgs(pf_tail(pf_rest(a)) + b))
    else:
        msgs_stop(a)


def stream(chunks: "seq[bytes]", k: int):
    """Segmentation independence: whatever the cuts, k calls of data_received have delivered exactly the complete frames
    of the concatenated stream and retain exactly its partial tail."""
    unfold(cat_chunks(chunks, k))
    unfold(run_view(chunks, k))
    unfold(run_msgs(chunks, k))
    if k > 0:
        stream(chunks, k - 1)
        seg(cat_chunks(chunks, k - 1), chunks[k - 1])
    else:
        unfold(pf_msgs(b""))
        unfold(pf_tail(b""))


def lemma_contracts():
    return [
        Contract(M + "msgs_step", params={"a": "bytes"}, requires=["len(a) > 0", "pf_status(a) == 0"],
                 ensures=["pf_msgs(a) == ((pf_type(a), pf_payload(a)),) + pf_msgs(pf_rest(a))", "pf_tail(a) == pf_tail(pf_rest(a))"], kind="auxiliary", tags=["C01"]),
        Contract(M + "msgs_stop", params={"a": "bytes"}, requires=["len(a) == 0 or pf_status(a) != 0"],
                 ensures=["pf_msgs(a) == ()", "pf_tail(a) == a"], kind="auxiliary", tags=["C01"]),
        Contract(M + "seg", params={"a": "bytes", "b": "bytes"},
                 ensures=["pf_msgs(a + b) == pf_msgs(a) + pf_msgs(pf_tail(a) + b)", "pf_tail(a + b) == pf_tail(pf_tail(a) + b)"],
                 decreases="len(a)", recursive_ok=True, kind="property", tags=["C01"]),
        Contract(M + "stream", params={"chunks": "seq[bytes]", "k": "int"}, requires=["0 <= k", "k <= len(chunks)"],
                 ensures=[("any-segmentation-delivers-the-frames-of-the-stream", "run_msgs(chunks, k) == pf_msgs(cat_chunks(chunks, k))"),
                          ("any-segmentation-retains-the-partial-tail", "run_view(chunks, k) == pf_tail(cat_chunks(chunks, k))")],
                 decreases="k", recursive_ok=True, kind="property", tags=["C01"]),
        Contract(M + "varacc_nonneg", params={"s": "bytes", "k": "int"}, requires=["k <= len(s)"], ensures=["varacc(s, k) >= 0"],
                 decreases="k", recursive_ok=True, kind="auxiliary", tags=["C01"]),
        Contract(M + "slice_facts", params={"s": "bytes", "t": "bytes", "o": "int", "n": "int"}, requires=["0 <= o", "0 <= n", "o + n <= len(s)"],
                 ensures=["(s + t)[o:o + n] == s[o:o + n]", "(s + t)[o + n:] == s[o + n:] + t", "len(s[o + n:]) == len(s) - o - n"], kind="auxiliary", tags=["C01"]),
        Contract(M + "hdr_prefix", params={"a": "bytes", "b": "bytes"}, requires=["len(a) > 0", "pf_status(a) == 0"],
                 ensures=["pf_status(a + b) == 0", "pf_type(a + b) == pf_type(a)", "pf_payload(a + b) == pf_payload(a)",
                          "pf_rest(a + b) == pf_rest(a) + b", "len(pf_rest(a)) < len(a)"], kind="auxiliary", tags=["C01"]),
        Contract(M + "cat_facts", params={"s": "bytes", "t": "bytes"}, requires=["len(s) > 0"],
                 ensures=["(s + t)[0] == s[0]", "(s + t)[1:] == s[1:] + t", "len(s + t) == len(s) + len(t)"], kind="auxiliary", tags=["C01"]),
        Contract(M + "cat_slice", params={"s": "bytes", "t": "bytes", "o": "int"}, requires=["0 <= o", "o <= len(s)"],
                 ensures=["(s + t)[o:] == s[o:] + t"], kind="auxiliary", tags=["C01"]),
        Contract(M + "vscan_prefix", params={"s": "bytes", "t": "bytes"}, requires=["vscan(s) >= 0"],
                 ensures=["vscan(s + t) == vscan(s)"], decreases="len(s)", recursive_ok=True, kind="auxiliary", tags=["C01"]),
        Contract(M + "varacc_prefix", params={"s": "bytes", "t": "bytes", "k": "int"}, requires=["k <= len(s)"],
                 ensures=["varacc(s + t, k) == varacc(s, k)"], decreases="k", recursive_ok=True, kind="auxiliary", tags=["C01"]),
        Contract(M + "vval_prefix", params={"s": "bytes", "t": "bytes"}, requires=["vscan(s) >= 0"],
                 ensures=["vval(s + t) == vval(s)", "vlen(s + t) == vlen(s)", "vlen(s) >= 1", "vlen(s) <= len(s)"], kind="auxiliary", tags=["C01"]),
    ]

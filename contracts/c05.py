"""C05 - connection state only moves forward; closed is final; one connect per object (DESIGN 4, C05)."""
from pyvc.sidecar import *  # noqa: F401,F403
from contracts import conn

PROPERTY = "C05"
LEVEL = "proof"
ASSUMPTIONS = conn.COMMON_ASSUMPTIONS


def targets(eng):
    return conn.targets_for(eng, ["__init__", "lemma:step", "_set_connection_state", "_cleanup", "report_fatal_error", "force_disconnect", "send_messages", "process_packet",
                                  "_handle_disconnect_request_internal", "_async_send_keep_alive", "_async_pong_not_received",
                                  "_connect_resolve_host", "_connect_socket_connect", "_connect_init_frame_helper", "start_connection", "finish_connection", "disconnect",
                                  "send_messages_await_response_complex"], ["C05"])


# built-in mutants of the real source text for the thorough tier's self-check (each must be refuted by a named obligation)
MUTANTS = [("closed-not-final", "aioesphomeapi/connection.py", "            and state is not CONNECTION_STATE_CLOSED\n        ):", "            and state is CONNECTION_STATE_CONNECTED\n        ):")]

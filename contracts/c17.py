"""C17 - one converted callback per subscribed message; camera images reassemble per key (DESIGN 4, C17)."""
from pyvc.sidecar import *  # noqa: F401,F403
from contracts import cb

PROPERTY = "C17"
LEVEL = "proof"
ASSUMPTIONS = ["A-PY, A-TYPES", "A-CALLBACK: user callbacks return to their caller", "A-PROTOBUF", "<Model>.from_pb is an opaque conversion here (its value preservation is C14's subject)"]


def targets(eng):
    return cb.targets_for(eng, ["C17"], ["C17"])

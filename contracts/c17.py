"""C17 - one converted callback per subscribed message; camera images reassemble per key (DESIGN 4, C17)."""
from pyvc.sidecar import *  # noqa: F401,F403
from contracts import cb

PROPERTY = "C17"
LEVEL = "proof"
ASSUMPTIONS = ["A-PY, A-TYPES", "A-CALLBACK: user callbacks return to their caller", "A-PROTOBUF", "<Model>.from_pb is an opaque conversion here (its value preservation is C14's subject)"]


def targets(eng):
    from pyvc.engine import Engine
    out = cb.targets_for(eng, ["C17"], ["C17"])
    # the client-side methods run in their own engine instance (client model of the connection)
    from contracts import client
    e2 = Engine()
    for t in client.targets_for(e2, ["c17"], ["C17"]):
        out.append(_wrap(t, "c17", "C17"))
    return out


def _wrap(t, key, mod):
    def run(eng, opts, name=t.name):
        from pyvc.engine import Engine
        from contracts import client
        e3 = Engine()
        tt = [x for x in client.targets_for(e3, [key], [mod]) if x.name == name][0]
        tt.run(e3, opts)
        eng.obligations.extend(e3.obligations)
        eng.assumptions_used |= e3.assumptions_used
        eng.bounded_used = getattr(eng, "bounded_used", []) + list(getattr(e3, "bounded_used", []))
    return Target(t.name, "contract", run, functions=t.functions)

"""C17 - one converted callback per subscribed message; camera images reassemble per key (DESIGN 4, C17)."""
from pyvc.sidecar import *  # noqa: F401,F403
from contracts import cb

PROPERTY = "C17"
LEVEL = "proof"
ASSUMPTIONS = ["A-PY, A-TYPES", "A-CALLBACK: user callbacks return to their caller", "A-PROTOBUF", "<Model>.from_pb is an opaque conversion here (its value preservation is C14's subject)"]


def model_of_message_obligations():
    """"Carrying the model of that message's type": the state-conversion table pairs each <X>StateResponse with the model class named
    after it (<X>State or <X>EntityState).  Ground obligations over the live table, complete enumeration."""
    import importlib
    from pyvc.obl import Obligation
    MC = importlib.import_module("aioesphomeapi.model_conversions")
    obs = []
    for msg, model in MC.SUBSCRIBE_STATES_RESPONSE_TYPES.items():
        base = msg.__name__.removesuffix("Response")
        want = {base, base.removesuffix("State") + "EntityState"}
        good = model is not None and model.__name__ in want
        obs.append(Obligation(id=f"C17/model_conversions.SUBSCRIBE_STATES_RESPONSE_TYPES/{msg.__name__}/model-is-named-after-the-message", property="C17", kind="property",
                              status="discharged" if good else "refuted", backend="ground-eval", goal=f"{msg.__name__} is converted to {' or '.join(sorted(want))}",
                              function="aioesphomeapi.model_conversions.SUBSCRIBE_STATES_RESPONSE_TYPES",
                              model=None if good else {"message": msg.__name__, "model": getattr(model, "__name__", None)}, witness=f"{msg.__name__}->{getattr(model, '__name__', None)}"))
    return obs


def targets(eng):
    from pyvc.engine import Engine
    out = cb.targets_for(eng, ["C17"], ["C17"])
    out.append(ground_target("ground:state-conversion-table", model_of_message_obligations, functions=["aioesphomeapi.model_conversions.SUBSCRIBE_STATES_RESPONSE_TYPES"]))
    # the client-side methods run in their own engine instance (client model of the connection)
    from contracts import client
    e2 = Engine()
    for t in client.targets_for(e2, ["c17"], ["C17"]):
        out.append(_wrap(t, "c17", "C17"))
    return out


def _wrap(t, key, mod):
    def run(eng, opts, name=t.name):
        from pyvc.engine import Engine
        from contracts import client
        e3 = Engine()
        tt = [x for x in client.targets_for(e3, [key], [mod]) if x.name == name][0]
        tt.run(e3, opts)
        eng.obligations.extend(e3.obligations)
        eng.assumptions_used |= e3.assumptions_used
        eng.bounded_used = getattr(eng, "bounded_used", []) + list(getattr(e3, "bounded_used", []))
    return Target(t.name, "contract", run, functions=t.functions)

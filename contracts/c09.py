"""C09 - operations end in bounded time with a classified error; first cause wins (DESIGN 4, C09)."""
from pyvc.sidecar import *  # noqa: F401,F403
from contracts import conn

PROPERTY = "C09"
LEVEL = "proof"
ASSUMPTIONS = conn.COMMON_ASSUMPTIONS


def targets(eng):
    return conn.targets_for(eng, ["__init__", "_wrap_fatal_connection_exception", "_cleanup", "report_fatal_error", "send_messages", "_set_connection_state",
                                  "_connect_resolve_host", "_connect_socket_connect", "_connect_init_frame_helper", "start_connection", "finish_connection",
                                  "handle_timeout", "handle_complex_message", "lemmas:C11", "send_messages_await_response_complex", "send_message_await_response", "disconnect"], ["C09"])


# built-in mutants of the real source text for the thorough tier's self-check (each must be refuted by a named obligation)
MUTANTS = [('first-cause-overwritten', 'aioesphomeapi/connection.py', '    def _set_fatal_exception_if_unset(self, err: Exception) -> None:\n        """Set the fatal exception if it hasn\'t been set yet."""\n        if self._fatal_exception is None:', '    def _set_fatal_exception_if_unset(self, err: Exception) -> None:\n        """Set the fatal exception if it hasn\'t been set yet."""\n        if True:')]

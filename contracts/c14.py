"""C14 - models mirror the wire schema; conversion is total and value-preserving (DESIGN 4, C14)."""
from pyvc.sidecar import *  # noqa: F401,F403

PROPERTY = "C14"
LEVEL = "proof"
MODEL = "aioesphomeapi.model."
ASSUMPTIONS = [
    "A-PROTO-TEXT: api.proto as parsed by ground/protoparse.py is the oracle for enum numbers/names and message field names",
    "A-LIB(enum): EnumClass(value) returns the member with that value or raises ValueError (members read from the live class)",
    "A-LIB(dataclasses): fields(), generated __init__ and asdict behave as documented",
]
NOT_DECIDED = [
    "BOUNDED (not proved): from_pb value preservation per (message, model) pair, to_dict/from_dict round trip and the 7-significant-digit float rule "
    "are checked natively on generated messages / sampled float32 bit patterns only (contracts/native_model.py)",
]
BOUNDED = [
    {"function": "aioesphomeapi.util.fix_float_single_double_conversion", "engine": "native enumeration vs decimal oracle", "bound": "20000 seeded float32 bit patterns + ~240 boundary patterns"},
    {"function": "aioesphomeapi.model.APIModelBase.from_pb/__post_init__/to_dict/from_dict (per concrete model class)", "engine": "native generated messages", "bound": "12 generated valid messages per (message, model) pair incl. unknown enum numbers, unicode, extreme ints"},
]
EXPLANATION = ("Schema clauses: ground obligations over model.py (AST) vs api.proto text, complete enumeration (ground/c14_schema.py). "
               "Enum converters: the generic APIIntEnum.convert / convert_list bodies are verified by pyvc once per concrete enum class against the wire enum's numbers "
               "(convert_list with a loop invariant over the unbounded input list). from_pb/round-trip/float-rounding are bounded stand-ins (listed under 'bounded', not counted).")


def wire_enum_values():
    """model enum class name -> sorted wire numbers of the paired wire enum (oracle: api.proto text)."""
    import os
    import ground.c14_schema as gs
    from ground.protoparse import parse_proto
    proto = parse_proto(os.path.join(source.REPO, "aioesphomeapi", "api.proto"))
    wire = {e.name: e for e in proto.top_enums}
    import aioesphomeapi.model as M
    out = {}
    for name in sorted(dir(M)):
        k = getattr(M, name)
        if isinstance(k, type) and issubclass(k, M.APIIntEnum) and k is not M.APIIntEnum:
            w = gs.ENUM_PAIRING.get(name, name)
            if w in wire:
                out[name] = sorted({num for _, num in wire[w].values})
    return out


def convert_contract(ename, vals):
    return Contract(
        MODEL + "APIIntEnum.convert", self_type=MODEL + ename, params={"value": "int"}, result=f"opt[enum[{MODEL}{ename}]]", tags=["C14"], label=ename,
        setup=lambda eng, st: st.env.f.__setitem__("W", VTuple([VInt(v) for v in vals])),
        ensures=[("unknown-number-iff-None", "iff(result is None, value not in W)"),
                 ("known-number-to-its-member", "implies(value in W, result is not None and int(result) == value)")],
    )


def convert_list_contract(ename, vals):
    return Contract(
        MODEL + "APIIntEnum.convert_list", self_type=MODEL + ename, params={"value": "seq[int]"}, tags=["C14"], label=ename,
        setup=lambda eng, st: st.env.f.__setitem__("W", VTuple([VInt(v) for v in vals])),
        ensures=[("known-kept-in-order-unknown-dropped", "result == efilter(value, len(value), W)")],
        loops={"loop#1": dict(
            index="_i", types={"ret": f"list[enum[{MODEL}{ename}]]"},
            invariant=["ret == efilter(value, _i, W)"],
            entry_hints="unfold(efilter(value, 0, W))",
            end_hints="unfold(efilter(value, _i, W))")},
    )


def targets(eng):
    setup_common(eng)
    register_specs(eng, "specs.model")
    import ground.c14_schema as g
    ts = [ground_target("ground:schema", lambda: g.obligations(source.REPO, None), functions=["aioesphomeapi.model (enum classes, dataclass fields)", "aioesphomeapi.model_conversions (tables)"])]
    for ename, vals in wire_enum_values().items():
        ts.append(contract_target(convert_contract(ename, vals)))
        ts.append(contract_target(convert_list_contract(ename, vals)))
    import contracts.native_model as nm

    def bounded_float():
        obs, n = nm.float_rule()
        return obs

    def bounded_from_pb():
        obs, n = nm.from_pb_and_roundtrip()
        return obs
    ts.append(ground_target("bounded:float-rule", bounded_float, functions=["aioesphomeapi.util.fix_float_single_double_conversion (bounded)"]))
    ts.append(ground_target("bounded:from_pb-roundtrip", bounded_from_pb, functions=["aioesphomeapi.model.APIModelBase.from_pb/to_dict/from_dict (bounded)"]))
    return ts

"""C14 - models mirror the wire schema; conversion is total and value-preserving (DESIGN 4, C14)."""
from pyvc.sidecar import *  # noqa: F401,F403

PROPERTY = "C14"
LEVEL = "proof"
MODEL = "aioesphomeapi.model."
ASSUMPTIONS = [
    "A-PROTO-TEXT: api.proto as parsed by ground/protoparse.py is the oracle for enum numbers/names and message field names",
    "A-LIB(enum): EnumClass(value) returns the member with that value or raises ValueError (members read from the live class)",
    "A-LIB(dataclasses): fields(), generated __init__ and asdict behave as documented",
]
NOT_DECIDED = [
    "BOUNDED (not proved): the to_dict/from_dict round trip, the numeric meaning of the 7-significant-digit rule (round7 is an uninterpreted function in the "
    "from_pb proofs), fields of message type and the hand-written converters (nested models, split uuids, service maps, BluetoothLEAdvertisement.from_pb) "
    "are checked natively on generated messages / sampled float32 bit patterns only (contracts/native_model.py)",
]
BOUNDED = [
    {"function": "aioesphomeapi.util.fix_float_single_double_conversion", "engine": "native enumeration vs decimal oracle", "bound": "20000 seeded float32 bit patterns + ~240 boundary patterns"},
    {"function": "aioesphomeapi.model.APIModelBase.to_dict/from_dict and nested / re-shaping converters (per concrete model class)", "engine": "native generated messages", "bound": "12 generated valid messages per (message, model) pair incl. unknown enum numbers, unicode, extreme ints"},
]
EXPLANATION = ("Schema clauses: ground obligations over model.py (AST) vs api.proto text, complete enumeration (ground/c14_schema.py). "
               "Enum converters: the generic APIIntEnum.convert / convert_list bodies are verified by pyvc once per concrete enum class against the wire enum's numbers "
               "(convert_list with a loop invariant over the unbounded input list). "
               "from_pb: for each of the (wire message, model class) pairs the real APIModelBase.from_pb and __post_init__ bodies are executed symbolically on an arbitrary "
               "message of that type (field list and converters read from the live dataclass), and one clause per wire field - written from api.proto's field type and the "
               "property's wording - is discharged: scalars and repeated scalars preserved, enum numbers to their member or None / dropped, floats preserved or round7 of the value; "
               "no exception may escape. Round trip, float digits and nested converters are bounded stand-ins (listed under 'bounded', not counted).")


def wire_enum_values():
    """model enum class name -> sorted wire numbers of the paired wire enum (oracle: api.proto text)."""
    import os
    import ground.c14_schema as gs
    from ground.protoparse import parse_proto
    proto = parse_proto(os.path.join(source.REPO, "aioesphomeapi", "api.proto"))
    wire = {e.name: e for e in proto.top_enums}
    import aioesphomeapi.model as M
    out = {}
    for name in sorted(dir(M)):
        k = getattr(M, name)
        if isinstance(k, type) and issubclass(k, M.APIIntEnum) and k is not M.APIIntEnum:
            w = gs.ENUM_PAIRING.get(name, name)
            if w in wire:
                out[name] = sorted({num for _, num in wire[w].values})
    return out


def _wlit(vals):
    return "(" + ", ".join(str(v) for v in vals) + ",)"


def convert_contract(ename, vals):
    W = _wlit(vals)
    return Contract(
        MODEL + "APIIntEnum.convert", self_type=MODEL + ename, params={"value": "int"}, result=f"opt[enum[{MODEL}{ename}]]", tags=["C14"], label=ename,
        ensures=[("unknown-number-iff-None", f"iff(result is None, value not in {W})"),
                 ("known-number-to-its-member", f"implies(value in {W}, result is not None and int(result) == value)")],
    )


def convert_list_contract(ename, vals):
    W = _wlit(vals)
    return Contract(
        MODEL + "APIIntEnum.convert_list", self_type=MODEL + ename, params={"value": "seq[int]"}, result=f"list[enum[{MODEL}{ename}]]", tags=["C14"], label=ename,
        ensures=[("known-kept-in-order-unknown-dropped", f"result == efilter(value, len(value), {W})")],
        loops={"loop#1": dict(
            index="_i", types={"ret": f"list[enum[{MODEL}{ename}]]"},
            invariant=[f"ret == efilter(value, _i, {W})"],
            entry_hints=f"unfold(efilter(value, 0, {W}))",
            end_hints=f"unfold(efilter(value, _i, {W}))")},
    )


SCALARS = {"bool", "string", "bytes", "int32", "int64", "uint32", "uint64", "sint32", "sint64", "fixed32", "fixed64", "sfixed32", "sfixed64"}


def from_pb_pairs():
    """(wire message, model class) pairs, as established (with their evidence) by the schema check ground/c14_schema.py."""
    import re
    import ground.c14_schema as gs
    pairs = set()
    for o in gs.obligations(source.REPO, None):
        m = re.search(r"model\.(\w+)/from=(\w+)/", o.id)
        if m:
            pairs.add((m.group(2), m.group(1)))
    return sorted(pairs)


def from_pb_contract(proto, wm, mc):
    """Postcondition of <Model>.from_pb(<wire message>) written from the property and api.proto's field types, one clause per
    field of the wire message: scalars preserved; enum numbers known to api.proto become the member with that number, unknown ones
    None (dropped from lists); single-precision floats preserved or presented as round7 of the value.  Fields of message type and
    the three hand-written converters (split uuids, service maps) are not claimed here (bounded stand-in only)."""
    import aioesphomeapi.model as M
    import dataclasses
    msg = proto.message(wm)
    K = getattr(M, mc)
    if msg is None or "from_pb" in K.__dict__ or not dataclasses.is_dataclass(K):
        return None, []
    ens, skipped = [], []
    model_fields = {f.name: f for f in dataclasses.fields(K)}
    for f in msg.fields:
        if f.name not in model_fields:
            continue                      # (the schema check reports name mismatches)
        conv = model_fields[f.name].metadata.get("converter")
        special = getattr(conv, "__name__", "") in ("_join_split_uuid", "_convert_homeassistant_service_map", "from_pb") or \
            (getattr(conv, "__name__", "") == "convert_list" and not (isinstance(getattr(conv, "__self__", None), type) and issubclass(conv.__self__, M.APIIntEnum)))
        e = proto.enum(f.type)
        r, d = f"result.{f.name}", f"data.{f.name}"
        if special or (e is None and f.type not in SCALARS and f.type not in ("float", "double")):
            skipped.append(f.name)
            continue
        if e is not None:
            W = "(" + ", ".join(str(n) for n in sorted(set(e.numbers()))) + ",)"
            if f.repeated:
                ens.append(P("C14", f"field:{f.name}/known-enum-numbers-kept-in-order-unknown-dropped", f"{r} == efilter({d}, len({d}), {W})"))
            elif any(isinstance(k, type) and issubclass(k, M.APIIntEnum) and k.__name__ in str(model_fields[f.name].type) for k in vars(M).values()):
                # the model declares the field as an enum: known numbers become the member with that number, unknown ones None
                ens.append(P("C14", f"field:{f.name}/known-enum-number-to-its-member-unknown-to-None",
                             f"iff({r} is None, {d} not in {W}) and implies({d} in {W}, is_enum_member({r}) and int({r}) == {d})"))
            else:
                ens.append(P("C14", f"field:{f.name}/value-preserved", f"{r} == {d}"))
        elif f.type == "float":
            ens.append(P("C14", f"field:{f.name}/float-preserved-or-rounded-to-7-digits", f"{r} == {d} or {r} == round7({d})"))
        else:
            ens.append(P("C14", f"field:{f.name}/value-preserved", f"{r} == {d}"))
    import aioesphomeapi.api_pb2 as pb
    c = Contract(MODEL + "APIModelBase.from_pb", self_type=MODEL + mc, params={"data": f"msg[aioesphomeapi.api_pb2.{wm}]"}, tags=["C14"], label=f"{mc}<-{wm}",
                 ensures=ens or [("total", "True")])
    # as a callee (a nested model built by a converter of the model under proof) from_pb is opaque and assumed total
    c.model = lambda eng_, st, fv, args, kwargs: ok(st, VObj(z3.Const(fresh_name("nested_model"), ObjS), "Any"))
    c.model_on_recursion = True       # every model class shares the one function APIModelBase.from_pb: a nested call is not a recursion of the proof
    return c, skipped


def P(tag, name, text):
    from pyvc.contracts import Clause
    return Clause(name, text, "property", [tag])


round7_f = z3.Function("round7", z3.RealSort(), z3.RealSort())


def install_from_pb(eng, wire):
    """Callee side of from_pb: the enum converters by their verified contracts (picked by the enum class), the float rounding
    by an assumed contract (its numeric meaning is the bounded stand-in's subject)."""
    from pyvc.contracts import apply_contract
    names = eng.hooks.setdefault("names", {})
    names["round7"] = VFunc("builtin", name="round7", impl=lambda e, s, a, k: ok(s, VReal(round7_f(as_real(a[0])))))
    from pyvc.builtins import typeof_f, cls_code
    names["is_enum_member"] = VFunc("builtin", name="is_enum_member", impl=lambda e, s, a, k: ok(s, VBool(isinstance(a[0], VEnum) or (isinstance(a[0], VUnion) and all(isinstance(x, (VEnum, VNoneT)) for _, x in a[0].alts)))))
    names["exact_type"] = VFunc("builtin", name="exact_type", impl=lambda e, s, a, k: ok(s, VBool(typeof_f(a[0].e) == cls_code(a[1].py))))
    eng.contracts["aioesphomeapi.util.fix_float_single_double_conversion"] = Contract(
        "aioesphomeapi.util.fix_float_single_double_conversion", params={"value": "real"}, result="real", ensures=["result == round7(value)"])
    for meth, mk_ in (("convert", convert_contract), ("convert_list", convert_list_contract)):
        d = Contract(MODEL + "APIIntEnum." + meth)

        def model(eng_, st, fv, args, kwargs, mk_=mk_):
            k = args[0]
            ename = k.py.__name__ if isinstance(k, VClass) else None
            if ename in wire:
                return apply_contract(eng_, mk_(ename, wire[ename]), fv, args, kwargs, st)
            return eng_.inline_call(fv, args, kwargs, st)
        d.model = model
        eng.contracts[d.target] = d
    # converters that build nested models or re-shape values (lists of sub-messages, split uuids, service maps): here opaque and assumed
    # total; what they return is the bounded stand-in's subject (contracts/native_model.py)
    import aioesphomeapi.model as M
    import dataclasses as _dc
    opaque = set()
    for k in vars(M).values():
        if isinstance(k, type) and _dc.is_dataclass(k):
            for f in _dc.fields(k):
                conv = f.metadata.get("converter")
                fn = getattr(conv, "__func__", conv)
                if conv is None or conv is list or getattr(conv, "__name__", "") == "fix_float_single_double_conversion":
                    continue
                if isinstance(getattr(conv, "__self__", None), type) and issubclass(conv.__self__, M.APIIntEnum):
                    continue
                if hasattr(fn, "__qualname__") and getattr(fn, "__module__", "") == M.__name__ and fn.__qualname__ != "APIModelBase.from_pb":
                    opaque.add(M.__name__ + "." + fn.__qualname__)
    for tgt in sorted(opaque):
        d = Contract(tgt)
        d.model = lambda eng_, st, fv, args, kwargs: ok(st, VObj(z3.Const(fresh_name("converted"), ObjS), "Any"))
        eng.contracts[tgt] = d
        eng.assumptions_used.add(f"assumed total, result not claimed: {tgt} (nested / re-shaping converter; bounded stand-in only)")


def targets(eng):
    setup_common(eng)
    register_specs(eng, "specs.model")
    import ground.c14_schema as g
    ts = [ground_target("ground:schema", lambda: g.obligations(source.REPO, None), functions=["aioesphomeapi.model (enum classes, dataclass fields)", "aioesphomeapi.model_conversions (tables)"])]
    wire = wire_enum_values()
    for ename, vals in wire.items():
        ts.append(contract_target(convert_contract(ename, vals)))
        ts.append(contract_target(convert_list_contract(ename, vals)))
    install_from_pb(eng, wire)
    import os
    from ground.protoparse import parse_proto
    proto = parse_proto(os.path.join(source.REPO, "aioesphomeapi", "api.proto"))
    for wm, mc in from_pb_pairs():
        c, skipped = from_pb_contract(proto, wm, mc)
        if c is None:
            NOT_DECIDED.append(f"{mc}.from_pb({wm}): hand-written from_pb, bounded stand-in only")
            continue
        if skipped:
            NOT_DECIDED.append(f"{mc}.from_pb({wm}): fields {', '.join(skipped)} (message-typed or hand-written converter) are covered by the bounded stand-in only")
        import contracts.native_model as nm_
        ts.append(contract_target(c, replay=nm_.replay_from_pb(wm, mc)))
    import contracts.native_model as nm

    def bounded_float():
        obs, n = nm.float_rule()
        return obs

    def bounded_from_pb():
        obs, n = nm.from_pb_and_roundtrip()
        return obs
    ts.append(ground_target("bounded:float-rule", bounded_float, functions=["aioesphomeapi.util.fix_float_single_double_conversion (bounded)"]))
    ts.append(ground_target("bounded:from_pb-roundtrip", bounded_from_pb, functions=["aioesphomeapi.model.APIModelBase.from_pb/to_dict/from_dict (bounded)"]))
    return ts

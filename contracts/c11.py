"""C11 - request-response calls get exactly their responses and leave nothing behind (DESIGN 4, C11)."""
from pyvc.sidecar import *  # noqa: F401,F403
from contracts import conn

PROPERTY = "C11"
LEVEL = "proof"
ASSUMPTIONS = conn.COMMON_ASSUMPTIONS + [
    "A-PRED: the accept/stop predicates of a call are pure functions of the message",
    "A-FUTOWN: a future created by a call is completed only by the callables it was handed to (its collector, its own timeout timer, the connection's waiter set); escape analysis by inspection of the function body",
]


def targets(eng):
    return conn.targets_for(eng, ["handle_timeout", "handle_complex_message", "lemmas:C11", "_add_message_callback_without_remove",
                                  "add_message_callback", "_remove_message_callback", "send_messages_await_response_complex"], ["C11"])


# built-in mutants of the real source text for the thorough tier's self-check (each must be refuted by a named obligation)
MUTANTS = [('collector-ignores-completion', 'aioesphomeapi/connection.py', '    if not fut.done():\n        if do_append', '    if True:\n        if do_append')]

"""Encode/decode round trip for the plaintext framing (C01 with C02's encoder spec): the frames api.proto's encoding
puts on the wire (specs.wire.plain_frames, the spec the client's writer is proved against under C02) are exactly the
frames the reader spec (pf_msgs) takes off it.  Pure-spec lemmas, proved by induction like contracts/lemmas_seg.py."""
from pyvc.sidecar import *  # noqa: F401,F403

M = "contracts.lemmas_rt."


def varacc_bound(s: bytes, k: int):
    unfold(varacc(s, k))
    if k > 0:
        varacc_bound(s, k - 1)


def varacc_front(s: bytes, k: int):
    """The value of k groups = first group + 128 * (value of the next k-1 groups)."""
    unfold(varacc(s, k))
    unfold(varacc(s[1:], k - 1))
    if k > 1:
        varacc_front(s, k - 1)
        varacc_bound(s, k - 1)
        varacc_bound(s[1:], k - 2)
        seq_suffix_index(s, 1, k - 1)
    else:
        unfold(varacc(s, 0))
        unfold(varacc(s[1:], 0))


def enc_facts(v: int):
    unfold(enc_varuint(v))
    if v >= 128:
        enc_facts(v // 128)


def varint_rt(v: int, x: bytes):
    """Reading back what enc_varuint wrote, whatever follows it."""
    unfold(enc_varuint(v))
    s = enc_varuint(v) + x
    unfold(vscan(s))
    enc_facts(v)
    if v >= 128:
        r = enc_varuint(v // 128)
        enc_facts(v // 128)
        assert s[1:] == r + x
        varint_rt(v // 128, x)
        varacc_front(s, len(r) + 1)
    else:
        unfold(varacc(s, 1))
        unfold(varacc(s, 0))


def vval_rt(v: int, x: bytes):
    varint_rt(v, x)
    enc_facts(v)
    unfold(vval(enc_varuint(v) + x))
    unfold(vlen(enc_varuint(v) + x))


def one_frame(t: int, p: bytes, x: bytes):
    """One encoded frame followed by anything parses as exactly that frame, leaving exactly what follows."""
    lp = enc_varuint(len(p))
    lt = enc_varuint(t)
    f = b"\x00" + lp + lt + p + x
    enc_facts(len(p))
    enc_facts(t)
    unfold(enc_varuint(0))
    vval_rt(0, lp + lt + p + x)
    assert f == enc_varuint(0) + (lp + lt + p + x)
    assert f[0:] == f
    unfold(pf_status(f))
    unfold(pf_o1(f))
    unfold(pf_o2(f))
    unfold(pf_hdr(f))
    unfold(pf_len(f))
    unfold(pf_type(f))
    unfold(pf_payload(f))
    unfold(pf_rest(f))
    assert f[1:] == lp + (lt + p + x)
    vval_rt(len(p), lt + p + x)
    assert f[1 + len(lp):] == lt + (p + x)
    vval_rt(t, p + x)
    h = 1 + len(lp) + len(lt)
    assert f[h:h + len(p)] == p
    assert f[h + len(p):] == x
    assert pf_o1(f) == 1
    assert pf_len(f) == len(p)
    assert pf_o2(f) == 1 + len(lp)
    cat_drop(b"\x00" + lp, lt + (p + x), pf_o2(f))
    assert pf_type(f) == t
    assert pf_hdr(f) == h
    cat_mid(b"\x00" + lp + lt, p, x, pf_hdr(f), pf_len(f))
    assert len(f) == h + len(p) + len(x)
    assert pf_status(f) == 0
    assert pf_payload(f) == p
    assert pf_rest(f) == x


def frames_rt(P: "seq[tuple[int,bytes]]", k: int):
    """Reading back k encoded frames gives the k frames and leaves nothing."""
    unfold(plain_frames(P, k))
    unfold(types_nonneg(P, k))
    if k > 0:
        frames_rt(P, k - 1)
        fr = b"\x00" + enc_varuint(len(P[k - 1][1])) + enc_varuint(P[k - 1][0]) + P[k - 1][1]
        assert plain_frames(P, k) == plain_frames(P, k - 1) + fr
        seg(plain_frames(P, k - 1), fr)
        one_frame(P[k - 1][0], P[k - 1][1], b"")
        assert fr + b"" == fr
        msgs_step(fr)
        msgs_stop(b"")
    else:
        msgs_stop(b"")


def wire_stream(P: "seq[tuple[int,bytes]]", k: int, chunks: "seq[bytes]", n: int):
    """C01 as stated: the device sends k frames; however the byte stream is cut into n chunks, the n calls of data_received
    have handed over exactly those k (type, payload) pairs, in order, each once, and retain nothing."""
    frames_rt(P, k)
    stream(chunks, n)


def cat_drop(a: bytes, b: bytes, o: int):
    pass


def cat_mid(a: bytes, m: bytes, b: bytes, o: int, n: int):
    pass


def lemma_contracts():
    return [
        Contract(M + "cat_drop", params={"a": "bytes", "b": "bytes", "o": "int"}, requires=["o == len(a)"],
                 ensures=["(a + b)[o:] == b"], kind="auxiliary", tags=["C01"]),
        Contract(M + "cat_mid", params={"a": "bytes", "m": "bytes", "b": "bytes", "o": "int", "n": "int"}, requires=["o == len(a)", "n == len(m)"],
                 ensures=["(a + m + b)[o:o + n] == m", "(a + m + b)[o + n:] == b"], kind="auxiliary", tags=["C01"]),
        Contract(M + "one_frame", params={"t": "int", "p": "bytes", "x": "bytes"}, requires=["t >= 0"],
                 ensures=["pf_status(b'\\x00' + enc_varuint(len(p)) + enc_varuint(t) + p + x) == 0",
                          "pf_type(b'\\x00' + enc_varuint(len(p)) + enc_varuint(t) + p + x) == t",
                          "pf_payload(b'\\x00' + enc_varuint(len(p)) + enc_varuint(t) + p + x) == p",
                          "pf_rest(b'\\x00' + enc_varuint(len(p)) + enc_varuint(t) + p + x) == x"], kind="auxiliary", tags=["C01"]),
        Contract(M + "frames_rt", params={"P": "seq[tuple[int,bytes]]", "k": "int"}, requires=["0 <= k", "k <= len(P)", "types_nonneg(P, k)"],
                 ensures=[("parse-of-encode-is-the-frame-list", "pf_msgs(plain_frames(P, k)) == P[:k]"),
                          ("and-leaves-nothing", "pf_tail(plain_frames(P, k)) == b''")],
                 decreases="k", recursive_ok=True, kind="property", tags=["C01"]),
        Contract(M + "wire_stream", params={"P": "seq[tuple[int,bytes]]", "k": "int", "chunks": "seq[bytes]", "n": "int"},
                 requires=["0 <= k", "k <= len(P)", "types_nonneg(P, k)", "0 <= n", "n <= len(chunks)", "cat_chunks(chunks, n) == plain_frames(P, k)"],
                 ensures=[("every-segmentation-of-the-device's-frames-delivers-exactly-them", "run_msgs(chunks, n) == P[:k]"),
                          ("nothing-is-retained-after-the-last-frame", "run_view(chunks, n) == b''")], kind="property", tags=["C01"]),
        Contract(M + "varacc_bound", params={"s": "bytes", "k": "int"}, requires=["0 <= k", "k <= len(s)"],
                 ensures=["0 <= varacc(s, k)", "varacc(s, k) < pow2(7 * k)"], decreases="k", recursive_ok=True, kind="auxiliary", tags=["C01"]),
        Contract(M + "varacc_front", params={"s": "bytes", "k": "int"}, requires=["1 <= k", "k <= len(s)"],
                 ensures=["varacc(s, k) == s[0] % 128 + 128 * varacc(s[1:], k - 1)"], decreases="k", recursive_ok=True, kind="auxiliary", tags=["C01"]),
        Contract(M + "enc_facts", params={"v": "int"}, requires=["v >= 0"], ensures=["len(enc_varuint(v)) >= 1"],
                 decreases="v", recursive_ok=True, kind="auxiliary", tags=["C01"]),
        Contract(M + "varint_rt", params={"v": "int", "x": "bytes"}, requires=["v >= 0"],
                 ensures=["vscan(enc_varuint(v) + x) == len(enc_varuint(v)) - 1", "varacc(enc_varuint(v) + x, len(enc_varuint(v))) == v"],
                 decreases="v", recursive_ok=True, kind="auxiliary", tags=["C01"]),
        Contract(M + "vval_rt", params={"v": "int", "x": "bytes"}, requires=["v >= 0"],
                 ensures=[("decode-of-encode-is-the-value", "vval(enc_varuint(v) + x) == v"),
                          ("and-consumes-exactly-the-encoding", "vlen(enc_varuint(v) + x) == len(enc_varuint(v))")], kind="property", tags=["C01"]),
    ]

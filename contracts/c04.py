"""C04 - encrypted transport fails closed with a specific error; no forged delivery (DESIGN 4, C04)."""
from pyvc.sidecar import *  # noqa: F401,F403
from contracts import noise

PROPERTY = "C04"
LEVEL = "proof"
ASSUMPTIONS = ["A-CRYPTO: ChaCha20-Poly1305 idealised: decrypt(nonce, c) returns p only if c == enc(key, nonce, p), else raises InvalidTag; real-world forgery resistance is not verified",
               "A-PY, A-TYPES, A-SPECTERM", "component contract (assume/guarantee): the helper sees the connection only through process_packet (records the packet; may call the helper's close(); may raise) and report_fatal_error (records the error; may call close()) - the behaviour proved for APIConnection under C08/C09/C12", "A-LOOP: an exception escaping data_received makes the transport call connection_lost(exc)"]


def targets(eng):
    return noise.targets_for(eng, ["_handle_error", "close", "_handle_error_and_close", "_handle_hello", "_error_on_incorrect_preamble", "_handle_handshake",
                                   "_handle_frame", "_handle_closed", "data_received", "lemmas", "_decode_noise_psk", "_setup_proto", "plain._error_on_incorrect_preamble", "__init__", "connection_lost"], ["C04"])


# built-in mutants of the real source text for the thorough tier's self-check (each must be refuted by a named obligation)
MUTANTS = [('noise-marker-not-checked-when-ready', 'aioesphomeapi/_frame_helper/noise.py', '            if preamble != 0x01:', '            if preamble != 0x01 and self._state != NOISE_STATE_READY:')]

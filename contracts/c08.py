"""C08 - closing a connection releases everything and silences it (DESIGN 4, C08)."""
from pyvc.sidecar import *  # noqa: F401,F403
from contracts import conn

PROPERTY = "C08"
LEVEL = "proof"
ASSUMPTIONS = conn.COMMON_ASSUMPTIONS


def targets(eng):
    from contracts import noise
    from pyvc.engine import Engine
    return _noise_targets() + conn.targets_for(eng, ["__init__", "_cleanup", "report_fatal_error", "send_messages", "process_packet", "force_disconnect", "_async_send_keep_alive",
                                  "_async_pong_not_received", "_handle_disconnect_request_internal", "_connect_socket_connect", "_connect_init_frame_helper",
                                  "start_connection", "finish_connection", "disconnect", "send_messages_await_response_complex"], ["C08"])


def _noise_targets():
    """The frame-helper side of C08 runs in its own engine instance (its model of the connection differs from conn_model's)."""
    from contracts import noise
    from pyvc.engine import Engine
    from pyvc.sidecar import Target
    out = []
    for name in ("close", "_handle_closed", "data_received"):
        def run(eng, opts, name=name):
            e2 = Engine()
            ts = noise.targets_for(e2, [name], ["C08"])
            ts[0].run(e2, opts)
            eng.obligations.extend(e2.obligations)
            eng.assumptions_used |= e2.assumptions_used
        from contracts import native_noise
        out.append(Target("_frame_helper.noise.APINoiseFrameHelper." + name, "contract", run, functions=["aioesphomeapi._frame_helper.noise.APINoiseFrameHelper." + name],
                          bounded=native_noise.bounded_noise_close))
    return out


# built-in mutants of the real source text for the thorough tier's self-check (each must be refuted by a named obligation)
MUTANTS = [('dispatch-after-close', 'aioesphomeapi/connection.py', '        if self.connection_state is CONNECTION_STATE_CLOSED:\n            # Frames that were buffered', '        if False:\n            # Frames that were buffered')]

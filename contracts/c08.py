"""C08 - closing a connection releases everything and silences it (DESIGN 4, C08)."""
from pyvc.sidecar import *  # noqa: F401,F403
from contracts import conn

PROPERTY = "C08"
LEVEL = "proof"
ASSUMPTIONS = conn.COMMON_ASSUMPTIONS


def targets(eng):
    return conn.targets_for(eng, ["_cleanup", "report_fatal_error", "send_messages", "process_packet", "force_disconnect", "_async_send_keep_alive",
                                  "_async_pong_not_received", "_handle_disconnect_request_internal", "_connect_init_frame_helper",
                                  "start_connection", "finish_connection", "disconnect", "send_messages_await_response_complex"], ["C08"])

"""C08 - closing a connection releases everything and silences it (DESIGN 4, C08)."""
from pyvc.sidecar import *  # noqa: F401,F403
from contracts import conn

PROPERTY = "C08"
LEVEL = "proof"
ASSUMPTIONS = []


def targets(eng):
    return conn.targets_for(eng, ["_cleanup", "report_fatal_error", "send_messages", "process_packet", "_handle_ping_request_internal", "_handle_get_time_request_internal", "_handle_disconnect_request_internal", "force_disconnect", "_async_send_keep_alive", "_async_pong_not_received", "_process_hello_resp", "_process_login_response", "_make_connect_request", "_wrap_fatal_connection_exception", "handle_timeout", "handle_complex_message", "_add_message_callback_without_remove", "add_message_callback", "_remove_message_callback"], ["C08"])

"""C08 - closing a connection releases everything and silences it (DESIGN 4, C08)."""
from pyvc.sidecar import *  # noqa: F401,F403
from contracts import conn

PROPERTY = "C08"
LEVEL = "proof"
ASSUMPTIONS = []


def targets(eng):
    return conn.targets_for(eng, ["_cleanup", "report_fatal_error"], ["C08"])

"""Heap/opaque-object model of what an APIConnection touches, object invariant Inv_conn, two-state relation
Step_conn and the cut-point rule (DESIGN 3.6) shared by C05-C12.

Opaque kinds (objects of sort Obj whose state lives in region arrays):
  Loop        time() -> ghost.now ; call_at(when, cb, *args) -> fresh armed Timer ; create_future() -> fresh pending Future
  Timer       cancel() ; regions Timer.armed / Timer.when / Timer.cb / Timer.arg
  Future      done() / set_result / set_exception / cancel ; regions Future.done / Future.exc (exception or `noexc`)
  FrameHelper close() / write_packets(packets, debug) / set_log_name ; attr ready_future ; region FH.closed
  Socket      close() ; region Socket.closed
  Callback    message handler: a call is recorded in ghost.dispatched, then the rest of the world may run (cut point)
  OnStop      the stop callback: recorded in ghost.stop_calls / ghost.stop_arg, then cut point
  Message     a received protobuf message of a symbolic class (typeof)
The handler table is a heap object of kind 'hmap' (class code -> present?, set of Obj).
"""
import z3

from pyvc.sidecar import *  # noqa: F401,F403
from pyvc import heapmodel, smt
from pyvc.builtins import cls_code, typeof_f, sym_isinstance, ok
from pyvc.contracts import eval_clause, oblige, _parse_expr, Contract
from contracts.common_conn import CONN, CONN_FIELDS, conn_specs

sersize_f = z3.Function("serialized_size", BytesS, IntS)     # len() of a SerializeToString() result, as an abstract integer
noexc = z3.Const("noexc", ObjS)                 # Future.exc value of a future without exception
enum_f = z3.Function("enum", ObjSetS, ObjSeqS)  # iteration order of a set (A-SETITER)

# fields that only __init__ (and the two trivial setters) assign: not havocked at cut points (frame-scan obligation)
CONST_FIELDS = ("_params", "_loop", "_keep_alive_interval", "_keep_alive_timeout", "log_name", "_debug_enabled")
MUT_FIELDS = [f for f in CONN_FIELDS if f not in CONST_FIELDS]
REGIONS = {
    "Timer.armed": (BoolS, None), "Timer.when": (RealS, None), "Timer.cb": (ObjS, None), "Timer.arg": (ObjS, None),
    "Future.done": (BoolS, None), "Future.exc": (ObjS, None), "Future.cancelled": (BoolS, None),
    "FH.closed": (BoolS, None), "FH.ready": (ObjS, None), "Socket.closed": (BoolS, None),
}
GHOST_AUX = {"arrivals": "seq[obj]", "narr": "int", "hello_passed": "bool", "hello_checked": "bool", "login_checked": "bool"}
RELY_ONLY = {"S11-only-a-connect-phase-advances-the-state", "S12-only-a-connect-phase-attaches-transport"}      # guaranteed by every function that is not a connect phase; relied on by the phases      # per-call ghost outputs (not part of the connection state)
GHOST = {
    "stop_calls": "int", "stop_arg": "bool", "graceful": "bool", "now": "real",
    "dispatched": "seq[tuple[obj,obj]]", "rx": "bool", "reported": "seq[obj]",
}
# ghost state owned by the connect phases of this object (never changed by anybody else, hence not havocked):
#   in_phase        a connect phase (start_connection / finish_connection) of this object is running
#   ever_connected  the state CONNECTED was reached (set where _set_connection_state(CONNECTED) executes)
#   on_stop_given   a stop callback was passed to the constructor
GHOST_OWNED = {"in_phase": "bool", "ever_connected": "bool", "on_stop_given": "bool"}

S = "self.connection_state"
ST = "aioesphomeapi.connection.ConnectionState"

# ------------------------------------------------------------------------------------------------------------
# Inv_conn : (name, expression over self/ghost, property tags)
# ------------------------------------------------------------------------------------------------------------
INV = [
    # (C07 too: the stop callback is gated on this flag - a flag that no longer means "reached CONNECTED" silences or duplicates it)
    ("I1-connected-flag", f"iff(self.is_connected, {S} is CS.CONNECTED)", ["C05", "C07"]),
    ("I1-handshake-flag", f"iff(self._handshake_complete, {S} is CS.HANDSHAKE_COMPLETE or {S} is CS.CONNECTED)", ["C05"]),
    ("I2-closed-released", f"implies({S} is CS.CLOSED, self._ping_timer is None and self._pong_timer is None)", ["C08"]),
    ("I2-closed-releases-waiters", f"implies({S} is CS.CLOSED, set_empty(self._read_exception_futures) "
                                   "and fut_done_or_none(self._start_connect_future) and fut_done_or_none(self._finish_connect_future))", ["C08"]),
    ("I2-closed-releases-transport", f"implies({S} is CS.CLOSED and not ghost.in_phase, self._frame_helper is None and self._socket is None)", ["C08"]),
    ("I9-phase-ends-when-connected", "implies(ghost.in_phase, not self.is_connected)", ["C05"]),
    ("I10-no-helper-before-the-finish-phase", f"implies(({S} is CS.SOCKET_OPENED or {S} is CS.INITIALIZED) and not ghost.in_phase, self._frame_helper is None)", ["C08"]),
    ("I8-socket-while-open", f"implies({S} is CS.SOCKET_OPENED or {S} is CS.HANDSHAKE_COMPLETE or {S} is CS.CONNECTED, self._socket is not None)", ["C08"]),
    ("I3-stop-at-most-once", f"ghost.stop_calls == 0 or (ghost.stop_calls == 1 and {S} is CS.CLOSED and self.on_stop is None)", ["C07"]),
    ("I3-connected-implies-ever", "implies(self.is_connected, ghost.ever_connected)", ["C07"]),
    ("I3-ever-connected-stays-until-closed", f"implies(ghost.ever_connected and {S} is not CS.CLOSED, {S} is CS.CONNECTED)", ["C07"]),
    ("I3-callback-kept-until-close", f"implies({S} is not CS.CLOSED, iff(ghost.on_stop_given, self.on_stop is not None))", ["C07"]),
    ("I3-stop-exactly-once-iff-ever-connected", f"iff(ghost.stop_calls == 1, ghost.ever_connected and {S} is CS.CLOSED and ghost.on_stop_given)", ["C07"]),
    ("I4-helper-while-handshaken", "implies(self._handshake_complete, self._frame_helper is not None)", ["C09"]),
    ("I4-timers-only-while-handshaken", "implies(self._ping_timer is not None or self._pong_timer is not None, self._handshake_complete)", ["C08"]),
    ("I4-init-has-nothing", f"implies({S} is CS.INITIALIZED, self._socket is None and self._frame_helper is None)", ["C05"]),
    ("I7-attached-helper-is-open", "implies(self._frame_helper is not None, not closed(self._frame_helper))", ["C08"]),
    ("I5-graceful-marker", "iff(ghost.graceful, self._expected_disconnect)", ["C07"]),
    ("I6-keepalive-positive", "self._keep_alive_timeout == self._keep_alive_interval * 4.5", ["C10"]),
]

# Step_conn(old, new): OLD(e) is replaced by old(e,'seg') at cut points and by old(e) in callee contracts
STEP = [
    ("S1-state-monotone", f"rank({S}) >= rank(OLD({S}))", ["C05"]),
    ("S2-closed-final", f"implies(OLD({S}) is CS.CLOSED, {S} is CS.CLOSED)", ["C05"]),
    ("S3-first-fatal-wins", "implies(OLD(self._fatal_exception) is not None, self._fatal_exception is OLD(self._fatal_exception))", ["C09"]),
    ("S4-expected-sticky", "implies(OLD(self._expected_disconnect), self._expected_disconnect)", ["C07"]),
    ("S5-stop-count-grows", "ghost.stop_calls >= OLD(ghost.stop_calls) and implies(OLD(self.on_stop) is None, self.on_stop is None) "
                            "and implies(ghost.stop_calls == OLD(ghost.stop_calls), ghost.stop_arg == OLD(ghost.stop_arg))", ["C07"]),
    ("S13-stop-reports-the-graceful-marker", "implies(ghost.stop_calls > OLD(ghost.stop_calls), implies(OLD(ghost.graceful), ghost.stop_arg) and implies(not ghost.graceful, not ghost.stop_arg))", ["C07"]),
    ("S6-closed-stays-released", f"implies(OLD({S}) is CS.CLOSED, ghost.stop_calls == OLD(ghost.stop_calls))", ["C07"]),
    ("S7-time-monotone", "ghost.now >= OLD(ghost.now)", ["C10"]),
    ("S11-only-a-connect-phase-advances-the-state", f"implies(ghost.in_phase, {S} is OLD({S}) or {S} is CS.CLOSED)", ["C05"]),
    ("S12-only-a-connect-phase-attaches-transport", "implies(OLD(self._frame_helper) is None, self._frame_helper is None) and "
                                                     "implies(OLD(self._socket) is None, self._socket is None)", ["C08"]),
    ("S10-transport-kept-until-close", f"implies({S} is not CS.CLOSED, implies(OLD(self._frame_helper) is not None, self._frame_helper is OLD(self._frame_helper)) "
                                       "and implies(OLD(self._socket) is not None, self._socket is OLD(self._socket)))", ["C08"]),
]


def step_text(txt, label=None):
    import re
    out = []
    i = 0
    while True:
        j = txt.find("OLD(", i)
        if j < 0:
            out.append(txt[i:])
            break
        out.append(txt[i:j])
        depth = 0
        k = j + 3
        while True:
            if txt[k] == "(":
                depth += 1
            elif txt[k] == ")":
                depth -= 1
                if depth == 0:
                    break
            k += 1
        inner = txt[j + 4:k]
        out.append(f"old({inner}, '{label}')" if label else f"old({inner})")
        i = k + 1
    return "".join(out)


def inv_clauses(kind="auxiliary", only=None):
    return [(n, t, kind) for n, t, _ in INV if only is None or n in only]


def step_clauses(kind="auxiliary"):
    return [(n, step_text(t), kind) for n, t, _ in STEP]


def loop_inv_step():
    """Inv and Step(segment start, now) as loop invariants of a loop whose body contains cut points (sound because
    Step is reflexive and transitive - lemma target `step-is-a-preorder`)."""
    return [(n, t) for n, t, _ in INV] + [(n, step_text(t, "seg")) for n, t, _ in STEP] + \
           [("S9-handler-entries-never-removed", "implies(old(has_entry(self, q), 'seg'), has_entry(self, q))")]


def inv_step_ensures(phase_owner=False):
    """What every contracted method of the connection guarantees to its callers: Inv and Step(pre, post)."""
    # the rely-only clauses are not part of the guarantee of a callee that suspends: its entry->exit includes what a running
    # connect phase did meanwhile (synchronous call-outs cannot make a phase progress, so sync callees do guarantee them)
    return [(n, t, "auxiliary") for n, t, _ in INV] + [(n, step_text(t), "auxiliary") for n, t, _ in STEP if not (phase_owner and n in RELY_ONLY)]


def all_mods():
    return [f"self.{f}" for f in MUT_FIELDS] + [f"region:{r}" for r in REGIONS] + [f"ghost.{g}" for g in GHOST if g != "now"]


# ------------------------------------------------------------------------------------------------------------
def install(eng, check_tags=None):
    """check_tags: property ids whose Inv/Step clauses are obligations of the running check (others are assumed
    to be proved by their own property's run and only asserted as auxiliary)."""
    conn_specs(eng)
    import aioesphomeapi.connection as C
    eng.class_specs[C.APIConnection].fields["_message_handlers"] = "hmap"
    eng.class_aliases["CS"] = C.ConnectionState
    eng.conn_check_tags = check_tags
    eng.hooks["before_apply"] = inv_at_call
    for k, v in REGIONS.items():
        eng.regions_decl[k] = v
    declare_ghost(eng, **GHOST, **GHOST_AUX, **GHOST_OWNED)
    names = eng.hooks.setdefault("names", {})
    names["CS"] = VClass(C.ConnectionState)
    import google.protobuf.message as gpm
    eng.exception_universe.extend([gpm.DecodeError, IndexError, KeyError, AttributeError, TypeError, ValueError, OSError, RuntimeError,
                                   ConnectionResetError, TimeoutError, Exception, C.ConnectionInterruptedError])
    import asyncio
    eng.exception_universe.extend([asyncio.InvalidStateError])

    # ---- contract-language helpers -------------------------------------------------------------------
    def bfn(name):
        def deco(f):
            names[name] = VFunc("builtin", name=name, impl=f)
            return f
        return deco

    @bfn("rank")
    def _rank(eng_, st, args, kwargs):
        v = args[0]
        return ok(st, VInt(as_int(v)))          # ConnectionState values are 0..4 in lifecycle order (checked below)

    assert [m.value for m in C.ConnectionState] == [0, 1, 2, 3, 4] and [m.name for m in C.ConnectionState] == \
        ["INITIALIZED", "SOCKET_OPENED", "HANDSHAKE_COMPLETE", "CONNECTED", "CLOSED"]

    def _opt_obj(eng_, st, v, f):
        """Apply f(obj_expr)->Bool under each non-None alternative of an optional opaque value; None -> None_val."""
        if isinstance(v, VNoneT):
            return None
        if isinstance(v, VObj):
            return f(v.e)
        raise Unsupported(f"expected an opaque object, got {v}")

    @bfn("armed")
    def _armed(eng_, st, args, kwargs):
        out = []
        for s, v in eng_.split_union(args[0], st):
            out.append((s, VBool(z3.BoolVal(False)) if isinstance(v, VNoneT) else VBool(rget(eng_, s, "Timer.armed", v.e))))
        return out

    def _timer_attr(region_name, wrap, fresh_of):
        """Attribute of an optional timer in a clause: on the None alternative the value is arbitrary (the clause's own
        `is not None` conjunct decides), never a crash of the checker."""
        def impl(eng_, st, args, kwargs):
            out = []
            for s, v in eng_.split_union(args[0], st):
                out.append((s, fresh_of(s) if isinstance(v, VNoneT) else wrap(rget(eng_, s, region_name, v.e))))
            return out
        return impl
    names["timer_when"] = VFunc("builtin", name="timer_when", impl=_timer_attr("Timer.when", VReal, lambda s: VReal(z3.Real(fresh_name("no_timer_when")))))
    names["timer_cb"] = VFunc("builtin", name="timer_cb", impl=_timer_attr("Timer.cb", lambda e: VObj(e, "Callback"), lambda s: VObj(z3.Const(fresh_name("no_timer_cb"), ObjS), "Callback")))
    names["timer_arg"] = VFunc("builtin", name="timer_arg", impl=_timer_attr("Timer.arg", lambda e: VObj(e, "Future"), lambda s: VObj(z3.Const(fresh_name("no_timer_arg"), ObjS), "Future")))

    @bfn("boxed")
    def _boxed(eng_, st, args, kwargs):
        return ok(st, VObj(box(eng_, st, args[0]), "Callback"))

    @bfn("fdone")
    def _fdone(eng_, st, args, kwargs):
        out = []
        for s, v in eng_.split_union(args[0], st):
            out.append((s, VBool(z3.BoolVal(False)) if isinstance(v, VNoneT) else VBool(rget(eng_, s, "Future.done", v.e))))
        return out

    @bfn("fexc")
    def _fexc(eng_, st, args, kwargs):
        return ok(st, VObj(rget(eng_, st, "Future.exc", args[0].e), "Exception"))

    @bfn("has_exc")
    def _has_exc(eng_, st, args, kwargs):
        return ok(st, VBool(rget(eng_, st, "Future.exc", args[0].e) != noexc))

    @bfn("fut_done_or_none")
    def _fdon(eng_, st, args, kwargs):
        v = args[0]
        alts = v.alts if isinstance(v, VUnion) else [(z3.BoolVal(True), v)]
        return ok(st, VBool(simp(z3.And(*[z3.Implies(g, z3.BoolVal(True) if isinstance(a, VNoneT) else rget(eng_, st, "Future.done", a.e)) for g, a in alts]))))

    @bfn("closed")
    def _closed(eng_, st, args, kwargs):
        def one(a):
            key = {"FrameHelper": "FH.closed", "Socket": "Socket.closed"}[a.cls]
            return rget(eng_, st, key, a.e)
        v = args[0]
        alts = v.alts if isinstance(v, VUnion) else [(z3.BoolVal(True), v)]
        return ok(st, VBool(simp(z3.Or(*[z3.And(g, z3.BoolVal(False) if isinstance(a, VNoneT) else one(a)) for g, a in alts]))))

    @bfn("set_empty")
    def _set_empty(eng_, st, args, kwargs):
        o = st.heap[args[0].oid]
        return ok(st, VBool(o.f["e"] == z3.EmptySet(ObjS)))

    @bfn("set_has")
    def _set_has(eng_, st, args, kwargs):
        o = st.heap[args[0].oid]
        return ok(st, VBool(z3.IsMember(box(eng_, st, args[1]), o.f["e"])))

    @bfn("set_val")
    def _set_val(eng_, st, args, kwargs):
        """Immutable value (z3 set) of a symbolic set object, usable with == between states."""
        o = st.heap[args[0].oid]
        return ok(st, VSetVal(o.f["e"]))

    @bfn("set_add")
    def _set_add(eng_, st, args, kwargs):
        return ok(st, VSetVal(z3.SetAdd(args[0].e, box(eng_, st, args[1]))))

    @bfn("set_del")
    def _set_del(eng_, st, args, kwargs):
        return ok(st, VSetVal(z3.SetDel(args[0].e, box(eng_, st, args[1]))))

    @bfn("enum_of")
    def _enum_of(eng_, st, args, kwargs):
        v = args[0]
        e = v.e if isinstance(v, VSetVal) else st.heap[v.oid].f["e"]
        return ok(st, VSeq(enum_f(e), parse_ty("obj")))

    pred_f = z3.Function("accepts", ObjS, ObjS, BoolS)      # a user predicate applied to a message (A-PRED: pure)

    @bfn("accepts")
    def _accepts(eng_, st, args, kwargs):
        return ok(st, VBool(pred_f(box(eng_, st, args[0]), box(eng_, st, args[1]))))

    def pred_call(eng_, st, fv, args, kwargs):
        eng_.assumptions_used.add("A-PRED: the accept/stop predicates of a request-response call are pure functions of the message")
        return ok(st, VBool(pred_f(box(eng_, st, fv), box(eng_, st, args[0]))))
    eng.callout_models["Pred"] = pred_call

    none_obj = z3.Const("none-obj", ObjS)

    @bfn("pred_or_none")
    def _pred_or_none(eng_, st, args, kwargs):
        """pred_or_none(p, m): p is None (every message qualifies) or p(m)."""
        p = box(eng_, st, args[0])
        return ok(st, VBool(z3.Or(p == none_obj, pred_f(p, box(eng_, st, args[1])))))

    @bfn("handler_registered")
    def _handler_registered(eng_, st, args, kwargs):
        hm = st.heap[st.heap[args[0].oid].f["_message_handlers"].oid]
        k = class_key(eng_, st, args[1])
        return ok(st, VBool(z3.And(z3.Select(hm.f["has"], k), z3.IsMember(box(eng_, st, args[2]), z3.Select(hm.f["sets"], k)))))

    @bfn("is_collector")
    def _is_collector(eng_, st, args, kwargs):
        """is_collector(f, fut, responses, do_append, do_stop): f is partial(handle_complex_message, fut, responses, do_append, do_stop)."""
        f = args[0]
        if isinstance(f, VFunc) and f.kind == "py" and f.closure is not None and len(f.node.args.args) == 1 and len(f.node.body) <= 2:
            # the same collector written as a nested function:  def on_message(m): handle_complex_message(fut, responses, do_append, do_stop, m)
            import ast as _ast
            body = [b for b in f.node.body if not (isinstance(b, _ast.Expr) and isinstance(b.value, _ast.Constant))]      # (docstring)
            call = body[0].value if len(body) == 1 and isinstance(body[0], (_ast.Expr, _ast.Return)) else None
            par = f.node.args.args[0].arg
            if isinstance(call, _ast.Call) and not call.keywords and len(call.args) == 5 and all(isinstance(a, _ast.Name) for a in call.args) \
                    and call.args[4].id == par and isinstance(call.func, _ast.Name):
                def look(name):
                    oid = f.closure
                    while oid is not None:
                        fr = st.heap[oid]
                        if name in fr.f:
                            return fr.f[name]
                        oid = fr.f.get("__parent__")
                    return eng_.lookup_global(name, f.module, st)
                try:
                    callee = look(call.func.id)
                    bound = [look(a.id) for a in call.args[:4]]
                except Unsupported:
                    callee, bound = None, []
                if isinstance(callee, VFunc) and callee.kind == "py" and callee.qualname == "handle_complex_message":
                    f = VFunc("partial", func=callee, args=bound, kwargs={})
        okk = (isinstance(f, VFunc) and f.kind == "partial" and isinstance(f.func, VFunc) and f.func.kind == "py"
               and f.func.qualname == "handle_complex_message" and len(f.args) == 4 and not f.kwargs)
        if not okk:
            return ok(st, VBool(False))
        conj = [box(eng_, st, f.args[0]) == box(eng_, st, args[1]),
                z3.BoolVal(isinstance(f.args[1], VRef) and isinstance(args[2], VRef) and f.args[1].oid == args[2].oid),
                box(eng_, st, f.args[2]) == box(eng_, st, args[3]), box(eng_, st, f.args[3]) == box(eng_, st, args[4])]
        return ok(st, VBool(simp(z3.And(*conj))))

    @bfn("one_of_types")
    def _one_of_types(eng_, st, args, kwargs):
        """one_of_types(m, types): the class of message m is one of the classes in the tuple."""
        m, types = args
        k = class_key(eng_, st, VFunc("typeof", obj=m) if isinstance(m, VObj) else VClass(st.heap[m.oid].cls))
        return ok(st, VBool(simp(z3.Or(*[k == class_key(eng_, st, t) for t in eng_.iter_concrete(types, st)]))))

    @bfn("has_entry")
    def _has_entry(eng_, st, args, kwargs):
        hm = st.heap[st.heap[args[0].oid].f["_message_handlers"].oid]
        return ok(st, VBool(z3.Select(hm.f["has"], class_key(eng_, st, args[1]))))

    @bfn("is_remover")
    def _is_remover(eng_, st, args, kwargs):
        """is_remover(f, conn, cb, types): f is partial(conn._remove_message_callback, cb, types)."""
        f, conn, cb, types = args
        okk = (isinstance(f, VFunc) and f.kind == "partial" and isinstance(f.func, VFunc) and f.func.kind == "bound"
               and getattr(f.func.func, "qualname", "") == "APIConnection._remove_message_callback"
               and isinstance(f.func.selfv, VRef) and f.func.selfv.oid == conn.oid and len(f.args) == 2 and not f.kwargs)
        if not okk:
            return ok(st, VBool(False))
        same_cb = box(eng_, st, f.args[0]) == box(eng_, st, cb)
        a_t, b_t = f.args[1], types
        if not (isinstance(a_t, VTuple) and isinstance(b_t, VTuple) and len(a_t.items) == len(b_t.items)):
            return ok(st, VBool(False))
        same_t = z3.And(*[class_key(eng_, st, x) == class_key(eng_, st, y) for x, y in zip(a_t.items, b_t.items)] or [z3.BoolVal(True)])
        return ok(st, VBool(simp(z3.And(same_cb, same_t))))

    @bfn("setiter_distinct")
    def _setiter_distinct(eng_, st, args, kwargs):
        """Axiom instance of A-SETITER: the enumeration of a set has no duplicates (positions i != j)."""
        sq, i, j = args[0].e, as_int(args[1]), as_int(args[2])
        eng_.assumptions_used.add("A-SETITER: iterating a set visits each member exactly once (order arbitrary): enum(S)")
        st.fact(z3.Implies(z3.And(0 <= i, i < z3.Length(sq), 0 <= j, j < z3.Length(sq), i != j), sq[i] != sq[j]))
        return ok(st, VNone)

    @bfn("handlers_of")
    def _handlers_of(eng_, st, args, kwargs):
        """handlers_of(conn, cls): the set registered for cls (empty when there is no entry)."""
        hm = st.heap[st.heap[args[0].oid].f["_message_handlers"].oid]
        k = class_key(eng_, st, args[1])
        return ok(st, VSetVal(z3.If(z3.Select(hm.f["has"], k), z3.Select(hm.f["sets"], k), z3.EmptySet(ObjS))))

    @bfn("handlers_same_except")
    def _hse(eng_, st, args, kwargs):
        """handlers_same_except(conn, old_conn_handlers_token, classes...): every other key unchanged (whole-view frame)."""
        raise Unsupported("handlers_same_except")

    def over_alts(v, f):
        alts = v.alts if isinstance(v, VUnion) else [(z3.BoolVal(True), v)]
        return simp(z3.Or(*[z3.And(g, z3.BoolVal(False) if isinstance(a, VNoneT) else f(a)) for g, a in alts]))

    @bfn("typeof_is")
    def _typeof_is(eng_, st, args, kwargs):
        c = args[1].py

        def one(a):
            if isinstance(a, VRef):
                k = st.heap[a.oid].cls
                return z3.BoolVal(isinstance(k, type) and issubclass(k, c))
            return sym_isinstance(eng_, a, c)
        return ok(st, VBool(over_alts(args[0], one)))

    @bfn("exact_type")
    def _exact_type(eng_, st, args, kwargs):
        c = args[1].py

        def one(a):
            if isinstance(a, VRef):
                return z3.BoolVal(st.heap[a.oid].cls is c)
            return typeof_f(a.e) == cls_code(c)
        return ok(st, VBool(over_alts(args[0], one)))

    @bfn("cause_of")
    def _cause_of(eng_, st, args, kwargs):
        v = args[0]
        if isinstance(v, VRef):
            return ok(st, st.heap[v.oid].f.get("__cause__", VNone))
        raise Unsupported("cause_of on opaque exception")

    # ---- oracle: message ids from api.proto text (not from the code's tables) -------------------------------
    from ground.protoparse import parse_proto
    import aioesphomeapi.api_pb2 as pb
    import os
    from pyvc import source as _src
    pf = parse_proto(os.path.join(_src.REPO, "aioesphomeapi", "api.proto"))
    ORACLE = sorted((m.id, m.name) for m in pf.messages_with_id())
    ids = [i for i, _ in ORACLE]

    @bfn("defined_id")
    def _defined_id(eng_, st, args, kwargs):
        i = as_int(args[0])
        return ok(st, VBool(simp(z3.Or(*[i == k for k in ids]))))

    @bfn("proto_class")
    def _proto_class(eng_, st, args, kwargs):
        """Class that api.proto assigns to a type number (as a symbolic class value)."""
        i = as_int(args[0])
        code = z3.IntVal(0)
        for k, nm in reversed(ORACLE):
            code = z3.If(i == k, z3.IntVal(cls_code(getattr(pb, nm))), code)
        return ok(st, VFunc("symcls", code=code, name="<class by id>"))

    @bfn("proto_id")
    def _proto_id(eng_, st, args, kwargs):
        c = args[0]
        if isinstance(c, VClass):
            for k, nm in ORACLE:
                if nm == c.py.__name__:
                    return ok(st, VInt(k))
            raise Unsupported(f"{c.py.__name__} has no id in api.proto")
        code = class_key(eng_, st, c)
        e = z3.IntVal(-1)
        for k, nm in reversed(ORACLE):
            e = z3.If(code == cls_code(getattr(pb, nm)), z3.IntVal(k), e)
        return ok(st, VInt(e))

    @bfn("class_of")
    def _class_of(eng_, st, args, kwargs):
        def one(v):
            if isinstance(v, VNoneT):
                return VClass(type(None))
            if isinstance(v, VRef):
                return VClass(st.heap[v.oid].cls)
            return VFunc("typeof", obj=v)
        v = args[0]
        if isinstance(v, VUnion):
            return ok(st, VUnion([(g, one(a)) for g, a in v.alts]))
        return ok(st, one(v))

    @bfn("same_class")
    def _same_class(eng_, st, args, kwargs):
        return ok(st, VBool(class_key(eng_, st, args[0]) == class_key(eng_, st, args[1])))

    for nm in [n for _, n in ORACLE]:
        cls_code(getattr(pb, nm))

    # ---- write log (per path, concrete) ---------------------------------------------------------------
    def names_dynamic(name, st):
        if name == "writes":
            return VTuple([VTuple([VTuple([i, m]) for i, m in ev[1]]) for ev in st.events if ev[0] == "write"])
        if name == "n_writes":
            return VInt(sum(1 for ev in st.events if ev[0] == "write"))
        if name == "n_timers_armed_here":
            # timers created on this path that are still armed
            ts = [ev[1] for ev in st.events if ev[0] == "call_at"]
            from pyvc.heapmodel import rget as _rg
            e = z3.IntVal(0)
            for t in ts:
                e = e + z3.If(_rg(eng, st, "Timer.armed", t), 1, 0)
            return VInt(simp(e))
        if name == "n_resolves":
            return VInt(sum(1 for ev in st.events if ev[0] == "callee" and ev[1] == "_connect_resolve_host"))
        if name == "n_socket_connects":
            return VInt(sum(1 for ev in st.events if ev[0] == "callee" and ev[1] == "_connect_socket_connect"))
        if name == "msg_decoded":
            # process_packet got as far as building the message object for this type number
            return VBool(any("msg" in st.heap[oid].f for oid in st.frames if oid in st.heap))
        if name == "opened_socket":
            return VBool(any(ev[0] == "new_socket" for ev in st.events))
        if name == "decode_failed":
            return VBool(any(ev[0] == "decode_failed" for ev in st.events))
        if name == "write_before_close":
            # every write of this path went to a helper that was not yet closed, and before the stop callback ran
            conj = []
            seen_stop = False
            for ev in st.events:
                if ev[0] == "on_stop":
                    seen_stop = True
                if ev[0] == "write":
                    conj.append(z3.BoolVal(False) if seen_stop else z3.Not(ev[2]))
            return VBool(simp(z3.And(*conj)) if conj else True)
        if name == "cancelled_here":
            return VBool(any(ev[0] == "cancelled" for ev in st.events))
        if name == "passed_loop":
            # the dispatch loop was entered, or (when it lives in a helper / was unrolled) a subscriber has already been called
            return VBool(any(t.startswith("loop#") or ".loop#" in t for t in st.trace) or any(ev[0] == "cut" and ev[1] == "handler-call" for ev in st.events))
        if name == "n_cuts":
            return VInt(sum(1 for ev in st.events if ev[0] == "cut"))
        return None
    eng.hooks["names_dynamic"] = names_dynamic

    def sf_conn_unchanged(eng_, n, st):
        """conn_unchanged(): no field of the connection, no region, no handler entry and no ghost variable differs from entry."""
        old = st.old
        selfref = find_conn(st)
        o, oo = st.heap[selfref.oid], old.heap[selfref.oid]
        conj = []
        for f in MUT_FIELDS:
            a, b = o.f[f], oo.f[f]
            if f == "_message_handlers":
                ha, hb = st.heap[a.oid], old.heap[b.oid]
                conj += [ha.f["has"] == hb.f["has"], ha.f["sets"] == hb.f["sets"]]
            elif f == "_read_exception_futures":
                conj.append(st.heap[a.oid].f["e"] == old.heap[b.oid].f["e"])
            else:
                conj.append(same_value(a, b))
        for r in REGIONS:
            if r in st.regions or r in old.regions:
                ra = st.regions.get(r)
                rb = old.regions.get(r)
                if ra is None or rb is None:
                    if ra is not rb:
                        conj.append(z3.BoolVal(False))     # a region first touched after entry: it was written
                elif not ra.eq(rb):
                    conj.append(ra == rb)
        g, og = st.heap[st.ghost_oid], old.heap[old.ghost_oid]
        for k in GHOST:
            a, b = g.f[k], og.f[k]
            conj.append(same_value(a, b) if not isinstance(a, VSeq) else a.e == b.e)
        return [(st, VBool(simp(z3.And(*conj))))]
    eng.builtin_mod.SPECIAL_FORMS["conn_unchanged"] = sf_conn_unchanged

    # wall clock
    import time as _time
    wall = z3.Real("wallclock")

    def b_time(eng_, st, args, kwargs):
        st.fact(z3.And(wall >= 0, wall < 2 ** 32))      # A-CLOCK: the wall clock fits the fixed32 field (until 2106)
        return ok(st, VReal(wall))
    eng.builtins[id(_time.time)] = b_time
    names["wallclock"] = VReal(wall)

    import aioesphomeapi.model as M_

    def b_types_to_names(eng_, st, args, kwargs):
        eng_.assumptions_used.add("A-FSTRING")
        return ok(st, VStr(z3.Const(fresh_name("names"), StrS)))       # text of an error message only
    eng.builtins[id(M_.message_types_to_names)] = b_types_to_names

    def call_typeof(eng_, st, fv, args, kwargs):
        """type(x)(...) for an opaque exception x: a new exception object of exactly that class."""
        e = z3.Const(fresh_name("exc"), ObjS)
        st.assume(typeof_f(e) == typeof_f(fv.obj.e))
        st.assume(z3.Not(heapmodel.is_old_f(e)))
        return ok(st, VObj(e, "Exception"))
    eng.func_kinds["typeof"] = call_typeof

    # ---- Loop / Timer / Future -----------------------------------------------------------------------
    def loop_time(eng_, st, recv, args, kwargs):
        return ok(st, st.heap[st.ghost_oid].f["now"])

    objid_f = heapmodel.objid_f
    _ids = [0]

    def new_obj(st, base, kind):
        """A newly allocated object: different from every object that existed at entry and from every other new one."""
        e = z3.Const(fresh_name(base), ObjS)
        _ids[0] += 1
        st.fact(z3.And(z3.Not(heapmodel.is_old_f(e)), objid_f(e) == _ids[0], e != z3.Const("none-obj", ObjS)))
        return e
    eng.new_obj = new_obj

    def loop_call_later(eng_, st, recv, args, kwargs):
        """loop.call_later(delay, cb, *args) == loop.call_at(loop.time() + delay, cb, *args)  (asyncio documentation)"""
        now = st.heap[st.ghost_oid].f["now"]
        return loop_call_at(eng_, st, recv, [VReal(as_real(now) + as_real(args[0]))] + list(args[1:]), kwargs)

    def loop_call_at(eng_, st, recv, args, kwargs):
        when, cb = args[0], args[1]
        t = new_obj(st, "timer", "Timer")
        rset(eng_, st, "Timer.armed", t, z3.BoolVal(True))
        rset(eng_, st, "Timer.when", t, as_real(when))
        rset(eng_, st, "Timer.cb", t, box(eng_, st, cb))
        if len(args) > 2:
            rset(eng_, st, "Timer.arg", t, box(eng_, st, args[2]))
        st.events = st.events + [("call_at", t)]
        return ok(st, VObj(t, "Timer"))

    def loop_create_future(eng_, st, recv, args, kwargs):
        f = new_obj(st, "fut", "Future")
        rset(eng_, st, "Future.done", f, z3.BoolVal(False))
        rset(eng_, st, "Future.exc", f, noexc)
        return ok(st, VObj(f, "Future"))

    def timer_cancel(eng_, st, recv, args, kwargs):
        rset(eng_, st, "Timer.armed", recv.e, z3.BoolVal(False))
        return ok(st, VNone)

    def fut_done(eng_, st, recv, args, kwargs):
        return ok(st, VBool(rget(eng_, st, "Future.done", recv.e)))

    def fut_set(exc):
        def impl(eng_, st, recv, args, kwargs):
            out = []
            for s, tv in eng_.fork_bool(rget(eng_, st, "Future.done", recv.e), st, "fut.done"):
                if tv:
                    out.append((s, eng_.raise_py(s, asyncio.InvalidStateError, "invalid state")))
                else:
                    rset(eng_, s, "Future.done", recv.e, z3.BoolVal(True))
                    bx = box(eng_, s, args[0]) if exc else noexc
                    if exc:
                        s.fact(bx != noexc)
                        if isinstance(args[0], VClass):      # set_exception(SomeError): awaiting raises an instance of that class
                            s.fact(typeof_f(bx) == cls_code(args[0].py))          # `noexc` is the marker "no exception", not an exception object
                    rset(eng_, s, "Future.exc", recv.e, bx)
                    out.append((s, VNone))
            return out
        return impl

    eng.obj_methods[("Loop", "time")] = loop_time
    eng.obj_methods[("Loop", "call_at")] = loop_call_at
    eng.obj_methods[("Loop", "call_later")] = loop_call_later
    eng.obj_methods[("Loop", "create_future")] = loop_create_future
    eng.obj_methods[("Timer", "cancel")] = timer_cancel
    def fut_cancelled(eng_, st, recv, args, kwargs):
        # a cancelled future is done (asyncio): the two regions are tied together where `cancelled` is read
        c_ = rget(eng_, st, "Future.cancelled", recv.e)
        st.fact(z3.Implies(c_, rget(eng_, st, "Future.done", recv.e)))
        return ok(st, VBool(c_))

    def fut_cancel(eng_, st, recv, args, kwargs):
        d = rget(eng_, st, "Future.done", recv.e)
        rset(eng_, st, "Future.cancelled", recv.e, z3.Or(rget(eng_, st, "Future.cancelled", recv.e), z3.Not(d)))
        rset(eng_, st, "Future.done", recv.e, z3.BoolVal(True))
        return ok(st, VBool(z3.Not(d)))
    eng.obj_methods[("Future", "cancelled")] = fut_cancelled
    eng.obj_methods[("Future", "cancel")] = fut_cancel
    eng.obj_methods[("Future", "done")] = fut_done
    eng.obj_methods[("Future", "set_result")] = fut_set(False)
    eng.obj_methods[("Future", "set_exception")] = fut_set(True)

    # ---- FrameHelper / Socket as seen by the connection ------------------------------------------------
    def fh_close(eng_, st, recv, args, kwargs):
        rset(eng_, st, "FH.closed", recv.e, z3.BoolVal(True))
        return ok(st, VNone)

    def fh_write_packets(eng_, st, recv, args, kwargs):
        pk = eng_.iter_concrete(args[0], st)
        batch = []
        for p in pk:
            tid, data = p.items
            snap = None
            for ev in st.events:
                if ev[0] == "ser" and ev[1].eq(data.e):
                    snap = ev[2]
            if snap is None:
                raise Unsupported("payload handed to write_packets is not the serialisation of a message")
            batch.append((tid, snap))
        tags_ = getattr(eng_, "conn_check_tags", None)
        if tags_ is not None and "C02" in tags_:
            # (C02, Noise framing) the 16-bit length fields of a Noise frame must be able to carry the real lengths; the helper may be a
            # Noise helper, so the obligation is stated for every batch handed to the helper
            # (payload sizes are abstract integers here: the solver must not be asked to build a 64 KiB sequence as counter-model)
            fit = [z3.And(as_int(p.items[0]) >= 0, as_int(p.items[0]) < 65536, sersize_f(p.items[1].e) >= 0, sersize_f(p.items[1].e) + 20 < 65536) for p in pk]
            oblige(eng_, st, simp(z3.And(*fit)) if fit else z3.BoolVal(True), "noise-frame-fields-fit-16-bits", kind="property", tags=["C02"])
        out = []
        for cls in (OSError, RuntimeError, ConnectionResetError):
            s2 = st.clone()
            s2.note(f"write!{cls.__name__}")
            out.append((s2, Raised(eng_.make_exc(s2, cls, []))))
        st.events = st.events + [("write", batch, rget(eng_, st, "FH.closed", recv.e))]
        return [(st, VNone)] + (out if eng_.hooks.get("writer_may_fail", True) else [])

    def sock_close(eng_, st, recv, args, kwargs):
        rset(eng_, st, "Socket.closed", recv.e, z3.BoolVal(True))
        return ok(st, VNone)

    eng.obj_methods[("FrameHelper", "close")] = fh_close
    eng.obj_methods[("FrameHelper", "write_packets")] = fh_write_packets
    eng.obj_methods[("FrameHelper", "set_log_name")] = lambda e, s, r, a, k: ok(s, VNone)
    eng.obj_methods[("Socket", "close")] = sock_close
    recv_name_f = z3.Function("exc_received_name", ObjS, StrS)
    eng.obj_attrs[("Exception", "received_name")] = lambda e, s, v: VStr(recv_name_f(v.e))
    eng.obj_attrs[("FrameHelper", "ready_future")] = lambda e, s, v: VObj(rget(e, s, "FH.ready", v.e), "Future")

    # ---- messages ---------------------------------------------------------------------------------------
    prev_inst_getattr = eng.hooks.get("inst_getattr")

    def inst_getattr(eng_, st, ref, o, name):
        if o.kind == "msg" and name == "SerializeToString":
            def ser(eng2, st2, recv, args, kwargs):
                b = fresh(eng2, st2, "bytes", "ser")
                from contracts.common_conn import snapshot_msg
                st2.events = st2.events + [("ser", b.e, snapshot_msg(eng2, st2, recv))]
                return ok(st2, b)
            return VFunc("bmeth", name="SerializeToString", recv=ref, impl=ser)
        return prev_inst_getattr(eng_, st, ref, o, name) if prev_inst_getattr else None
    eng.hooks["inst_getattr"] = inst_getattr

    def msg_merge(eng_, st, recv, args, kwargs):
        s_bad = st.clone()
        s_bad.note("MergeFromString!DecodeError")
        s_bad.events = s_bad.events + [("decode_failed",)]
        return [(st, VNone), (s_bad, Raised(eng_.make_exc(s_bad, gpm.DecodeError, [])))]

    def msg_ser(eng_, st, recv, args, kwargs):
        b = fresh(eng_, st, "bytes", "ser")
        st.events = st.events + [("ser", b.e, recv)]
        return ok(st, b)

    msg_field_fns = {}

    def msg_field(cls, name):
        from pyvc.heapmodel import _fd_type
        fd = cls.DESCRIPTOR.fields_by_name[name]
        t = _fd_type(fd)
        srt = {"int": IntS, "bool": BoolS, "real": RealS, "str": StrS, "bytes": BytesS}.get(t)
        if srt is None or heapmodel.is_repeated(fd):
            raise Unsupported(f"field {cls.__name__}.{name} of an opaque message")
        key = (cls.__name__, name)
        if key not in msg_field_fns:
            msg_field_fns[key] = (z3.Function(f"field_{cls.__name__}_{name}", ObjS, srt), t)
        return msg_field_fns[key]

    def msg_field_value(st, cls, name, e):
        f, t = msg_field(cls, name)
        return {"int": VInt, "bool": VBool, "real": VReal, "str": VStr, "bytes": VBytes}[t](f(e))
    eng.msg_field_value = msg_field_value

    def as_record(eng_, st, v, cls):
        """A received opaque message known to be of class cls, as a record of its (uninterpreted) field values."""
        o = HObj("msg", cls, {})
        for fd in cls.DESCRIPTOR.fields:
            try:
                o.f[fd.name] = msg_field_value(st, cls, fd.name, v.e)
            except Unsupported:
                o.f[fd.name] = VObj(z3.Const(fresh_name(fd.name), ObjS), "SubMessage")
        o.f["__box__"] = v.e
        return VRef(st.alloc(o))
    eng.as_record = as_record

    prev_obj_getattr = eng.hooks["obj_getattr"]

    def obj_getattr(eng_, st, v, name):
        r = prev_obj_getattr(eng_, st, v, name)
        if r is not None or v.cls != "Message":
            return r
        import aioesphomeapi.api_pb2 as pb2
        cands = [getattr(pb2, nm) for _, nm in ORACLE if name in getattr(pb2, nm).DESCRIPTOR.fields_by_name]
        feas = [c for c in cands if smt.feasible(st.pc, typeof_f(v.e) == cls_code(c))]
        other = smt.feasible(st.pc + [typeof_f(v.e) != cls_code(c) for c in cands]) if cands else True
        if len(feas) == 1 and not other:
            return msg_field_value(st, feas[0], name, v.e)
        raise MessageAttrFork(v, name, feas, other)
    eng.hooks["obj_getattr"] = obj_getattr

    eng.obj_methods[("Message", "MergeFromString")] = msg_merge
    eng.obj_methods[("Message", "SerializeToString")] = msg_ser

    # symbolic class from a positional table lookup
    def pre_index(eng_, st, base, idx):
        if isinstance(base, VRef) and st.heap[base.oid].kind == "dict" and isinstance(idx, VFunc) and idx.kind in ("typeof", "symcls"):
            items = list(st.heap[base.oid].f["items"].values())
            if items and all(isinstance(k, VClass) for k, _ in items):
                code = class_key(eng_, st, idx)
                known = simp(z3.Or(*[code == cls_code(k.py) for k, _ in items]))
                out = []
                for s2, tv in eng_.fork_bool(known, st, "dict[class]"):
                    if not tv:
                        out.append((s2, eng_.raise_py(s2, KeyError, "class")))
                        continue
                    e = as_int(items[-1][1])
                    for k, v in reversed(items[:-1]):
                        e = z3.If(code == cls_code(k.py), as_int(v), e)
                    out.append((s2, VInt(e)))
                return out
        if not (isinstance(base, VTuple) and len(base.items) > 16 and all(isinstance(x, VClass) for x in base.items)):
            return None
        i = simp(as_int(idx))
        if z3.is_int_value(i):
            return None
        n = len(base.items)
        out = []
        for s2, tv in eng_.fork_bool(z3.And(i >= -n, i < n), st, "index"):
            if not tv:
                out.append((s2, eng_.raise_py(s2, IndexError, "tuple index out of range")))
                continue
            j = z3.If(i >= 0, i, i + n)
            code = z3.IntVal(cls_code(base.items[-1].py))
            for k in range(n - 2, -1, -1):
                code = z3.If(j == k, z3.IntVal(cls_code(base.items[k].py)), code)
            out.append((s2, VFunc("symcls", code=code, name="<message class>")))
        return out
    eng.hooks["pre_index"] = pre_index

    def call_symcls(eng_, st, fv, args, kwargs):
        m = z3.Const(fresh_name("msg"), ObjS)
        st.assume(typeof_f(m) == fv.code)
        return ok(st, VObj(m, "Message"))
    eng.func_kinds["symcls"] = call_symcls

    # ---- handler table -------------------------------------------------------------------------------------
    prev_fresh = eng.hooks.get("fresh")

    def h_fresh(eng_, st, ty, name):
        if ty.head == "cls":
            return VFunc("symcls", code=z3.Int(fresh_name(name + ".code")), name=name)
        if ty.head == "hmap":
            return VRef(st.alloc(HObj("hmap", None, {"has": z3.Const(fresh_name(name + ".has"), z3.ArraySort(IntS, BoolS)),
                                                      "sets": z3.Const(fresh_name(name + ".sets"), z3.ArraySort(IntS, ObjSetS))})))
        return prev_fresh(eng_, st, ty, name)
    eng.hooks["fresh"] = h_fresh

    def hview(st, hmref, key):
        return VRef(st.alloc(HObj("hview", None, {"map": hmref.oid, "key": key})))

    def hmap_get(eng_, st, recv, args, kwargs):
        hm = st.heap[recv.oid]
        k = class_key(eng_, st, args[0])
        out = []
        for s, tv in eng_.fork_bool(z3.Select(hm.f["has"], k), st, "handlers.has"):
            out.append((s, hview(s, recv, k) if tv else (args[1] if len(args) > 1 else VNone)))
        return out

    def hview_add(eng_, st, recv, args, kwargs):
        v = st.heap[recv.oid]
        hm = st.heap[v.f["map"]]
        hm.f["sets"] = z3.Store(hm.f["sets"], v.f["key"], z3.SetAdd(z3.Select(hm.f["sets"], v.f["key"]), box(eng_, st, args[0])))
        return ok(st, VNone)

    def hview_discard(eng_, st, recv, args, kwargs):
        v = st.heap[recv.oid]
        hm = st.heap[v.f["map"]]
        hm.f["sets"] = z3.Store(hm.f["sets"], v.f["key"], z3.SetDel(z3.Select(hm.f["sets"], v.f["key"]), box(eng_, st, args[0])))
        return ok(st, VNone)

    def hview_remove(eng_, st, recv, args, kwargs):
        v = st.heap[recv.oid]
        hm = st.heap[v.f["map"]]
        x = box(eng_, st, args[0])
        out = []
        for s, tv in eng_.fork_bool(z3.IsMember(x, z3.Select(hm.f["sets"], v.f["key"])), st, "set.remove"):
            if tv:
                h2 = s.heap[v.f["map"]]
                h2.f["sets"] = z3.Store(h2.f["sets"], v.f["key"], z3.SetDel(z3.Select(h2.f["sets"], v.f["key"]), x))
                out.append((s, VNone))
            else:
                out.append((s, eng_.raise_py(s, KeyError, "set.remove(x): x not in set")))
        return out

    def hview_copy(eng_, st, recv, args, kwargs):
        v = st.heap[recv.oid]
        hm = st.heap[v.f["map"]]
        return ok(st, VRef(st.alloc(HObj("sset", None, {"e": z3.Select(hm.f["sets"], v.f["key"]), "kind": "Callback"}))))

    def ref_getattr(eng_, st, ref, o, name):
        if o.kind == "hmap" and name == "get":
            return VFunc("bmeth", name="dict.get", recv=ref, impl=hmap_get)
        if o.kind == "hview":
            impl = {"add": hview_add, "discard": hview_discard, "copy": hview_copy, "remove": hview_remove}.get(name)
            if impl is not None:
                return VFunc("bmeth", name="set." + name, recv=ref, impl=impl)
        return None
    eng.hooks["ref_getattr"] = ref_getattr

    def h_index(eng_, st, base, idx):
        o = st.heap.get(base.oid) if isinstance(base, VRef) else None
        if o is None or o.kind != "hmap":
            return None
        k = class_key(eng_, st, idx)
        out = []
        for s, tv in eng_.fork_bool(z3.Select(o.f["has"], k), st, "handlers[k]"):
            out.append((s, hview(s, base, k) if tv else eng_.raise_py(s, KeyError, "message type")))
        return out
    eng.hooks["index"] = h_index

    def h_setitem(eng_, st, base, idx, v):
        o = st.heap.get(base.oid) if isinstance(base, VRef) else None
        if o is None or o.kind != "hmap":
            return None
        k = class_key(eng_, st, idx)
        vo = st.heap[v.oid]
        if vo.kind == "hview":
            # the very set object that already serves another message type (or this one) is stored again: the two types would
            # share their subscribers from now on (C12: delivered to the subscribers registered *for that type*)
            tags = getattr(eng_, "conn_check_tags", None)
            mine = [t for t in ["C12"] if tags is None or t in tags]
            oblige(eng_, st, z3.BoolVal(False), "a-handler-set-belongs-to-one-message-type", kind="property" if mine else "auxiliary", tags=mine or None)
            vo = HObj("sset", None, {"e": z3.Select(st.heap[vo.f["map"]].f["sets"], vo.f["key"]), "kind": "Callback"})
        if vo.kind == "cset":
            e = z3.EmptySet(ObjS)
            for x in vo.f["items"]:
                e = z3.SetAdd(e, box(eng_, st, x))
        elif vo.kind == "sset":
            e = vo.f["e"]
        else:
            raise Unsupported("handler table value is not a set")
        # views of the replaced slot keep denoting the old set object: detach them
        for oid, ho in list(st.heap.items()):
            if ho.kind == "hview" and ho.f["map"] == base.oid:
                if z3.eq(simp(ho.f["key"]), simp(k)):
                    st.heap[oid] = HObj("sset", None, {"e": z3.Select(o.f["sets"], k), "kind": "Callback"})
                elif smt.feasible(st.pc + [ho.f["key"] == k]):
                    raise Unsupported("handler-table slot replaced while a view of a possibly equal key is live")
        o.f["has"] = z3.Store(o.f["has"], k, z3.BoolVal(True))
        o.f["sets"] = z3.Store(o.f["sets"], k, e)
        # from now on the stored object *is* that slot of the table: later operations through any other reference to it act on the slot
        st.heap[v.oid] = HObj("hview", None, {"map": base.oid, "key": k})
        return ok(st, None)
    eng.hooks["setitem"] = h_setitem
    prev_contains = eng.hooks.get("contains")

    def h_contains(eng_, st, container, item):
        o = st.heap.get(container.oid) if isinstance(container, VRef) else None
        if o is not None and o.kind == "hmap":
            return z3.Select(o.f["has"], class_key(eng_, st, item))          # `cls in self._message_handlers`
        if o is not None and o.kind in ("hview", "sset"):
            return z3.IsMember(box(eng_, st, item), set_contents(eng_, st, container))
        return prev_contains(eng_, st, container, item) if prev_contains is not None else None
    eng.hooks["contains"] = h_contains

    def set_contents(eng_, st, v):
        """ObjSet term of a set-like value (handler-table view, symbolic set, concrete set), None otherwise."""
        o = st.heap.get(v.oid) if isinstance(v, VRef) else None
        if o is None:
            return None
        if o.kind == "hview":
            return z3.Select(st.heap[o.f["map"]].f["sets"], o.f["key"])
        if o.kind == "sset":
            return o.f["e"]
        if o.kind == "cset":
            e = z3.EmptySet(ObjS)
            for x in o.f["items"]:
                e = z3.SetAdd(e, box(eng_, st, x))
            return e
        return None

    def set_binop(eng_, st, op, a, b):
        ea, eb = set_contents(eng_, st, a), set_contents(eng_, st, b)
        if ea is None or eb is None or not (st.heap[a.oid].kind in ("hview", "sset") or st.heap[b.oid].kind in ("hview", "sset")):
            return None
        fn = {ast.Sub: z3.SetDifference, ast.BitOr: z3.SetUnion, ast.BitAnd: z3.SetIntersect}.get(type(op))
        if fn is None:
            return None
        return VRef(st.alloc(HObj("sset", None, {"e": fn(ea, eb), "kind": "Callback"})))
    eng.hooks["binop"] = set_binop

    def iter_to_seq(eng_, st, it):
        o = st.heap.get(it.oid) if isinstance(it, VRef) else None
        if o is not None and o.kind in ("sset", "hview"):
            eng_.assumptions_used.add("A-SETITER: iterating a set visits each member exactly once (order arbitrary): enum(S)")
            return VSeq(enum_f(set_contents(eng_, st, it)), parse_ty(f"obj[{o.f.get('kind') or 'Callback'}]"))
        return None
    eng.hooks["iter_to_seq"] = iter_to_seq

    def live_iter(eng_, st, it):
        """Python raises RuntimeError when a set is resized while it is being iterated: for a loop over a live set the
        loop rule adds the obligation that its contents at every back edge are the contents at loop entry."""
        o = st.heap.get(it.oid) if isinstance(it, VRef) else None
        if o is None or o.kind not in ("sset", "hview"):
            return None
        e0 = set_contents(eng_, st, it)
        return lambda s_now: set_contents(eng_, s_now, it) == e0
    eng.hooks["live_iter"] = live_iter

    # ---- havoc targets used in `modifies` -------------------------------------------------------------------
    prev_havoc = eng.hooks["havoc"]

    def h_havoc(eng_, st, text):
        if text.startswith("hmap:"):
            r = eng_.ev(_parse_expr(text[5:]), st)
            o = st.heap[r[0][1].oid]
            o.f["has"] = z3.Const(fresh_name("handlers.has"), z3.ArraySort(IntS, BoolS))
            o.f["sets"] = z3.Const(fresh_name("handlers.sets"), z3.ArraySort(IntS, ObjSetS))
            return
        if text in ("self._read_exception_futures", "self._message_handlers"):
            # identity of the container objects never changes: havoc their contents in place
            r = eng_.ev(_parse_expr(text), st)
            o = st.heap[r[0][1].oid]
            if o.kind == "sset":
                o.f["e"] = z3.Const(fresh_name("waiters"), ObjSetS)
            else:
                o.f["has"] = z3.Const(fresh_name("handlers.has"), z3.ArraySort(IntS, BoolS))
                o.f["sets"] = z3.Const(fresh_name("handlers.sets"), z3.ArraySort(IntS, ObjSetS))
            return
        if text.startswith("set:"):
            r = eng_.ev(_parse_expr(text[4:]), st)
            o = st.heap[r[0][1].oid]
            o.f["e"] = z3.Const(fresh_name("set"), ObjSetS)
            return
        return prev_havoc(eng_, st, text)
    eng.hooks["havoc"] = h_havoc

    # ---- call-outs : message handlers and the stop callback ------------------------------------------------------
    def callback_call(eng_, st, fv, args, kwargs):
        ghost_append(eng_, st, "dispatched", VTuple([fv, args[0]]))
        selfref = find_conn(st)
        cut(eng_, st, selfref, "handler-call", check=True, reentrant_only=True)
        s_exc = st.clone()
        s_exc.note("handler!raises")
        return [(st, VNone), (s_exc, Raised(eng_.fresh_exception(s_exc, Exception)))]
    eng.callout_models["Callback"] = callback_call

    def onstop_call(eng_, st, fv, args, kwargs):
        g = st.heap[st.ghost_oid]
        g.f["stop_calls"] = VInt(simp(as_int(g.f["stop_calls"]) + 1))
        g.f["stop_arg"] = VBool(truth(args[0], st))
        st.events = st.events + [("on_stop", truth(args[0], st))]
        selfref = find_conn(st)
        cut(eng_, st, selfref, "on_stop-call", check=True, reentrant_only=True)
        return ok(st, VNone)
    eng.callout_models["OnStop"] = onstop_call

    # exit of every verified entry point: Inv and Step(segment start, exit)
    def exit_checks(eng_, c, st, result, exc):
        if getattr(c, "conn_entry", False):
            selfref = find_conn(st)
            # (a helper of a connect phase may return in the middle of the phase's atomic segment: the clauses it leaves to its
            # caller are named in its contract and are not part of what callers may assume either)
            check_inv_step(eng_, st, selfref, "exit" if exc is None else "exit-exc", skip=getattr(c, "exit_relaxed", ()))
    eng.hooks["exit_checks"] = exit_checks


class MessageAttrFork(Exception):
    """Attribute access on an opaque message whose class is not determined on the path: the engine forks."""

    def __init__(self, v, name, feas, other):
        self.v, self.name, self.feas, self.other = v, name, feas, other


class VSetVal(V):
    """Immutable set-of-objects value (contract language only)."""

    def __init__(self, e):
        self.e = e


# make == work on VSetVal through ops.values_equal
import pyvc.ops as _ops
_prev_values_equal = _ops.values_equal


def _values_equal(a, b):
    if isinstance(a, VSetVal) and isinstance(b, VSetVal):
        return a.e == b.e
    return _prev_values_equal(a, b)


_ops.values_equal = _values_equal
import pyvc.engine as _eng_mod
_eng_mod.values_equal = _values_equal
import pyvc.builtins as _bi_mod
_bi_mod.values_equal = _values_equal


def same_value(a, b):
    """`a is b` for objects/None/enums/bools, == for immutable scalars; distributes over guarded unions."""
    if isinstance(a, VUnion):
        return simp(z3.Or(*[z3.And(g, same_value(x, b)) for g, x in a.alts]))
    if isinstance(b, VUnion):
        return simp(z3.Or(*[z3.And(g, same_value(a, x)) for g, x in b.alts]))
    if isinstance(a, (VStr, VInt, VReal, VBytes)) and type(a) is type(b):
        return a.e == b.e
    return values_identical(a, b)


def class_key(eng, st, v):
    if isinstance(v, VUnion):
        e = class_key(eng, st, v.alts[-1][1])
        for g, a in reversed(v.alts[:-1]):
            e = z3.If(g, class_key(eng, st, a), e)
        return e
    if isinstance(v, VNoneT):
        return z3.IntVal(0)           # "no class"
    if isinstance(v, VClass):
        return z3.IntVal(cls_code(v.py))
    if isinstance(v, VFunc) and v.kind == "typeof":
        return typeof_f(v.obj.e)
    if isinstance(v, VFunc) and v.kind == "symcls":
        return v.code
    raise Unsupported(f"handler table key {v}")


def find_conn(st):
    import aioesphomeapi.connection as C
    for oid, o in st.heap.items():
        if o.kind == "inst" and o.cls is C.APIConnection:
            return VRef(oid)
    raise Unsupported("no connection object on this path")


# ------------------------------------------------------------------------------------------------------------
# cut points
# ------------------------------------------------------------------------------------------------------------
def _with_self(eng, st, selfref):
    sc = st
    return {"self": selfref}


def check_inv_step(eng, st, selfref, where, skip=()):
    """Obligations of the segment that ends here: Inv(now) and Step(segment start, now)."""
    tags = getattr(eng, "conn_check_tags", None)
    for name, txt, ptags in INV:
        if name in skip:
            continue
        mine = [t for t in ptags if tags is None or t in tags]
        g = eval_clause(eng, st, _parse_expr(txt), {"self": selfref})
        oblige(eng, st, g, f"{where}/Inv:{name}", kind="property" if mine else "auxiliary", tags=mine or None)
    if "seg" in st.labels:
        seg = st.labels["seg"]
        try:
            hm_new = st.heap[st.heap[selfref.oid].f["_message_handlers"].oid]
            hm_old = seg.heap[seg.heap[selfref.oid].f["_message_handlers"].oid]
            qv = st.env.f.get("q") if st.frames else None
            fr = st.frames[-1]
            while qv is None and fr is not None:
                qv = st.heap[fr].f.get("q")
                fr = st.heap[fr].f.get("__parent__")
            # an arbitrary key: the function's universally quantified ghost class `q` when it has one, else a fresh one
            q = qv.code if (isinstance(qv, VFunc) and qv.kind == "symcls") else z3.Int(fresh_name("anykey"))
            mine = [t for t in ["C11"] if tags is None or t in tags]
            oblige(eng, st, z3.Implies(z3.Select(hm_old.f["has"], q), z3.Select(hm_new.f["has"], q)), f"{where}/Step:S9-handler-entries-never-removed",
                   kind="property" if mine else "auxiliary", tags=mine or None)
        except KeyError:
            pass
        for name, txt, ptags in STEP:
            if name in RELY_ONLY and getattr(eng.active_contract, "phase_owner", False):
                continue
            mine = [t for t in ptags if tags is None or t in tags]
            g = eval_clause(eng, st, _parse_expr(step_text(txt, "seg")), {"self": selfref})
            oblige(eng, st, g, f"{where}/Step:{name}", kind="property" if mine else "auxiliary", tags=mine or None)


def tracked_objs(st):
    """Opaque object terms this path can name: values of locals / connection fields (now and at entry) and every
    Obj-sorted subterm of the path condition.  Region frame facts are instantiated for exactly these terms."""
    out = {}

    def add(v):
        if isinstance(v, VObj):
            out[v.e.get_id()] = v.e
        elif isinstance(v, VUnion):
            for _, a in v.alts:
                add(a)
        elif isinstance(v, VTuple):
            for x in v.items:
                add(x)
    states = [st] + ([st.old] if st.old is not None else []) + list(st.labels.values())
    for s_ in states:
        for o in s_.heap.values():
            if o.kind in ("env", "inst"):
                for v in o.f.values():
                    if isinstance(v, V):
                        add(v)
    seen = set()

    def walk(e):
        if e.get_id() in seen:
            return
        seen.add(e.get_id())
        if z3.is_app(e):
            if e.sort().eq(ObjS) and not z3.is_var(e):
                out[e.get_id()] = e
            for c in e.children():
                walk(c)
        elif z3.is_quantifier(e):
            return
    for c in st.pc:
        walk(c)
    return list(out.values())


def tracked_class_keys(eng, st):
    out = {}

    def add(v):
        if isinstance(v, (VClass,)) or (isinstance(v, VFunc) and v.kind in ("symcls", "typeof")):
            try:
                k = class_key(eng, st, v)
                out[k.get_id()] = k
            except Unsupported:
                pass
        elif isinstance(v, VTuple):
            for x in v.items:
                add(x)
        elif isinstance(v, VUnion):
            for _, a in v.alts:
                add(a)
    for o in st.heap.values():
        if o.kind == "env":
            for v in o.f.values():
                if isinstance(v, V):
                    add(v)
    return list(out.values())


def havoc_world(eng, st, selfref, reentrant_only=False):
    """Everything any other task, timer, transport callback or re-entrant callback may do: all mutable fields,
    regions, handler table and ghost state become arbitrary, constrained by Step(before, after) and Inv(after)."""
    pre = st.clone()
    objs = tracked_objs(st)
    ckeys = tracked_class_keys(eng, st)
    o = st.heap[selfref.oid]
    hm0 = st.heap[o.f["_message_handlers"].oid]
    old_has = hm0.f["has"]
    cs = eng.class_specs[o.cls]
    for f in MUT_FIELDS:
        if f == "_message_handlers":
            hm = st.heap[o.f[f].oid]
            hm.f["has"] = z3.Const(fresh_name("handlers.has"), z3.ArraySort(IntS, BoolS))
            hm.f["sets"] = z3.Const(fresh_name("handlers.sets"), z3.ArraySort(IntS, ObjSetS))
            continue
        if f == "_read_exception_futures":
            st.heap[o.f[f].oid].f["e"] = z3.Const(fresh_name("waiters"), ObjSetS)
            continue
        o.f[f] = fresh(eng, st, cs.fields[f], f"self.{f}")
    old_regions = dict(st.regions)
    for r in REGIONS:
        sort, _ = eng.regions_decl[r]
        st.regions[r] = z3.Const(fresh_name("R_" + r), z3.ArraySort(ObjS, sort))
    g = st.heap[st.ghost_oid]
    for k, ty in GHOST.items():
        if reentrant_only and k in ("dispatched", "now"):
            continue        # A-CALLBACK: a callback may re-enter the public API but does not feed packets or let time pass
        if k == "dispatched":
            cur = g.f[k]
            ext = z3.Const(fresh_name("dispatched_by_others"), cur.e.sort())
            g.f[k] = VSeq(z3.Concat(cur.e, ext), cur.elem, cur.is_tuple)
            continue
        if k == "reported":
            cur = g.f[k]
            ext = z3.Const(fresh_name("reported_by_others"), cur.e.sort())
            g.f[k] = VSeq(z3.Concat(cur.e, ext), cur.elem, cur.is_tuple)
            continue
        g.f[k] = fresh(eng, st, ty, "ghost." + k)
    # monotone facts about the objects this frame can still name
    for e in objs:
        if "Future.done" in old_regions:
            st.assume(z3.Implies(z3.Select(old_regions["Future.done"], e),
                                 z3.And(z3.Select(st.regions["Future.done"], e),
                                        z3.Select(st.regions["Future.exc"], e) == z3.Select(old_regions.get("Future.exc", st.regions["Future.exc"]), e))))
        if "Timer.armed" in old_regions:
            st.assume(z3.Implies(z3.Not(z3.Select(old_regions["Timer.armed"], e)), z3.Not(z3.Select(st.regions["Timer.armed"], e))))
            for r in ("Timer.when", "Timer.cb", "Timer.arg"):
                if r in old_regions:
                    st.assume(z3.Select(st.regions[r], e) == z3.Select(old_regions[r], e))
        for r in ("FH.closed", "Socket.closed"):
            if r in old_regions:
                st.assume(z3.Implies(z3.Select(old_regions[r], e), z3.Select(st.regions[r], e)))
        if "Future.cancelled" in old_regions:
            st.assume(z3.Implies(z3.Select(old_regions["Future.cancelled"], e), z3.Select(st.regions["Future.cancelled"], e)))
            st.assume(z3.Implies(z3.And(z3.Select(old_regions["Future.done"], e), z3.Not(z3.Select(old_regions["Future.cancelled"], e))),
                                 z3.Not(z3.Select(st.regions["Future.cancelled"], e))))
        if "FH.ready" in old_regions:
            st.assume(z3.Select(st.regions["FH.ready"], e) == z3.Select(old_regions["FH.ready"], e))
    for k in ckeys:      # Step S9 (handler entries are never removed), instantiated for the class keys this frame can name
        st.assume(z3.Implies(z3.Select(old_has, k), z3.Select(hm0.f["has"], k)))
    st.labels = dict(st.labels)
    st.labels["seg"] = pre
    owner = getattr(eng.active_contract, "phase_owner", False)
    for name, txt, _ in STEP:
        if name in RELY_ONLY and not owner and not reentrant_only:
            continue        # the environment of a suspended non-phase function includes a running connect phase
        st.assume(eval_clause(eng, st, _parse_expr(step_text(txt, "seg")), {"self": selfref}))
    for name, txt, _ in INV:
        st.assume(eval_clause(eng, st, _parse_expr(txt), {"self": selfref}))
    st.labels["seg"] = st.clone()
    st.labels["seg"].labels = {}


def cut(eng, st, selfref, why, check=True, reentrant_only=False):
    if check:
        check_inv_step(eng, st, selfref, why)
    havoc_world(eng, st, selfref, reentrant_only)
    st.events = st.events + [("cut", why)]
    st.note(f"cut:{why}")


def entry_setup(eng, st, relaxed=()):
    """Entry of an entry point: any state satisfying Inv (assumed; minus the clauses this function is also called without);
    the segment starts here."""
    selfref = st.env.f["self"]
    for r in REGIONS:
        region(eng, st, r)
    st.fact(enum_f(z3.EmptySet(ObjS)) == z3.Empty(ObjSeqS))      # A-SETITER: iterating the empty set visits nothing
    for e in tracked_objs(st):
        st.fact(heapmodel.is_old_f(e))                            # the objects named by the inputs existed before this call
    for name, txt, _ in INV:
        if name in relaxed:
            continue
        st.assume(eval_clause(eng, st, _parse_expr(txt), {"self": selfref}))
    st.labels = dict(st.labels)
    st.labels["seg"] = st.clone()
    st.labels["seg"].labels = {}


def inv_at_call(eng, c, st, fv):
    """Modularity: a method whose contract was proved from `Inv` at its entry may only be called in a state where `Inv`
    holds - the clauses it was proved from are obligations of every internal call site."""
    if not getattr(c, "assumes_inv", False):
        return
    selfref = st.env.f.get("self")
    if not isinstance(selfref, VRef):
        return
    tags = getattr(eng, "conn_check_tags", None)
    relaxed = getattr(c, "inv_relaxed", ())
    where = f"call:{fv.qualname.split('.')[-1]}"
    if getattr(c, "has_awaits", False) and not relaxed:
        # the callee suspends: the caller's segment ends at the call (Step(segment start, now) as well)
        check_inv_step(eng, st, selfref, where)
        return
    for name, txt, ptags in INV:
        if name in relaxed:
            continue
        mine = [t for t in ptags if tags is None or t in tags]
        g = eval_clause(eng, st, _parse_expr(txt), {"self": selfref})
        oblige(eng, st, g, f"{where}/Inv:{name}", kind="property" if mine else "auxiliary", tags=mine or None)


def conn_contract(qualname, **kw):
    """Contract of a method of APIConnection verified as an entry point (from any Inv state)."""
    setup = kw.pop("setup", None)
    relaxed = tuple(kw.pop("inv_relaxed", ()))

    def _setup(eng, st):
        entry_setup(eng, st, relaxed)
        if setup:
            setup(eng, st)
    kw.setdefault("self_type", "inst[APIConnection]")
    c = Contract(CONN + "APIConnection." + qualname, setup=_setup, **kw)
    c.conn_entry = True
    c.assumes_inv = True
    c.inv_relaxed = relaxed
    return c


# ------------------------------------------------------------------------------------------------------------
# await / async with  (DESIGN 3.6)
# ------------------------------------------------------------------------------------------------------------
def await_key(eng, st, n):
    """await#k : ordinal of this await among the awaits of the enclosing function (source order)."""
    import ast as _ast
    fn = None
    oid = st.frames[-1]
    while oid is not None and fn is None:
        fn = st.heap[oid].f.get("__fnode__")
        oid = st.heap[oid].f.get("__parent__")
    if fn is None:
        return None
    aw = [x for x in _ast.walk(fn) if isinstance(x, _ast.Await)]
    aw.sort(key=lambda x: (x.lineno, x.col_offset))
    return f"await#{aw.index(n) + 1}" if n in aw else None


def ctx_stack(st):
    return st.heap[st.ghost_oid].f.get("__ctx__", ())


def install_async(eng):
    import asyncio
    import aioesphomeapi.connection as C
    names = eng.hooks.setdefault("names", {})
    eng.exception_universe.extend([asyncio.CancelledError, asyncio.TimeoutError])

    def cancel_outcome(eng_, st):
        s = st.clone()
        s.note("await!CancelledError")
        s.events = s.events + [("cancelled",)]
        return (s, Raised(eng_.make_exc(s, asyncio.CancelledError, [])))

    def ctx_outcomes(eng_, st):
        """Extra ways an await inside `async with asyncio_timeout(..)` can end."""
        out = []
        for kind, data in ctx_stack(st):
            if kind == "timeout":
                s = st.clone()
                s.note("await!TimeoutError(ctx)")
                out.append((s, Raised(eng_.make_exc(s, asyncio.TimeoutError, []))))
        return out

    def await_hook(eng_, st, v):
        n = eng_.cur_await_node
        if not (isinstance(v, VObj) and v.cls == "Future") and not (isinstance(v, VFunc) and v.kind == "awaitable"):
            return ok(st, v)              # result of an `async def` call: it already ran (coroutines are awaited at once here)
        key = await_key(eng_, st, n)
        c = eng_.active_contract
        spec = (getattr(c, "cutpoints", None) or {}).get(key, {}) if c is not None else {}
        selfref = find_conn(st)
        if isinstance(v, VFunc):
            return v.run(eng_, st, key, spec)
        return await_future(eng_, st, v, key, spec, selfref)

    def await_future(eng_, st, fut, key, spec, selfref):
        out = []
        # every wait has a deadline (C09): an armed timer created on this path completes this future, or a timeout context is open
        timers = [ev[1] for ev in st.events if ev[0] == "call_at"]
        dl = [z3.And(rget(eng_, st, "Timer.armed", t), rget(eng_, st, "Timer.arg", t) == fut.e,
                     rget(eng_, st, "Timer.cb", t) == box(eng_, st, eng_.lift(C.handle_timeout, st))) for t in timers]
        if any(k == "timeout" for k, _ in ctx_stack(st)):
            dl.append(z3.BoolVal(True))
        tags = getattr(eng_, "conn_check_tags", None)
        oblige(eng_, st, simp(z3.Or(*dl)) if dl else z3.BoolVal(False), f"{key}/wait-has-an-armed-deadline",
               kind="property" if (tags is None or "C09" in tags) else "auxiliary", tags=["C09"] if (tags is None or "C09" in tags) else None)
        for name, txt, *rest in spec.get("check", []):
            g = eval_clause(eng_, st, _parse_expr(txt))
            ptags = rest[0] if rest else None
            mine = [t for t in (ptags or []) if tags is None or t in tags]
            oblige(eng_, st, g, f"{key}/{name}", kind="property" if mine else "auxiliary", tags=mine or None)
        cut(eng_, st, selfref, key, check=True)
        for lv in spec.get("havoc", []):
            eng_.hooks["havoc"](eng_, st, lv)
        for nm, ty in spec.get("havoc_typed", {}).items():
            from pyvc.contracts import havoc_like
            cur = eng_.lookup(nm, st)
            nv = havoc_like(eng_, st, cur, nm, ty)
            if nv is not cur:
                eng_.assign_name(nm, nv, st)
        for gname, gty in spec.get("ghost_fresh", {}).items():
            st.heap[st.ghost_oid].f[gname] = fresh(eng_, st, gty, "ghost." + gname)
        for txt in spec.get("assume", []):
            st.assume(eval_clause(eng_, st, _parse_expr(txt)))
        # resumed because the future completed ...
        s_done = st.clone()
        s_done.assume(rget(eng_, s_done, "Future.done", fut.e))
        for txt in spec.get("assume_done", []):
            s_done.assume(eval_clause(eng_, s_done, _parse_expr(txt)))
        for s2, has in eng_.fork_bool(rget(eng_, s_done, "Future.exc", fut.e) != noexc, s_done, f"{key}:exc"):
            if not has:
                out.append((s2, VNone))
                continue
            ex = VObj(rget(eng_, s2, "Future.exc", fut.e), "Exception")
            cands = spec.get("exc_classes")
            if cands is None:
                raise Unsupported(f"{key}: the contract does not say who may complete the awaited future (exc_classes)")
            alts = []
            for cname in cands:
                k = eng_.resolve_class(cname)
                s3 = s2.clone()
                if cname.startswith("class:"):
                    pass
                s3.assume(sym_isinstance(eng_, ex, k))
                if smt.feasible(s3.pc):
                    s3.note(f"{key}!{k.__name__}")
                    out.append((s3, Raised(ex)))
        # ... or because this task was cancelled (by its owner, or by an enclosing interrupt block)
        out.append(cancel_outcome(eng_, st))
        out.extend(ctx_outcomes(eng_, st))
        return out

    eng.hooks["await"] = await_hook
    eng.await_future = await_future

    def after_apply(eng_, c, s):
        """A callee that suspends has verified its own segments: for the caller it is a cut point (a new segment starts)."""
        if getattr(c, "has_awaits", False):
            s.labels = dict(s.labels)
            s.labels["seg"] = s.clone()
            s.labels["seg"].labels = {}
            s.events = s.events + [("cut", "callee"), ("callee", c.target.split(".")[-1])]
    eng.hooks["after_apply"] = after_apply

    def lib_awaitable(name, outcomes):
        """A library coroutine: a cut point, then one of the listed outcomes (builders (eng, st) -> (st, V|Raised)), or cancellation."""
        def run(eng_, st, key, spec):
            selfref = find_conn(st)
            tags = getattr(eng_, "conn_check_tags", None)
            # asyncio.wait carries its own timeout; create_connection(sock=<connected socket>) only wraps the socket (A-LIB)
            bounded = any(k == "timeout" for k, _ in ctx_stack(st)) or name in ("asyncio.wait", "loop.create_connection")
            oblige(eng_, st, z3.BoolVal(bounded), f"{key}/wait-has-an-armed-deadline", kind="property" if (tags is None or "C09" in tags) else "auxiliary",
                   tags=["C09"] if (tags is None or "C09" in tags) else None, detail=f"library call {name}")
            cut(eng_, st, selfref, key, check=True)
            out = []
            for ob in outcomes:
                s2 = st.clone()
                r = ob(eng_, s2)
                if r is not None:
                    out.append(r)
            out.append(cancel_outcome(eng_, st))
            out.extend(ctx_outcomes(eng_, st))
            return out
        return VFunc("awaitable", run=run, name=name)

    def raise_of(cls):
        def ob(eng_, s):
            s.note(f"lib!{cls.__name__}")
            return (s, Raised(eng_.fresh_exception(s, cls)))
        return ob

    def loop_create_connection(eng_, st, recv, args, kwargs):
        def okk(eng2, s):
            fh = eng2.new_obj(s, "fh", "FrameHelper")
            rset(eng2, s, "FH.closed", fh, z3.BoolVal(False))
            rf = z3.Const(fresh_name("ready_future"), ObjS)
            rset(eng2, s, "FH.ready", fh, rf)
            tr = z3.Const(fresh_name("transport"), ObjS)
            s.events = s.events + [("new_helper", fh)]
            return (s, VTuple([VObj(tr, "Transport"), VObj(fh, "FrameHelper")]))
        import aioesphomeapi.core as core
        return ok(st, lib_awaitable("loop.create_connection", [okk, raise_of(OSError), raise_of(core.APIConnectionError)]))
    eng.obj_methods[("Loop", "create_connection")] = loop_create_connection

    def b_asyncio_wait(eng_, st, args, kwargs):
        futs = eng_.iter_concrete(args[0], st)
        if len(futs) != 1:
            raise Unsupported("asyncio.wait on several futures")
        alts = eng_.split_union(futs[0], st)
        alts = [(s_, a) for s_, a in alts if not isinstance(a, VNoneT)]
        if len(alts) != 1:
            raise Unsupported("asyncio.wait on a possibly-None future")
        st, f = alts[0]

        def okk(eng2, s):
            d = rget(eng2, s, "Future.done", f.e)
            pend = VRef(s.alloc(HObj("sset", None, {"e": z3.If(d, z3.EmptySet(ObjS), z3.SetAdd(z3.EmptySet(ObjS), f.e)), "kind": "Future"})))
            return (s, VTuple([VNone, pend]))
        return ok(st, lib_awaitable("asyncio.wait", [okk]))
    eng.builtins[id(asyncio.wait)] = b_asyncio_wait

    import aioesphomeapi.host_resolver as hr
    import aioesphomeapi.core as core_

    def b_resolve(eng_, st, args, kwargs):
        def okk(eng2, s):
            return (s, VObj(z3.Const(fresh_name("addrs"), ObjS), "AddrList"))
        return ok(st, lib_awaitable("hr.async_resolve_host", [okk, raise_of(core_.APIConnectionError)]))
    eng.builtins[id(hr.async_resolve_host)] = b_resolve

    # ---- TCP connect (aiohappyeyeballs) and the socket -----------------------------------------------------------------
    import aiohappyeyeballs
    import dataclasses as _dc
    addrlist_f = z3.Function("addrlist_items", ObjS, ObjSeqS)
    prev_its = eng.hooks.get("iter_to_seq")

    def iter_to_seq2(eng_, st, it):
        if isinstance(it, VObj) and it.cls == "AddrList":
            return VSeq(addrlist_f(it.e), parse_ty("obj[AddrInfo]"))
        return prev_its(eng_, st, it) if prev_its is not None else None
    eng.hooks["iter_to_seq"] = iter_to_seq2
    for _a in ("family", "type", "proto", "sockaddr"):
        eng.obj_attrs[("AddrInfo", _a)] = (lambda a_: lambda e, s, v: VObj(z3.Function("addrinfo_" + a_, ObjS, ObjS)(v.e), "Any"))(_a)
    eng.builtins[id(_dc.astuple)] = lambda e, s, a, k: ok(s, VObj(z3.Function("astuple", ObjS, ObjS)(box(e, s, a[0])), "Any"))

    def b_start_connection(eng_, st, args, kwargs):
        """A-LIB(aiohappyeyeballs): start_connection returns a connected socket or raises OSError; it honours cancellation."""
        eng_.assumptions_used.add("A-LIB(aiohappyeyeballs): start_connection returns a connected socket or raises OSError (and honours cancellation); "
                                  "pop_addr_infos_interleave removes at least one entry from a non-empty list; socket option calls may raise OSError")

        def okk(eng2, s):
            sk = eng2.new_obj(s, "sock", "Socket")
            rset(eng2, s, "Socket.closed", sk, z3.BoolVal(False))
            s.events = s.events + [("new_socket", sk)]
            return (s, VObj(sk, "Socket"))
        return ok(st, lib_awaitable("aiohappyeyeballs.start_connection", [okk, raise_of(OSError)]))
    eng.builtins[id(aiohappyeyeballs.start_connection)] = b_start_connection

    def b_pop_addr_infos(eng_, st, args, kwargs):
        """A-LIB(aiohappyeyeballs): pop_addr_infos_interleave removes at least one entry from a non-empty list, in place."""
        o = st.heap[args[0].oid]
        if o.kind != "slist":
            raise Unsupported("pop_addr_infos_interleave on a list that is not symbolic")
        old_e = o.f["e"]
        new_e = z3.Const(fresh_name("addr_infos"), old_e.sort())
        st.fact(z3.And(z3.Length(new_e) >= 0, z3.Implies(z3.Length(old_e) > 0, z3.Length(new_e) < z3.Length(old_e)),
                       z3.Implies(z3.Length(old_e) == 0, z3.Length(new_e) == 0)))
        o.f["e"] = new_e
        return ok(st, VNone)
    eng.builtins[id(aiohappyeyeballs.pop_addr_infos_interleave)] = b_pop_addr_infos

    def sock_op(may_raise):
        def impl(eng_, st, recv, args, kwargs):
            out = [(st, VObj(z3.Const(fresh_name("sockres"), ObjS), "Any"))]
            for cls in may_raise:
                s2 = st.clone()
                s2.note(f"socket!{cls.__name__}")
                out.append((s2, Raised(eng_.make_exc(s2, cls, []))))
            return out
        return impl
    eng.obj_methods[("Socket", "setblocking")] = sock_op([])
    # setsockopt: OSError from the OS; AttributeError is how the code itself probes for TCP_QUICKACK on platforms without it
    eng.obj_methods[("Socket", "setsockopt")] = sock_op([OSError])

    def sock_getpeername(eng_, st, recv, args, kwargs):
        s2 = st.clone()
        s2.note("socket!OSError")
        return [(st, VTuple([fresh(eng_, st, "str", "peer_host"), fresh(eng_, st, "int", "peer_port")])), (s2, Raised(eng_.make_exc(s2, OSError, [])))]
    eng.obj_methods[("Socket", "getpeername")] = sock_getpeername

    # ---- context managers ---------------------------------------------------------------------------------------
    import async_interrupt

    def b_interrupt(eng_, st, args, kwargs):
        return ok(st, VFunc("ctx", ckind="interrupt", fut=args[0], exc=args[1]))

    def b_timeout(eng_, st, args, kwargs):
        return ok(st, VFunc("ctx", ckind="timeout", bound=args[0]))
    eng.builtins[id(async_interrupt.interrupt)] = b_interrupt
    eng.builtins[id(C.interrupt)] = b_interrupt
    eng.builtins[id(C.asyncio_timeout)] = b_timeout
    eng.builtins[id(asyncio.timeout)] = b_timeout

    def with_hook(eng_, n, st):
        if len(n.items) != 1:
            raise Unsupported("with statement with several items")
        item = n.items[0]
        out = []
        for s, cv in eng_.ev(item.context_expr, st):
            if isinstance(cv, Raised):
                out.append((s, cv))
                continue
            if not (isinstance(cv, VFunc) and cv.kind == "ctx"):
                h2 = eng_.hooks.get("with_other")
                if h2 is not None:
                    r = h2(eng_, n, s, cv)
                    if r is not None:
                        out.extend(r)
                        continue
                raise Unsupported(f"context manager {cv}")
            g = s.heap[s.ghost_oid]
            saved = g.f.get("__ctx__", ())
            g.f["__ctx__"] = saved + ((cv.ckind, cv),)
            if item.optional_vars is not None:
                eng_.assign(item.optional_vars, VNone, s)
            for s2, o2 in eng_.exec_block(n.body, s):
                s2.heap[s2.ghost_oid].f["__ctx__"] = saved
                if cv.ckind == "interrupt" and isinstance(o2, Raised) and z3.is_true(simp(eng_.exc_isinstance(o2.exc, asyncio.CancelledError, s2))):
                    # __aexit__: a cancellation caused by the interrupt future becomes the configured exception
                    futv = cv.fut
                    alts = futv.alts if isinstance(futv, VUnion) else [(z3.BoolVal(True), futv)]
                    done = simp(z3.Or(*[z3.And(gd, rget(eng_, s2, "Future.done", a.e)) for gd, a in alts if not isinstance(a, VNoneT)]))
                    s_int = s2.clone()
                    s_int.assume(done)
                    if smt.feasible(s_int.pc):
                        s_int.note("interrupted")
                        for s4, ex in eng_.call(cv.exc, [], {}, s_int):
                            out.append((s4, Raised(ex) if not isinstance(ex, Raised) else ex))
                    s_user = s2                       # cancelled by the task's owner: stays a CancelledError
                    s_user.note("cancelled-by-owner")
                    out.append((s_user, o2))
                    continue
                out.append((s2, o2))
        return out
    eng.hooks["with"] = with_hook

"""C01 - plaintext stream reassembly is lossless and independent of TCP segmentation (DESIGN 4, C01)."""
from pyvc.sidecar import *  # noqa: F401,F403

PROPERTY = "C01"
LEVEL = "proof"
PT = "aioesphomeapi._frame_helper.plain_text."
BASE = "aioesphomeapi._frame_helper.base."
M = "contracts.c01."

ASSUMPTIONS = [
    "A-PY: Python semantics as encoded by pyvc (ints mathematical, bytes as Seq(Int) with element range 0..255)",
    "A-TYPES: arguments have the annotated types (data is bytes, bytearray or memoryview)",
    "A-BITS: x | (y << k) is modelled by uninterpreted bor/shl; the code and the spec function varacc use the same terms",
    "A-SPECTERM: the recursive spec functions in /verif/specs terminate",
    "A-FRAME: process_packet (the connection) does not store to the helper's _buffer/_buffer_len/_pos (frame-scan obligation C01/frame-scan)",
    "A-LOOP: the transport hands received chunks to data_received in order",
    "stream theorem (lemma:stream / lemma:wire_stream): run_msgs / run_view iterate the per-call postcondition of data_received from an empty buffer; "
    "the postcondition's tail clause is stated for calls that do not meet a bad preamble (after one the helper reports an error and the connection closes)",
]


# ---- contract-level helpers (ghost code, executed symbolically; also plain Python) ---------------------------
def view(h):
    return h._buffer if h._buffer is not None else b""


def RI(h):
    """Representation invariant of the receive buffer."""
    return h._buffer_len == len(view(h)) and (h._buffer is None or type(h._buffer) is bytes)


def add_to_buffer_contract():
    return Contract(
        BASE + "APIFrameHelper._add_to_buffer", self_type="inst[APIFrameHelper]", params={"data": "byteslike"}, tags=["C01"],
        requires=[("RI", "RI(self)")],
        ensures=[("RI", "RI(self)", "auxiliary"),
                 ("appends-exactly-the-chunk", "view(self) == old(view(self)) + bytes(data)"),
                 ("frame", "self._pos == old(self._pos)", "auxiliary")],
        modifies=["self._buffer", "self._buffer_len"],
    )


def remove_from_buffer_contract():
    return Contract(
        BASE + "APIFrameHelper._remove_from_buffer", self_type="inst[APIFrameHelper]", tags=["C01"],
        requires=[("RI", "RI(self)"), ("pos-in-range", "0 <= self._pos and self._pos <= self._buffer_len")],
        ensures=[("RI", "RI(self)", "auxiliary"),
                 ("keeps-exactly-the-tail", "view(self) == old(view(self))[old(self._pos):]"),
                 ("frame", "self._pos == old(self._pos)", "auxiliary")],
        modifies=["self._buffer", "self._buffer_len"],
    )


def read_contract():
    return Contract(
        BASE + "APIFrameHelper._read", self_type="inst[APIFrameHelper]", params={"length": "int"}, result="opt[bytes]", tags=["C01"],
        requires=[("RI", "RI(self)"), ("pos-nonneg", "0 <= self._pos"), ("length-nonneg", "length >= 0"),
                  ("buffer-set", "self._buffer is not None or length > 0")],
        ensures=[("none-iff-missing", "iff(result is None, self._buffer_len < old(self._pos) + length)"),
                 ("none-changes-nothing", "implies(result is None, self._pos == old(self._pos))"),
                 ("returns-exact-slice", "implies(result is not None, result == view(self)[old(self._pos):old(self._pos) + length] "
                                         "and len(result) == length and self._pos == old(self._pos) + length)"),
                 ("buffer-unchanged", "view(self) == old(view(self)) and RI(self)", "auxiliary")],
        modifies=["self._pos"],
    )


def read_varuint_contract():
    return Contract(
        BASE + "APIFrameHelper._read_varuint", self_type="inst[APIFrameHelper]", result="int", tags=["C01"],
        requires=[("RI", "RI(self)"), ("pos-in-range", "0 <= self._pos and self._pos <= self._buffer_len")],
        ensures=[("value", "result == vval(old(view(self))[old(self._pos):])"),
                 ("minus-one-iff-incomplete", "result >= -1 and iff(result == -1, vscan(old(view(self))[old(self._pos):]) < 0)"),
                 ("position-complete", "implies(vscan(old(view(self))[old(self._pos):]) >= 0, "
                                       "self._pos == old(self._pos) + vscan(old(view(self))[old(self._pos):]) + 1)"),
                 ("position-incomplete", "implies(vscan(old(view(self))[old(self._pos):]) < 0, self._pos == self._buffer_len)"),
                 ("buffer-unchanged", "view(self) == old(view(self)) and RI(self) and self._pos <= self._buffer_len", "auxiliary")],
        modifies=["self._pos"],
        loops={"loop#1": dict(
            invariant=[
                "old(self._pos) <= self._pos and self._pos <= self._buffer_len",
                "view(self) == old(view(self)) and RI(self)",
                "bitpos == 7 * (self._pos - old(self._pos))", "result >= 0",
                "result == varacc(old(view(self))[old(self._pos):], self._pos - old(self._pos))",
                "vscan(old(view(self))[old(self._pos):]) == (-1 if vscan(view(self)[self._pos:]) == -1 "
                "else (self._pos - old(self._pos)) + vscan(view(self)[self._pos:]))",
            ],
            modifies=["self._pos"],
            decreases="self._buffer_len - self._pos",
            entry_hints="unfold(varacc(view(self)[self._pos:], 0))",
            body_hints=("unfold(vscan(view(self)[self._pos:]))\n"
                        "unfold(varacc(old(view(self))[old(self._pos):], self._pos - old(self._pos) + 1))\n"
                        "seq_suffix_facts(view(self), old(self._pos), self._pos)\n"
                        "seq_suffix_index(view(self), old(self._pos), self._pos)\n"
                        "vscan_range(view(self)[self._pos + 1:])\n"),
            exit_hints="unfold(vscan(view(self)[self._pos:]))",
        )},
    )


def error_preamble_contract_assumed():
    """Callee contract used by data_received; it is verified (not assumed) under C04."""
    return Contract(
        PT + "APIPlaintextFrameHelper._error_on_incorrect_preamble", self_type="inst[APIPlaintextFrameHelper]", params={"preamble": "int"},
        tags=["C01"], ensures=["ghost.packets == old(ghost.packets)"],
        modifies=["self._transport", "self._writer"],
    )


def data_received_contract():
    b0 = "(old(view(self)) + bytes(data))"
    return Contract(
        PT + "APIPlaintextFrameHelper.data_received", self_type="inst[APIPlaintextFrameHelper]", params={"data": "byteslike"}, tags=["C01"],
        requires=[("RI", "RI(self)")],
        ensures=[("delivers-exactly-the-complete-frames-in-order", f"ghost.packets == old(ghost.packets) + pf_msgs({b0})"),
                 ("retains-exactly-the-partial-tail", f"implies(not pf_bad({b0}), view(self) == pf_tail({b0}))"),
                 ("RI", "RI(self)", "auxiliary")],
        raises={"Exception": {"ensures": [("RI", "RI(self)")], "kind": "auxiliary"}},
        modifies=["self._buffer", "self._buffer_len", "self._pos", "self._transport", "self._writer", "ghost.packets"],
        loops={"loop#1": dict(
            invariant=[
                "RI(self)",
                f"ghost.packets + pf_msgs(view(self)) == old(ghost.packets) + pf_msgs({b0})",
                f"pf_tail(view(self)) == pf_tail({b0})",
                f"pf_bad(view(self)) == pf_bad({b0})",
            ],
            modifies=["self._buffer", "self._buffer_len", "self._pos", "self._transport", "self._writer", "ghost.packets"],
            decreases="self._buffer_len",
            body_hints=["unfold(pf_msgs(view(self)))", "unfold(pf_tail(view(self)))", "unfold(pf_bad(view(self)))",
                        "assert view(self)[0:] == view(self)"],
            exit_hints=["unfold(pf_msgs(view(self)))", "unfold(pf_tail(view(self)))", "unfold(pf_bad(view(self)))"],
        )},
    )


# ---- lemmas ---------------------------------------------------------------------------------------------
def vscan_range(s: bytes):
    unfold(vscan(s))
    if len(s) > 0:
        if s[0] >= 128:
            vscan_range(s[1:])


def seq_suffix_index(v: bytes, p0: int, p: int):
    a = v[p0:p]
    b = v[p:]
    assert len(a) == p - p0
    assert v[p0:] == a + b
    assert b[0] == v[p]


def seq_suffix_facts(v: bytes, p0: int, p: int):
    """Structural facts of the sequence theory (each proved here, then available to the caller)."""
    pass


def lemma_contracts():
    return [
        Contract(M + "vscan_range", params={"s": "bytes"}, ensures=["vscan(s) >= -1", "vscan(s) < len(s)"],
                 decreases="len(s)", recursive_ok=True, kind="auxiliary", tags=["C01"]),
        Contract(M + "seq_suffix_index", params={"v": "bytes", "p0": "int", "p": "int"}, requires=["0 <= p0", "p0 <= p", "p < len(v)"],
                 ensures=["v[p0:][p - p0] == v[p]"], kind="auxiliary", tags=["C01"]),
        Contract(M + "seq_suffix_facts", params={"v": "bytes", "p0": "int", "p": "int"},
                 requires=["0 <= p0", "p0 <= p", "p < len(v)"],
                 ensures=["v[p:][1:] == v[p + 1:]", "v[p:][0] == v[p]", "len(v[p:]) == len(v) - p"],
                 kind="auxiliary", tags=["C01"]),
    ]


def targets(eng):
    setup_common(eng)
    frame_helper_specs(eng)
    names = eng.hooks.setdefault("names", {})
    m = source.get_module("contracts.c01")
    for fn in ("view", "RI"):
        names[fn] = VFunc("py", node=m.funcs[fn], module="contracts.c01", qualname=fn, closure=None)

    def _pow2(eng_, st, args, kwargs):
        """2 ** k as the uninterpreted pow2 of A-BITS (the same term `x << k` is defined with)."""
        import pyvc.ops as _ops
        _ops._BITS["used"] = True
        return ok(st, VInt(_ops.pow2_f(as_int(args[0]))))
    names["pow2"] = VFunc("builtin", name="pow2", impl=_pow2)
    lts = register_lemmas(eng, "contracts.c01", lemma_contracts())
    import contracts.lemmas_seg as ls
    lts += register_lemmas(eng, "contracts.lemmas_seg", ls.lemma_contracts())
    import contracts.lemmas_rt as lr
    lts += register_lemmas(eng, "contracts.lemmas_rt", lr.lemma_contracts())
    cs = [add_to_buffer_contract(), remove_from_buffer_contract(), read_contract(), read_varuint_contract(), data_received_contract()]
    for c in cs:
        eng.contracts[c.target] = c
    a = error_preamble_contract_assumed()
    eng.contracts[a.target] = a

    def process_packet(eng_, st, recv, args, kwargs):
        """The connection as seen from the helper: records the packet; may re-enter close() (transport/writer),
        never touches the receive buffer (frame scan); may raise (a reply handler whose write failed)."""
        alts = eng_.split_union(args[1], st)
        if len(alts) != 1 or not isinstance(alts[0][1], VBytes):
            raise Unsupported("process_packet payload is not definitely bytes")
        st = alts[0][0]
        ghost_append(eng_, st, "packets", VTuple([args[0], VBytes(alts[0][1].e)]))
        for o in st.heap.values():
            if o.kind == "inst" and o.cls in eng_.class_specs and "_transport" in o.f:
                o.f["_transport"] = fresh(eng_, st, "opt[obj[Transport]]", "transport")
                o.f["_writer"] = fresh(eng_, st, "opt[callable[Writer]]", "writer")
        s_exc = st.clone()
        s_exc.note("process_packet!raises")
        return [(st, VNone), (s_exc, Raised(eng_.fresh_exception(s_exc, Exception)))]
    eng.obj_methods[("Connection", "process_packet")] = process_packet
    import contracts.native_frames as nf
    return [contract_target(c, bounded=nf.bounded_data_received) for c in cs] + lts


BF = "aioesphomeapi/_frame_helper/base.py"
PTF = "aioesphomeapi/_frame_helper/plain_text.py"
MUTANTS = [
    ("read-off-by-one", BF, "if self._buffer_len < new_pos:", "if self._buffer_len <= new_pos:"),
    ("remove-slices-one-more", BF, "self._buffer = self._buffer[end_of_frame_pos:]", "self._buffer = self._buffer[end_of_frame_pos + 1:]"),
    ("add-no-copy", BF, "bytes_data = bytes(data)", "bytes_data = data"),
    ("add-len-not-updated", BF, "self._buffer_len += len(bytes_data)", "self._buffer_len = len(bytes_data)"),
    ("varuint-7e", BF, "result |= (val & 0x7F) << bitpos", "result |= (val & 0x7E) << bitpos"),
    ("varuint-bitpos8", BF, "bitpos += 7", "bitpos += 8"),
    ("varuint-stop-bit", BF, "if (val & 0x80) == 0:", "if (val & 0x40) == 0:"),
    ("dr-pos-not-reset", PTF, "            self._pos = 0\n            # Read preamble", "            # Read preamble"),
    ("dr-deliver-before-complete", PTF, "if (packet_data := self._read(length)) is None:\n                    return", "if (packet_data := self._read(length)) is None:\n                    packet_data = b''"),
    ("dr-len0-special", PTF, "if length == 0:", "if length <= 1:"),
    ("dr-swap-len-type", PTF, "self._connection.process_packet(msg_type, packet_data)", "self._connection.process_packet(length, packet_data)"),
    ("dr-no-remove", PTF, "            self._remove_from_buffer()\n            self._connection.process_packet", "            self._connection.process_packet"),
]

"""C16 - Bluetooth operations are matched by address and handle and never cross-talk (DESIGN 4, C16)."""
from pyvc.sidecar import *  # noqa: F401,F403
from contracts import cb

PROPERTY = "C16"
LEVEL = "proof"
ASSUMPTIONS = ["A-PY, A-TYPES", "A-CALLBACK: user callbacks return to their caller", "A-PROTOBUF: fields of a received message are total functions of the message object"]


def targets(eng):
    return cb.targets_for(eng, ["C16"], ["C16"])

"""C16 - Bluetooth operations are matched by address and handle and never cross-talk (DESIGN 4, C16)."""
from pyvc.sidecar import *  # noqa: F401,F403
from contracts import cb

PROPERTY = "C16"
LEVEL = "proof"
ASSUMPTIONS = ["A-PY, A-TYPES", "A-CALLBACK: user callbacks return to their caller", "A-PROTOBUF: fields of a received message are total functions of the message object"]


def targets(eng):
    from pyvc.engine import Engine
    out = cb.targets_for(eng, ["C16"], ["C16"])
    # the client-side methods run in their own engine instance (client model of the connection)
    from contracts import client
    e2 = Engine()
    for t in client.targets_for(e2, ["c16"], ["C16"]):
        out.append(_wrap(t, "c16", "C16"))
    return out


def _wrap(t, key, mod):
    def run(eng, opts, name=t.name):
        from pyvc.engine import Engine
        from contracts import client
        e3 = Engine()
        tt = [x for x in client.targets_for(e3, [key], [mod]) if x.name == name][0]
        tt.run(e3, opts)
        eng.obligations.extend(e3.obligations)
        eng.assumptions_used |= e3.assumptions_used
        eng.bounded_used = getattr(eng, "bounded_used", []) + list(getattr(e3, "bounded_used", []))
    return Target(t.name, "contract", run, functions=t.functions)


# built-in mutants of the real source text for the thorough tier's self-check (each must be refuted by a named obligation)
MUTANTS = [('gatt-filter-ignores-handle', 'aioesphomeapi/client_callbacks.py', '    if address == msg.address and handle == msg.handle:', '    if address == msg.address:')]
